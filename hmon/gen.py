"""Seeded generators shared by the monitors (no hiten imports)."""
from __future__ import annotations

import numpy as np

CATALOGUE_PAIRS = None  # filled lazily from hiten.utils.constants by monitors that need it

MU_FIXED = [0.5, 0.0385, 1e-3, 0.012150585609624, 3.0034806e-6, 0.04, 0.2, 2.3e-9]


def mu_log_uniform(rng, lo=2e-9, hi=0.5):
    return float(np.exp(rng.uniform(np.log(lo), np.log(hi))))


def mu_set(rng, n):
    out = list(MU_FIXED)
    while len(out) < n:
        out.append(mu_log_uniform(rng))
    return out[:max(n, 1)]


def state_classes():
    return ["generic", "planar", "spatial", "near_primary", "near_secondary", "on_axis", "near_L"]


def gen_state(rng, mu, cls, delta=1e-2):
    """A 6-D synodic state of the requested class at least ``delta`` away from both primaries."""
    for _ in range(1000):
        if cls == "planar":
            y = np.array([*rng.uniform(-1.6, 1.6, 2), 0.0, *rng.uniform(-1.2, 1.2, 2), 0.0])
        elif cls == "spatial":
            y = np.concatenate([rng.uniform(-1.6, 1.6, 3), rng.uniform(-1.2, 1.2, 3)])
            if abs(y[2]) < 0.05 or abs(y[5]) < 0.05:
                continue
        elif cls in ("near_primary", "near_secondary"):
            c = np.array([-mu, 0, 0]) if cls == "near_primary" else np.array([1 - mu, 0, 0])
            d = rng.normal(size=3)
            d /= np.linalg.norm(d)
            r = rng.uniform(delta, 3 * delta)
            y = np.concatenate([c + r * d, rng.uniform(-1.2, 1.2, 3)])
        elif cls == "on_axis":
            y = np.array([rng.uniform(-1.6, 1.6), 0.0, 0.0, *rng.uniform(-1.2, 1.2, 3)])
        elif cls == "near_L":
            rh = (mu / 3) ** (1 / 3)
            pts = [np.array([1 - mu - rh, 0, 0]), np.array([1 - mu + rh, 0, 0]), np.array([-1 - 5 * mu / 12, 0, 0]),
                   np.array([0.5 - mu, np.sqrt(3) / 2, 0]), np.array([0.5 - mu, -np.sqrt(3) / 2, 0])]
            c = pts[rng.integers(5)]
            y = np.concatenate([c + rng.normal(size=3) * 0.2 * max(rh, 0.02), rng.normal(size=3) * 0.1])
        else:
            y = np.concatenate([rng.uniform(-1.6, 1.6, 3), rng.uniform(-1.2, 1.2, 3)])
        r1 = np.linalg.norm(y[:3] - np.array([-mu, 0, 0]))
        r2 = np.linalg.norm(y[:3] - np.array([1 - mu, 0, 0]))
        if r1 >= delta and r2 >= delta:
            return y
    raise RuntimeError("state generator exhausted")
