"""CLI: python -m hmon.run <ID> <quick|thorough> [--shards N] [--shard i/N --out FILE] [--replay FILE]"""
from __future__ import annotations

import argparse
import importlib
import json
import os
import subprocess
import sys
import tempfile
import time

from .core import Ctx, finish, VERIF_ROOT

# shards used by the thorough tier (processes); quick is single process unless listed
THOROUGH_SHARDS = {"C01": 8, "C02": 8, "C03": 8, "C04": 8, "C05": 6, "C06": 8, "C07": 6, "C08": 6, "C09": 4,
                   "C10": 6, "C11": 8, "C12": 4, "C13": 8, "C14": 1, "C15": 8, "C16": 6, "C17": 6, "C18": 4,
                   "C19": 8, "C20": 4}
QUICK_SHARDS = {}
# kernel-heavy monitors that get a NUMBA_BOUNDSCHECK=1 pass in the thorough tier (C06 runs its own sanitizer sub-process)
SANITIZE = {"C02", "C03", "C10", "C11", "C14", "C16", "C17", "C19", "C08", "C09"}
WATCHDOG_S = {"quick": 1500, "thorough": 3 * 3600}


import logging
logging.disable(logging.WARNING)


def run_one(prop, tier, seed, shard):
    ctx = Ctx(prop, tier, seed, shard)
    mod = importlib.import_module(f"hmon.monitors.{prop.lower()}")
    try:
        mod.run(ctx)
    except Exception as e:  # harness failure -> inconclusive, never "held"
        import traceback
        traceback.print_exc()
        if os.environ.get("HMON_SANITIZER_PASS") == "1" and isinstance(e, IndexError):
            ctx.violation("SAN:no out-of-bounds array access in compiled kernels (NUMBA_BOUNDSCHECK=1)", {"error": str(e)[:300]}, None)
        else:
            ctx.mark_inconclusive(f"harness exception {type(e).__name__}: {e}")
    return ctx, getattr(mod, "LEVEL", None)


def main(argv=None):
    ap = argparse.ArgumentParser()
    ap.add_argument("prop")
    ap.add_argument("tier", nargs="?", default=os.environ.get("VERIF_TIER", "quick"))
    ap.add_argument("--shards", type=int, default=None)
    ap.add_argument("--shard", default=None)
    ap.add_argument("--out", default=None)
    ap.add_argument("--replay", default=None)
    a = ap.parse_args(argv)
    prop = a.prop.upper()
    tier = a.tier
    seed = int(os.environ.get("VERIF_SEED", "0") or 0)

    if a.replay:
        path = a.replay if os.path.isabs(a.replay) else os.path.join(VERIF_ROOT, a.replay)
        with open(path) as f:
            w = json.load(f)
        tier, seed = w.get("tier", tier), int(w.get("seed", seed))
        print(f"replaying {prop} tier={tier} seed={seed}; expecting clause={w.get('clause')} mechanism={w.get('mechanism')}")
        mod = importlib.import_module(f"hmon.monitors.{prop.lower()}")
        if hasattr(mod, "replay"):
            ctx = Ctx(prop, tier, seed)
            mod.replay(ctx, w)
            return finish(ctx, getattr(mod, "LEVEL", None))

    if a.shard:  # worker
        i, n = map(int, a.shard.split("/"))
        ctx, _ = run_one(prop, tier, seed, (i, n))
        with open(a.out, "w") as f:
            json.dump(ctx.dump(), f)
        return 0

    nshards = a.shards or (THOROUGH_SHARDS.get(prop, 1) if tier == "thorough" else QUICK_SHARDS.get(prop, 1))
    nshards = max(1, min(nshards, os.cpu_count() or 1))
    if nshards == 1 and not (tier == "thorough" and prop in SANITIZE):
        ctx, level = run_one(prop, tier, seed, (0, 1))
        return finish(ctx, level)

    # sharded run: one long-lived worker process per shard
    t0 = time.time()
    tmp = tempfile.mkdtemp(prefix=f"hmon_{prop}_")
    procs = []
    for i in range(nshards):
        out = os.path.join(tmp, f"shard{i}.json")
        env = dict(os.environ)
        env["NUMBA_CACHE_DIR"] = os.path.join(tmp, f"nbcache{i}")
        env["NUMBA_NUM_THREADS"] = str(max(1, min(int(env.get("NUMBA_NUM_THREADS", "4")), (os.cpu_count() or 1) // nshards)))
        p = subprocess.Popen([sys.executable, "-m", "hmon.run", prop, tier, "--shard", f"{i}/{nshards}", "--out", out],
                             env=env, cwd=tmp)
        procs.append((p, out))
    # sanitizer pass (thorough tier): the quick-size workload once more with numba's array-bounds checking on; an IndexError raised
    # from library code there is a violation (silent out-of-bounds reads return garbage without the flag)
    san = None
    if tier == "thorough" and prop in SANITIZE:
        out = os.path.join(tmp, "sanitizer.json")
        env = dict(os.environ)
        env["NUMBA_CACHE_DIR"] = os.path.join(tmp, "nbcache_san")
        env["NUMBA_BOUNDSCHECK"] = "1"
        env["HMON_SANITIZER_PASS"] = "1"
        env["VERIF_SEED"] = str(seed + 7919)
        env["NUMBA_NUM_THREADS"] = "2"
        san = (subprocess.Popen([sys.executable, "-m", "hmon.run", prop, "quick", "--shard", "0/1", "--out", out], env=env, cwd=tmp), out)
    master = Ctx(prop, tier, seed, (0, nshards))
    master.t0 = t0
    deadline = t0 + WATCHDOG_S.get(tier, 3600)
    for p, out in procs:
        try:
            p.wait(timeout=max(1, deadline - time.time()))
        except subprocess.TimeoutExpired:
            p.kill()
            master.mark_inconclusive("watchdog: shard exceeded wall-clock budget")
            continue
        if p.returncode != 0 or not os.path.exists(out):
            master.mark_inconclusive(f"shard exited with status {p.returncode}")
            continue
        with open(out) as f:
            master.merge(json.load(f))
    if san is not None:
        p, out = san
        try:
            p.wait(timeout=max(1, deadline - time.time()))
            if p.returncode == 0 and os.path.exists(out):
                with open(out) as f:
                    d = json.load(f)
                d["requirements"] = {}          # the sanitizer pass adds observations, not obligations
                d["notes"] = {"n_sanitizer_cases": int(sum(d["cases"].values()))}
                d["cases"] = {"sanitizer:" + k: v for k, v in d["cases"].items()}
                master.merge(d)
                master.notes["sanitizer_pass"] = "NUMBA_BOUNDSCHECK=1, quick-size workload, seed+7919"
            else:
                master.mark_inconclusive(f"sanitizer pass exited with status {p.returncode}")
        except subprocess.TimeoutExpired:
            p.kill()
            master.mark_inconclusive("watchdog: sanitizer pass exceeded wall-clock budget")
    import shutil
    shutil.rmtree(tmp, ignore_errors=True)
    return finish(master, None)


if __name__ == "__main__":
    sys.exit(main())
