"""Core of the runtime-monitoring harness: three-valued verdicts, evidence, known findings.

A monitor module exposes ``run(ctx)``.  It drives the real hiten code and reports to ``ctx``:

* ``ctx.case(cls, key, nontrivial)``   one generated execution / input (counted, hashed for distinctness)
* ``ctx.check(cond, clause, witness, mechanism)`` one evaluation of a deciding predicate
* ``ctx.stat(name, value)``             running max of a residual (goes into the evidence file)
* ``ctx.require(counter, n)``           minimum number of evaluations of a clause/class, otherwise INCONCLUSIVE
* ``ctx.sample(obj)``                   an actual case written out in the evidence file

Verdicts are three valued: violated / held on what was observed / inconclusive.
"""
from __future__ import annotations

import hashlib
import json
import os
import sys
import time
import traceback
from collections import Counter, defaultdict

import numpy as np

VERIF_ROOT = os.path.dirname(os.path.dirname(os.path.abspath(__file__)))
REPO_ROOT = os.environ.get("HITEN_REPO", "/repo")

LEVELS = {"C13": "fault_enumeration", "C17": "translation_validation"}

MAX_WITNESS_PER_CLAUSE = 3
MAX_SAMPLES = 12


def _jsonable(o, depth=0):
    if depth > 6:
        return repr(o)[:200]
    if isinstance(o, (str, bool)) or o is None:
        return o
    if isinstance(o, (int, np.integer)):
        return int(o)
    if isinstance(o, (float, np.floating)):
        f = float(o)
        if f != f or f in (float("inf"), float("-inf")):
            return repr(f)
        return f
    if isinstance(o, (complex, np.complexfloating)):
        return {"re": float(o.real), "im": float(o.imag)}
    if isinstance(o, np.ndarray):
        if o.size > 400:
            return {"shape": list(o.shape), "head": _jsonable(o.ravel()[:40].tolist(), depth + 1)}
        return _jsonable(o.tolist(), depth + 1)
    if isinstance(o, dict):
        return {str(k): _jsonable(v, depth + 1) for k, v in o.items()}
    if isinstance(o, (list, tuple, set, frozenset)):
        return [_jsonable(v, depth + 1) for v in o]
    return repr(o)[:300]


def khash(key) -> str:
    return hashlib.sha1(json.dumps(_jsonable(key), sort_keys=True).encode()).hexdigest()[:16]


class Inconclusive(Exception):
    pass


class Ctx:
    def __init__(self, prop: str, tier: str, seed: int, shard=(0, 1)):
        self.prop = prop
        self.tier = tier
        self.seed = int(seed)
        self.shard, self.nshards = shard
        self.rng = np.random.default_rng([self.seed, self.shard, sum(map(ord, prop))])
        self.t0 = time.time()
        self.cases = Counter()            # class -> number of cases
        self.distinct = set()             # hashes of non-trivial cases
        self.evals = Counter()            # clause -> number of predicate evaluations
        self.stats = {}                   # name -> max value
        self.samples = []
        self.auto_samples = []
        self.violations = []              # dicts
        self.vcount = Counter()           # (clause, mechanism) -> count
        self.requirements = {}            # counter name -> minimum
        self.notes = {}
        self.inconclusive = []            # reasons
        self.skipped = Counter()

    # ------------------------------------------------------------------ recording
    @property
    def quick(self):
        return self.tier == "quick"

    def pick(self, quick, thorough):
        return quick if self.tier == "quick" else thorough

    def mine(self, index: int) -> bool:
        """True when work item ``index`` belongs to this shard."""
        return index % self.nshards == self.shard

    def case(self, cls: str, key=None, nontrivial=True):
        self.cases[cls] += 1
        if nontrivial and key is not None:
            self.distinct.add(khash([cls, key]))
        if key is not None and len(self.auto_samples) < 4:
            self.auto_samples.append({"class": cls, "case_key": _jsonable(key)})

    def sample(self, obj):
        if len(self.samples) < MAX_SAMPLES:
            self.samples.append(_jsonable(obj))

    def stat(self, name, value):
        try:
            v = float(value)
        except Exception:
            return
        if v != v:
            v = float("inf")
        if name not in self.stats or v > self.stats[name]:
            self.stats[name] = v

    def note(self, name, value):
        self.notes[name] = _jsonable(value)

    def count(self, name, n=1):
        self.evals[name] += n

    def skip(self, reason):
        self.skipped[reason] += 1

    def require(self, name, minimum):
        self.requirements[name] = max(int(minimum), self.requirements.get(name, 0))

    def check(self, cond, clause: str, witness=None, mechanism: str | None = None) -> bool:
        """One evaluation of a deciding predicate. ``witness`` may be a dict or a zero-arg callable."""
        self.evals[clause] += 1
        if bool(cond):
            return True
        self.violation(clause, witness, mechanism)
        return False

    def violation(self, clause, witness=None, mechanism=None):
        k = (clause, mechanism)
        self.vcount[k] += 1
        if self.vcount[k] <= MAX_WITNESS_PER_CLAUSE:
            if callable(witness):
                try:
                    witness = witness()
                except Exception as e:  # pragma: no cover
                    witness = {"witness_error": repr(e)}
            self.violations.append({"clause": clause, "mechanism": mechanism,
                                    "witness": _jsonable(witness)})

    def mark_inconclusive(self, reason):
        self.inconclusive.append(str(reason))

    # ------------------------------------------------------------------ (de)serialisation for shards
    def dump(self):
        return {
            "cases": dict(self.cases), "distinct": sorted(self.distinct), "evals": dict(self.evals),
            "stats": self.stats, "samples": self.samples or self.auto_samples, "violations": self.violations,
            "vcount": [[k[0], k[1], v] for k, v in self.vcount.items()],
            "requirements": self.requirements, "notes": self.notes,
            "inconclusive": self.inconclusive, "skipped": dict(self.skipped),
        }

    def merge(self, d):
        self.cases.update(d["cases"])
        self.distinct.update(d["distinct"])
        self.evals.update(d["evals"])
        for k, v in d["stats"].items():
            self.stat(k, v)
        for s in d["samples"]:
            if len(self.samples) < MAX_SAMPLES:
                self.samples.append(s)
        seen = Counter((v["clause"], v["mechanism"]) for v in self.violations)
        for v in d["violations"]:
            k = (v["clause"], v["mechanism"])
            if seen[k] < MAX_WITNESS_PER_CLAUSE:
                self.violations.append(v)
                seen[k] += 1
        for c, m, n in d["vcount"]:
            self.vcount[(c, m)] += n
        for k, v in d["requirements"].items():
            self.require(k, v)
        for k, v in d["notes"].items():
            if k not in self.notes:
                self.notes[k] = v
            elif isinstance(v, (int, float)) and isinstance(self.notes[k], (int, float)) and k.startswith("n_"):
                self.notes[k] += v
            elif k == "coverage_extra" and isinstance(v, dict):
                for kk, vv in v.items():
                    if isinstance(vv, (int, float)) and isinstance(self.notes[k].get(kk), (int, float)):
                        self.notes[k][kk] = max(self.notes[k][kk], vv) if kk == "programs" else self.notes[k][kk] + vv
                    else:
                        self.notes[k].setdefault(kk, vv)
        self.inconclusive.extend(d["inconclusive"])
        self.skipped.update(d["skipped"])


# ---------------------------------------------------------------------- known findings
def load_known():
    path = os.path.join(VERIF_ROOT, "known_findings.json")
    try:
        with open(path) as f:
            data = json.load(f)
    except FileNotFoundError:
        return {}
    out = {}
    for e in data.get("findings", []):
        out[(e["property"], e["mechanism"])] = e
    return out


def finish(ctx: Ctx, level=None) -> int:
    """Aggregate, write evidence/replay, print verdict lines, return the exit code."""
    prop = ctx.prop
    known = load_known()
    level = level or LEVELS.get(prop, "exploration")
    wall = time.time() - ctx.t0

    # requirements -> inconclusive
    for name, minimum in ctx.requirements.items():
        got = ctx.evals.get(name, 0) + ctx.cases.get(name, 0)
        if got < minimum:
            ctx.mark_inconclusive(f"counter {name!r} reached {got} < required {minimum}")

    new_viol = []
    known_hit = {}
    for v in ctx.violations:
        e = known.get((prop, v["mechanism"])) if v["mechanism"] else None
        if e is not None and e.get("status") == "known":
            known_hit.setdefault(v["mechanism"], (e, v))
        else:
            new_viol.append(v)

    replay_paths = []
    if new_viol:
        rdir = os.path.join(os.environ.get("HITEN_REPLAY_DIR") or os.path.join(VERIF_ROOT, "replay"), prop)
        os.makedirs(rdir, exist_ok=True)
        seen = set()
        for v in new_viol:
            k = (v["clause"], v["mechanism"])
            if k in seen:
                continue
            seen.add(k)
            h = khash([v["clause"], v["mechanism"], v["witness"]])
            p = os.path.join(rdir, f"{h}.json")
            with open(p, "w") as f:
                json.dump({"property": prop, "tier": ctx.tier, "seed": ctx.seed, **v,
                           "count": ctx.vcount.get(k, 1)}, f, indent=1)
            replay_paths.append((os.path.relpath(p, VERIF_ROOT), v))

    n_eval = int(sum(ctx.cases.values()))
    coverage = {
        "evaluations": n_eval,
        "distinct_nontrivial": len(ctx.distinct),
        "rule": ctx.notes.pop("rule", "distinct = hash of the normalised concrete input of a case; "
                                      "non-trivial as flagged by the monitor's stated class rule"),
        "samples": ctx.samples or ctx.auto_samples,
        "cases_per_class": dict(ctx.cases),
        "predicate_evaluations": dict(ctx.evals),
        "max_residuals": ctx.stats,
        "skipped": dict(ctx.skipped),
        "known_findings_matched": {m: ctx.vcount_total(m) for m in known_hit},
        "inconclusive_reasons": ctx.inconclusive,
        "notes": ctx.notes,
        "shards": ctx.nshards,
    }
    coverage.update(ctx.notes.pop("coverage_extra", {}) or {})
    ev = {
        "property_id": prop, "tier": ctx.tier, "seed": ctx.seed, "level": level,
        "coverage": coverage,
        "assumptions": ctx.notes.get("assumptions", [
            "CPython, numpy, scipy, sympy, mpmath and the harness oracles under /verif/hmon/oracles are trusted",
            "verdict covers only the executions observed in this run"]),
        "wall_s": round(wall, 2),
        "violations": int(sum(n for (c, m), n in ctx.vcount.items()
                              if not (m and (prop, m) in known and known[(prop, m)].get("status") == "known"))),
    }
    # runs against a scratch copy of the repository (HITEN_SRC) must not overwrite the evidence of the real tree
    edir = os.environ.get("HITEN_EVIDENCE_DIR") or os.path.join(VERIF_ROOT, "evidence")
    os.makedirs(edir, exist_ok=True)
    with open(os.path.join(edir, f"{prop}.json"), "w") as f:
        json.dump(ev, f, indent=1, sort_keys=True)

    for m, (e, v) in sorted(known_hit.items()):
        print(f"KNOWN-FINDING: property={prop} {m}: {e.get('what', '')} (seen {ctx.vcount_total(m)}x)")
    print(f"[{prop} {ctx.tier} seed={ctx.seed}] cases={n_eval} distinct_nontrivial={len(ctx.distinct)} "
          f"predicate_evals={sum(ctx.evals.values())} wall={wall:.1f}s")
    for k in sorted(ctx.stats):
        print(f"    max {k} = {ctx.stats[k]:.3e}")
    if replay_paths:
        for p, v in replay_paths:
            print(f"    violated clause={v['clause']} mechanism={v['mechanism']} "
                  f"count={ctx.vcount.get((v['clause'], v['mechanism']), 1)}")
            print(f"VIOLATION property={prop} replay={p}")
        return 1
    if ctx.inconclusive:
        for r in ctx.inconclusive:
            print(f"INCONCLUSIVE property={prop} reason={r}")
        return 2
    if n_eval == 0 or not ctx.evals:
        print(f"INCONCLUSIVE property={prop} reason=monitor observed nothing")
        return 2
    if known_hit:
        print(f"HELD property={prop} on everything observed apart from the known finding(s) listed above")
    else:
        print(f"HELD property={prop} on everything observed")
    return 0


def _vcount_total(self, mechanism):
    return int(sum(n for (c, m), n in self.vcount.items() if m == mechanism))


Ctx.vcount_total = _vcount_total


INTERNAL_ERRORS = (IndexError, KeyError, NameError, AttributeError)


def _raised_inside_library(exc) -> bool:
    """True when the innermost frame that belongs to either the harness or the hiten package is a hiten frame, i.e. the error
    surfaced while library code was running (possibly inside a dependency it called), not in harness code."""
    tb = exc.__traceback__
    owner = None
    while tb is not None:
        fn = tb.tb_frame.f_code.co_filename.replace("\\", "/")
        if "site-packages" not in fn and "/lib/python" not in fn:
            if "/hmon/" in fn:
                owner = "harness"
            elif "/hiten/" in fn:
                owner = "library"
        tb = tb.tb_next
    return owner == "library"


def guarded(ctx: Ctx, label: str, fn, *a, **k):
    """Run a sub-monitor; an unexpected harness exception is *inconclusive*, never a pass."""
    try:
        return fn(*a, **k)
    except Inconclusive as e:
        ctx.mark_inconclusive(f"{label}: {e}")
    except Exception as e:
        tb = traceback.format_exc(limit=6)
        sys.stderr.write(f"[harness error in {label}]\n{tb}\n")
        if os.environ.get("HMON_SANITIZER_PASS") == "1" and isinstance(e, IndexError):
            # numba bounds checking turned a silent out-of-range access into an exception
            ctx.violation("SAN:no out-of-bounds array access in compiled kernels (NUMBA_BOUNDSCHECK=1)",
                          {"where": label, "error": str(e)[:300], "traceback": tb[-1500:]}, None)
        elif isinstance(e, INTERNAL_ERRORS) and _raised_inside_library(e):
            # the monitors only feed legitimate inputs; an internal error (index/key/name/attribute) raised from library code on
            # such an input means the operation the property speaks about did not deliver its value at all
            ctx.violation("X:library operation completes on a legitimate input (no internal IndexError/KeyError/NameError/AttributeError)",
                          {"where": label, "error": f"{type(e).__name__}: {e}"[:300], "traceback": tb[-1500:]}, None)
        else:
            ctx.mark_inconclusive(f"{label}: harness exception {type(e).__name__}: {e}")
    return None
