"""ODE problem families with exact (closed form) or 1e-13-accurate (SciPy DOP853) reference solutions.

Nothing here imports hiten.  Shared by the integrator monitors (C02 order/tolerance, C10 time grids, C11 events).

One right-hand side for everything
----------------------------------
Every new numba dispatcher handed to hiten re-specialises its integrator kernels (2-5 s each), so *all* families are
served by ONE numba-compilable function ``universal_rhs(t, y)``.  A problem instance is encoded in the (augmented)
state vector itself; the non-dynamic components have zero derivative:

    y = [ x_0 .. x_{n-1} | p_0 .. p_{m-1} | n | family_code ]
          dynamic state     parameters      ^ number of dynamic components

``universal_rhs`` is written in the common subset of numba-nopython and plain Python/numpy, so the very same
source can be (a) passed to hiten (``create_rhs_system(universal_rhs, dim=len(y))``), (b) compiled here for fast
SciPy references (``numba_rhs()``), and (c) *called uncompiled* on ``numpy.longdouble`` vectors (extended
precision evaluation of the same vector field, used for step-by-step executable models of RK methods).

Families (code)
    0 linrot    x' = s(t) (S - d I) x,  s = 1 + a cos(w t + ph), S skew (coupled rotations, any n)        closed form
    1 forced    x' = (S - d I)(x - g(t)) + g'(t),  g_i = al_i sin(nu_i t + ph_i) + be_i t  (any n, n=1 scalar) closed form
    2 pendulum  th' = om, om' = -k sin th - c om + F cos(w t)                                             SciPy 1e-13
    3 kepler    planar two-body problem, mu, e <= 0.6                                                     Kepler's equation
    4 lotka     x' = x (a - b y), y' = -y (c - d x)                                                        SciPy 1e-13
    5 duffing   x' = v, v' = -de v - al x - be x^3 + ga cos(w t)                                           SciPy 1e-13
    6 randfield f_i = sum_k Amp_ik sin(W_k . x + nu_k t + ph_k)   (random smooth time-dependent, any n)    SciPy 1e-13
    7 logistic  y' = r (1 + a cos(w t + ph)) y (1 - y)                                                     closed form
    8 polyt     x_i' = sum_{k<=3} c_ik t^k                       (pure quadrature, exact for order >= 4)  closed form
    9 logdecay  x0' = -a x0, x1' = -b x1 log(x1 / c)   (two time scales; NaN outside the domain x1 > 0)       closed form
                (not part of catalogue(): used by C02's restricted-domain clause through logdecay_state / logdecay_exact)
   10 bump      u' = A exp(-((t - tc)/sigma)^2 / 2), x' = v, v' = -x   (narrow forcing feature; needs max_step)  closed form (erf)

Self-test:  python -m hmon.oracles.exactflows
"""
from __future__ import annotations

import numpy as np
from scipy.integrate import solve_ivp

LD = np.longdouble

LINROT, FORCED, PENDULUM, KEPLER, LOTKA, DUFFING, RANDFIELD, LOGISTIC, POLYT = range(9)
FAMILY_NAMES = ["linrot", "forced", "pendulum", "kepler", "lotka", "duffing", "randfield", "logistic", "polyt"]
CLOSED_FORM = {LINROT, FORCED, KEPLER, LOGISTIC, POLYT}


# ===================================================================================== the one right-hand side
def universal_rhs(t, y):
    D = y.size
    out = np.zeros_like(y)
    fam = int(y[D - 1])
    n = int(y[D - 2])
    p = n
    if fam == 0:
        q = p + n * n
        d = y[q]
        s = 1.0 + y[q + 1] * np.cos(y[q + 2] * t + y[q + 3])
        for i in range(n):
            acc = -d * y[i]
            for j in range(n):
                acc += y[p + i * n + j] * y[j]
            out[i] = s * acc
    elif fam == 1:
        q = p + n * n
        d = y[q]
        ial = q + 1
        inu = ial + n
        iph = inu + n
        ibe = iph + n
        for i in range(n):
            acc = y[ial + i] * y[inu + i] * np.cos(y[inu + i] * t + y[iph + i]) + y[ibe + i]
            for j in range(n):
                gj = y[ial + j] * np.sin(y[inu + j] * t + y[iph + j]) + y[ibe + j] * t
                a_ij = y[p + i * n + j]
                if i == j:
                    a_ij = a_ij - d
                acc += a_ij * (y[j] - gj)
            out[i] = acc
    elif fam == 2:
        out[0] = y[1]
        out[1] = -y[p] * np.sin(y[0]) - y[p + 1] * y[1] + y[p + 2] * np.cos(y[p + 3] * t)
    elif fam == 3:
        r2 = y[0] * y[0] + y[1] * y[1]
        r3 = r2 * np.sqrt(r2)
        out[0] = y[2]
        out[1] = y[3]
        out[2] = -y[p] * y[0] / r3
        out[3] = -y[p] * y[1] / r3
    elif fam == 4:
        out[0] = y[0] * (y[p] - y[p + 1] * y[1])
        out[1] = -y[1] * (y[p + 2] - y[p + 3] * y[0])
    elif fam == 5:
        out[0] = y[1]
        out[1] = -y[p] * y[1] - y[p + 1] * y[0] - y[p + 2] * y[0] * y[0] * y[0] + y[p + 3] * np.cos(y[p + 4] * t)
    elif fam == 6:
        K = int(y[p])
        iA = p + 1
        iW = iA + n * K
        inu = iW + K * n
        iph = inu + K
        for k in range(K):
            arg = y[inu + k] * t + y[iph + k]
            for j in range(n):
                arg += y[iW + k * n + j] * y[j]
            sk = np.sin(arg)
            for i in range(n):
                out[i] += y[iA + i * K + k] * sk
    elif fam == 7:
        out[0] = y[p] * (1.0 + y[p + 1] * np.cos(y[p + 2] * t + y[p + 3])) * y[0] * (1.0 - y[0])
    elif fam == 8:
        for i in range(n):
            out[i] = y[p + 4 * i] + t * (y[p + 4 * i + 1] + t * (y[p + 4 * i + 2] + t * y[p + 4 * i + 3]))
    elif fam == 9:
        # restricted domain: smooth for x1 > 0, NaN for x1 < 0 (logarithm of a negative number)
        out[0] = -y[p] * y[0]
        out[1] = -y[p + 1] * y[1] * np.log(y[1] / y[p + 2])
    elif fam == 10:
        # a narrow smooth feature in the forcing (quadrature of a Gaussian bump) next to a harmonic oscillator
        z = (t - y[p + 1]) / y[p + 2]
        out[0] = y[p] * np.exp(-0.5 * z * z)
        out[1] = y[2]
        out[2] = -y[1]
    return out


def logdecay_state(x0, x1, a, b, c, dim):
    """augmented state vector of family 9 padded to ``dim`` components"""
    y = np.zeros(dim)
    y[0], y[1], y[2], y[3], y[4], y[dim - 2], y[dim - 1] = x0, x1, a, b, c, 2.0, 9.0
    return y


def logdecay_exact(x0, x1, a, b, c, t):
    t = np.asarray(t, dtype=float)
    return np.column_stack([x0 * np.exp(-a * t), c * np.exp(np.log(x1 / c) * np.exp(-b * t))])


def bump_state(A, tc, sigma, x, v, dim):
    y = np.zeros(dim)
    y[0], y[1], y[2], y[3], y[4], y[5], y[dim - 2], y[dim - 1] = 0.0, x, v, A, tc, sigma, 3.0, 10.0
    return y


def bump_exact(A, tc, sigma, x, v, t):
    from scipy.special import erf
    t = np.asarray(t, dtype=float)
    u = A * sigma * np.sqrt(np.pi / 2.0) * (erf((t - tc) / (sigma * np.sqrt(2.0))) - erf((0.0 - tc) / (sigma * np.sqrt(2.0))))
    return np.column_stack([u, x * np.cos(t) + v * np.sin(t), -x * np.sin(t) + v * np.cos(t)])


_NUMBA_RHS = None


def numba_rhs():
    """This module's own compiled instance of ``universal_rhs`` (used for the SciPy references)."""
    global _NUMBA_RHS
    if _NUMBA_RHS is None:
        import numba
        _NUMBA_RHS = numba.njit(cache=False, fastmath=False)(universal_rhs)
    return _NUMBA_RHS


def rhs_longdouble(t, y):
    """The same vector field evaluated in numpy.longdouble (uncompiled call of the same source)."""
    return universal_rhs(LD(t), np.asarray(y, dtype=LD))


# ===================================================================================== problems
class Problem:
    """One initial-value problem  x' = f(t, x; params), x(t0) = x0  of a family.

    Attributes: family (name), code, n, params (float64), x0 (float64, n), t0, T (suggested span), rate
    (fastest characteristic angular rate: choose steps with h*rate < 1), aux (family-specific closed-form data);
    ``accuracy()`` is the absolute accuracy of ``exact``.
    """

    def __init__(self, code, x0, params, t0, T, rate, aux=None, label=None):
        self.code = int(code)
        self.family = FAMILY_NAMES[self.code]
        self.x0 = np.array(x0, dtype=float)
        self.n = self.x0.size
        self.params = np.array(params, dtype=float)
        self.t0 = float(t0)
        self.T = float(T)
        self.rate = float(rate)
        self.aux = aux or {}
        self.label = label or self.family
        self.closed_form = self.code in CLOSED_FORM
        self._dense = {}
        self._acc = None
        self._maker = None

    def accuracy(self):
        """Absolute accuracy of ``exact`` over [t0, t0+T].

        Closed forms are evaluated in longdouble (rounding of the float64 result dominates).  SciPy references are
        measured: the difference between the 1e-13 and a 1e-12 run bounds the error of the coarser one, i.e. about
        ten times the error of the reference actually used (kept as a safety factor)."""
        if self._acc is None:
            scale = 1.0 + float(np.max(np.abs(self.x0)))
            if self.closed_form:
                self._acc = 2e-14 * scale * (max(1.0, self.rate * self.T) if self.code == KEPLER else 1.0)
            else:
                tt = np.linspace(self.t0, self.t0 + self.T, 97)
                a = self.flow(self.x0, tt, rtol=1e-13)
                b = self.flow(self.x0, tt, rtol=1e-12)
                self._acc = max(float(np.max(np.abs(a - b))), 1e-13 * scale)
        return self._acc

    # ---- augmented vectors
    @property
    def dim(self):
        return self.n + self.params.size + 2

    def augment(self, x):
        return np.concatenate([np.asarray(x, dtype=float), self.params, [float(self.n), float(self.code)]])

    @property
    def y0(self):
        return self.augment(self.x0)

    def key(self):
        return [self.family, self.n, self.t0, self.x0.tolist(), self.params.tolist()]

    def sibling(self, rng):
        """A fresh random instance of the same kind (same generator and options, other parameters / initial state)."""
        fn, kw = self._maker
        return fn(rng, **kw)

    def rescaled(self, c):
        """The same problem in the time unit tau = t / c (all rates multiplied by c, span divided by c).

        x(tau) solves dx/dtau = c f(c tau, x): the solution *values* are unchanged, so an integrator whose step-size
        control is dimensionally consistent returns the same states and the same errors.  Closed-form families only."""
        c = float(c)
        n, q = self.n, self.params.copy()
        x0 = self.x0.copy()
        aux = dict(self.aux)
        if self.code == LINROT:
            q[:n * n] *= c
            q[n * n] *= c            # d
            q[n * n + 2] *= c        # w
            aux["omega"] = aux["omega"] * c
        elif self.code == FORCED:
            q[:n * n] *= c
            q[n * n] *= c
            i = n * n + 1
            q[i + n:i + 2 * n] *= c          # nu
            q[i + 3 * n:i + 4 * n] *= c      # beta
            aux["omega"] = aux["omega"] * c
        elif self.code == KEPLER:
            q[0] *= c * c
            x0[2:] *= c
        elif self.code == LOGISTIC:
            q[0] *= c
            q[2] *= c
        elif self.code == POLYT:
            cc = q.reshape(n, 4)
            for k in range(4):
                cc[:, k] *= c ** (k + 1)
            q = cc.ravel()
        else:
            raise ValueError("rescaled() is implemented for the closed-form families only")
        P = Problem(self.code, x0, q, self.t0 / c, self.T / c, self.rate * c, aux, f"{self.label}@x{c:g}")
        return P

    def describe(self):
        return {"family": self.family, "label": self.label, "n": self.n, "t0": self.t0, "T": self.T, "x0": self.x0,
                "params": self.params, "rate": self.rate}

    # ---- reference flow
    def flow(self, x0, t_eval, rtol=1e-13):
        """Reference solution from x(t0)=x0 at the (ascending, >= t0) times t_eval -> array (len, n)."""
        t_eval = np.atleast_1d(np.asarray(t_eval, dtype=float))
        x0 = np.asarray(x0, dtype=float)
        if self.closed_form:
            return _CLOSED[self.code](self, x0, t_eval)
        sol = self._scipy_dense(x0, float(np.max(t_eval)), rtol)
        return sol(t_eval).T.copy()

    def exact(self, t_eval):
        return self.flow(self.x0, t_eval)

    def _scipy_dense(self, x0, t_end, rtol):
        k = (x0.tobytes(), rtol)
        hit = self._dense.get(k)
        if hit is not None and hit[0] >= t_end:
            return hit[1]
        f = numba_rhs()
        tail = np.concatenate([self.params, [float(self.n), float(self.code)]])
        n = self.n
        buf = np.empty(n + tail.size)
        buf[n:] = tail

        def fun(t, x):
            buf[:n] = x
            return f(float(t), buf)[:n]
        t_end = max(t_end, self.t0 + self.T)
        sol = solve_ivp(fun, (self.t0, t_end), x0, method="DOP853", rtol=rtol, atol=rtol, dense_output=True,
                        max_step=0.5 / max(self.rate, 1e-3) * 2 * np.pi / 8)
        if not sol.success:
            raise RuntimeError("reference flow failed: " + str(sol.message))
        self._dense[k] = (t_end, sol.sol)
        return sol.sol

    def kappa(self, t_end=None, npts=49, delta=1e-6):
        """Sensitivity of the reference flow over [t0, t_end]:  max_{s <= t} || d phi_{s->t} / dx ||_2.

        An error committed at time s is carried to time t by Phi(t) Phi(s)^-1, which can be much larger than
        ||Phi(t)|| itself (for area-preserving flows up to ||Phi||^2).  Phi is obtained by finite differences of
        the reference flow on ``npts`` sample times."""
        t_end = self.t0 + self.T if t_end is None else float(t_end)
        tt = np.linspace(self.t0, t_end, npts)
        base = self.flow(self.x0, tt, rtol=1e-11)
        cols = []
        for i in range(self.n):
            xp = self.x0.copy()
            xp[i] += delta
            cols.append((self.flow(xp, tt, rtol=1e-11) - base) / delta)
        J = np.stack(cols, axis=2)          # (npts, n, n)
        return two_time_sensitivity(J)


def two_time_sensitivity(J):
    """max_{i <= j} || J_j J_i^-1 ||_2 for a sequence of fundamental matrices J_k = Phi(t_k) (J_0 = identity)."""
    J = np.asarray(J, dtype=float)
    best = 1.0
    for i in range(J.shape[0]):
        try:
            inv = np.linalg.inv(J[i])
        except np.linalg.LinAlgError:
            continue
        if not np.all(np.isfinite(inv)) or np.linalg.cond(J[i]) > 1e7:
            continue
        M = J[i:] @ inv
        best = max(best, float(np.max(np.linalg.norm(M, ord=2, axis=(1, 2)))))
    return best


# ------------------------------------------------------------------------------------- closed forms (longdouble)
def _rot_apply(aux, sigma, v, damp):
    """exp((S - d I) sigma) v  for S = Q blockdiag(om_k J) Q^T, evaluated in longdouble; sigma array (m,)."""
    Q = aux["Q"].astype(LD)
    om = aux["omega"].astype(LD)
    n = Q.shape[0]
    w = Q.T @ v.astype(LD)                     # (n,)
    sigma = np.asarray(sigma, dtype=LD)
    out = np.empty((sigma.size, n), dtype=LD)
    z = np.empty((sigma.size, n), dtype=LD)
    for k in range(om.size):
        c, s = np.cos(om[k] * sigma), np.sin(om[k] * sigma)
        z[:, 2 * k] = c * w[2 * k] + s * w[2 * k + 1]
        z[:, 2 * k + 1] = -s * w[2 * k] + c * w[2 * k + 1]
    if n % 2:
        z[:, n - 1] = w[n - 1]
    out = z @ Q.T
    return out * np.exp(-LD(damp) * sigma)[:, None]


def _linrot_exact(P, x0, t):
    n = P.n
    d, a, w, ph = (LD(v) for v in P.params[n * n:n * n + 4])
    t = t.astype(LD)
    t0 = LD(P.t0)
    if a != 0:
        sigma = (t - t0) + a / w * (np.sin(w * t + ph) - np.sin(w * t0 + ph))
    else:
        sigma = t - t0
    return _rot_apply(P.aux, sigma, x0, d).astype(float)


def _forced_g(P, t):
    n = P.n
    q = n * n + 1
    al, nu, ph, be = (P.params[q + k * n:q + (k + 1) * n].astype(LD) for k in range(4))
    t = np.asarray(t, dtype=LD).reshape(-1, 1)
    return al * np.sin(nu * t + ph) + be * t


def _forced_exact(P, x0, t):
    d = P.params[P.n * P.n]
    g = _forced_g(P, t)
    g0 = _forced_g(P, [P.t0])[0]
    hom = _rot_apply(P.aux, t.astype(LD) - LD(P.t0), x0.astype(LD) - g0, d)
    return (g + hom).astype(float)


def _kepler_exact(P, x0, t):
    mu = LD(P.params[0])
    x, y, vx, vy = (LD(v) for v in x0)
    r = np.sqrt(x * x + y * y)
    v2 = vx * vx + vy * vy
    a = 1 / (2 / r - v2 / mu)
    h = x * vy - y * vx
    ex = (vy * h) / mu - x / r
    ey = (-vx * h) / mu - y / r
    e = np.sqrt(ex * ex + ey * ey)
    if not (a > 0 and e < 1):
        raise ValueError("kepler reference needs an elliptic orbit")
    argp = np.arctan2(ey, ex)
    sgn = LD(1.0) if h > 0 else LD(-1.0)
    nm = np.sqrt(mu / (a * a * a))
    # eccentric anomaly at t0 from position in the perifocal frame (orientation sgn)
    cw, sw = np.cos(argp), np.sin(argp)
    xp = cw * x + sw * y
    yp = (-sw * x + cw * y) * sgn
    b = a * np.sqrt(1 - e * e)
    E0 = np.arctan2(yp / b, xp / a + e)
    M0 = E0 - e * np.sin(E0)
    M = M0 + nm * (t.astype(LD) - LD(P.t0))
    E = M + e * np.sin(M)
    for _ in range(60):
        dE = (E - e * np.sin(E) - M) / (1 - e * np.cos(E))
        E = E - dE
        if np.max(np.abs(dE)) < 1e-19:
            break
    cE, sE = np.cos(E), np.sin(E)
    X = a * (cE - e)
    Y = b * sE * sgn
    den = 1 - e * cE
    VX = -a * nm * sE / den
    VY = b * nm * cE / den * sgn
    out = np.stack([cw * X - sw * Y, sw * X + cw * Y, cw * VX - sw * VY, sw * VX + cw * VY], axis=1)
    return out.astype(float)


def _logistic_exact(P, x0, t):
    r, a, w, ph = (LD(v) for v in P.params[:4])
    t = t.astype(LD)
    t0 = LD(P.t0)
    Lam = r * ((t - t0) + (a / w * (np.sin(w * t + ph) - np.sin(w * t0 + ph)) if a != 0 else 0))
    y0 = LD(x0[0])
    return (1 / (1 + (1 / y0 - 1) * np.exp(-Lam))).astype(float).reshape(-1, 1)


def _polyt_exact(P, x0, t):
    c = P.params.reshape(P.n, 4).astype(LD)
    t = t.astype(LD).reshape(-1, 1)
    t0 = LD(P.t0)

    def prim(s):
        return s * (c[:, 0] + s * (c[:, 1] / 2 + s * (c[:, 2] / 3 + s * c[:, 3] / 4)))
    return (x0.astype(LD) + prim(t) - prim(t0)).astype(float)


_CLOSED = {LINROT: _linrot_exact, FORCED: _forced_exact, KEPLER: _kepler_exact, LOGISTIC: _logistic_exact,
           POLYT: _polyt_exact}


# ===================================================================================== generators
def _skew(rng, n, wmin, wmax):
    """Random skew matrix S = Q blockdiag(om_k J) Q^T with J = [[0,1],[-1,0]] (float64 rounding of longdouble product)."""
    Q, R = np.linalg.qr(rng.normal(size=(n, n)))
    Q = Q * np.sign(np.diag(R))
    om = rng.uniform(wmin, wmax, n // 2)
    B = np.zeros((n, n), dtype=LD)
    for k in range(n // 2):
        B[2 * k, 2 * k + 1] = om[k]
        B[2 * k + 1, 2 * k] = -om[k]
    S = (Q.astype(LD) @ B @ Q.T.astype(LD)).astype(float)
    return S, {"Q": Q, "omega": om}


def make_linrot(rng, n=2, time_dependent=False, damped=False, t0=0.0, periods=3.0):
    S, aux = _skew(rng, n, 0.6, 1.6)
    d = float(rng.uniform(0.05, 0.3)) if damped else 0.0
    if time_dependent:
        a, w, ph = float(rng.uniform(0.3, 0.7)), float(rng.uniform(0.7, 1.9)), float(rng.uniform(0, 2 * np.pi))
    else:
        a, w, ph = 0.0, 1.0, 0.0
    x0 = rng.normal(size=n)
    x0 /= max(np.linalg.norm(x0), 0.3)
    wmax = float(np.max(aux["omega"])) if n > 1 else 0.0
    rate = max(wmax * (1 + abs(a)) + d, w if time_dependent else 0.0, 0.5)
    params = np.concatenate([S.ravel(), [d, a, w, ph]])
    lab = f"linrot{n}" + ("_t" if time_dependent else "") + ("_damped" if damped else "")
    return Problem(LINROT, x0, params, t0, periods * 2 * np.pi / rate, rate, aux, lab)


def make_forced(rng, n=1, t0=0.0, periods=3.0):
    if n == 1:
        S, aux = np.zeros((1, 1)), {"Q": np.eye(1), "omega": np.zeros(0)}
    else:
        S, aux = _skew(rng, n, 0.5, 1.5)
    d = float(rng.uniform(0.2, 1.0))
    al = rng.uniform(0.3, 1.0, n)
    nu = rng.uniform(0.6, 1.8, n)
    ph = rng.uniform(0, 2 * np.pi, n)
    be = rng.uniform(-0.2, 0.2, n)
    x0 = rng.normal(size=n) * 0.7
    rate = max(float(np.max(nu)), (float(np.max(aux["omega"])) if n > 1 else 0.0) + d)
    params = np.concatenate([S.ravel(), [d], al, nu, ph, be])
    return Problem(FORCED, x0, params, t0, periods * 2 * np.pi / rate, rate, aux, f"forced{n}")


def make_pendulum(rng, forced=False, t0=0.0, periods=3.0):
    k = float(rng.uniform(0.7, 1.5))
    if forced:
        c, F, w = float(rng.uniform(0.05, 0.3)), float(rng.uniform(0.2, 0.6)), float(rng.uniform(0.5, 1.3))
    else:
        c, F, w = 0.0, 0.0, 1.0
    x0 = np.array([rng.uniform(0.5, 2.2) * rng.choice([-1, 1]), rng.uniform(-0.5, 0.5)])
    rate = max(np.sqrt(k), w if forced else 0.0)
    return Problem(PENDULUM, x0, [k, c, F, w], t0, periods * 2 * np.pi / rate, rate, None,
                   "pendulum_forced" if forced else "pendulum")


def make_kepler(rng, e=None, t0=0.0, periods=1.5):
    e = float(rng.uniform(0.05, 0.6)) if e is None else float(e)
    mu = float(rng.uniform(0.7, 1.4))
    a = float(rng.uniform(0.8, 1.3))
    nu0 = float(rng.uniform(0, 2 * np.pi))          # true anomaly at t0
    argp = float(rng.uniform(0, 2 * np.pi))
    sgn = float(rng.choice([-1, 1]))
    pp = a * (1 - e * e)
    r = pp / (1 + e * np.cos(nu0))
    hh = np.sqrt(mu * pp)
    xp, yp = r * np.cos(nu0), r * np.sin(nu0) * sgn
    vxp, vyp = -mu / hh * np.sin(nu0), mu / hh * (e + np.cos(nu0)) * sgn
    cw, sw = np.cos(argp), np.sin(argp)
    x0 = np.array([cw * xp - sw * yp, sw * xp + cw * yp, cw * vxp - sw * vyp, sw * vxp + cw * vyp])
    nm = np.sqrt(mu / a ** 3)
    rate = nm * np.sqrt(1 + e) / (1 - e) ** 1.5       # angular rate at pericentre
    return Problem(KEPLER, x0, [mu], t0, periods * 2 * np.pi / nm, rate, {"e": e, "a": a}, f"kepler_e{e:.2f}")


def make_lotka(rng, t0=0.0, periods=2.0):
    a, b, c, d = rng.uniform(0.6, 1.4, 4)
    x0 = rng.uniform(0.6, 1.8, 2)
    rate = 1.6 * np.sqrt(a * c)
    return Problem(LOTKA, x0, [a, b, c, d], t0, periods * 2 * np.pi / np.sqrt(a * c), rate, None, "lotka")


def make_duffing(rng, t0=0.0, periods=3.0):
    de, al, be = float(rng.uniform(0.05, 0.3)), float(rng.uniform(0.6, 1.2)), float(rng.uniform(0.2, 0.8))
    ga, w = float(rng.uniform(0.2, 0.6)), float(rng.uniform(0.6, 1.4))
    x0 = np.array([rng.uniform(-1.2, 1.2), rng.uniform(-0.8, 0.8)])
    rate = max(np.sqrt(al + 3 * be * 1.5 ** 2), w)
    return Problem(DUFFING, x0, [de, al, be, ga, w], t0, periods * 2 * np.pi / rate, rate, None, "duffing")


def make_randfield(rng, n=3, K=3, t0=0.0, span=6.0):
    Amp = rng.normal(size=(n, K)) * 0.6
    W = rng.normal(size=(K, n)) * 0.8
    nu = rng.uniform(0.5, 1.6, K) * rng.choice([-1, 1], K)
    ph = rng.uniform(0, 2 * np.pi, K)
    x0 = rng.normal(size=n) * 0.8
    rate = max(float(np.linalg.norm(Amp, 2) * np.linalg.norm(W, 2)), float(np.max(np.abs(nu))))
    params = np.concatenate([[float(K)], Amp.ravel(), W.ravel(), nu, ph])
    return Problem(RANDFIELD, x0, params, t0, span, rate, None, f"randfield{n}x{K}")


def make_logistic(rng, t0=0.0, span=None):
    r, a, w = float(rng.uniform(0.6, 1.2)), float(rng.uniform(0.3, 0.8)), float(rng.uniform(0.8, 2.0))
    ph = float(rng.uniform(0, 2 * np.pi))
    x0 = np.array([rng.uniform(0.05, 0.4)])
    rate = max(r * (1 + a), w)
    return Problem(LOGISTIC, x0, [r, a, w, ph], t0, span or 6.0 / r, rate, None, "logistic")


def make_polyt(rng, n=2, t0=0.0, span=3.0):
    c = rng.normal(size=(n, 4))
    return Problem(POLYT, rng.normal(size=n), c.ravel(), t0, span, 1.0, None, f"polyt{n}")


def _remember(fn):
    """Problems remember how they were made, so that ``P.sibling(rng)`` draws a fresh instance of the same kind."""
    import functools

    @functools.wraps(fn)
    def wrapper(rng, **kw):
        P = fn(rng, **kw)
        P._maker = (wrapper, dict(kw))
        return P
    return wrapper


make_linrot, make_forced, make_pendulum, make_kepler, make_lotka, make_duffing, make_randfield, make_logistic, make_polyt = (
    _remember(f) for f in (make_linrot, make_forced, make_pendulum, make_kepler, make_lotka, make_duffing, make_randfield,
                           make_logistic, make_polyt))


def catalogue(rng, t0_random=True):
    """13 problem instances covering every family (the polynomial-Hamiltonian family lives with its monitor)."""
    def t0():
        return float(np.round(rng.uniform(-2, 3), 3)) if t0_random else 0.0
    return [
        make_linrot(rng, n=2, t0=0.0),
        make_linrot(rng, n=5, time_dependent=True, t0=t0()),
        make_linrot(rng, n=4, damped=True, t0=t0()),
        make_forced(rng, n=1, t0=t0()),
        make_forced(rng, n=3, t0=t0()),
        make_pendulum(rng, forced=False, t0=0.0),
        make_pendulum(rng, forced=True, t0=t0()),
        make_kepler(rng, e=float(rng.uniform(0.1, 0.35)), t0=t0()),
        make_kepler(rng, e=float(rng.uniform(0.45, 0.6)), t0=0.0),
        make_lotka(rng, t0=t0()),
        make_duffing(rng, t0=t0()),
        make_randfield(rng, n=3, K=3, t0=t0()),
        make_logistic(rng, t0=t0()),
    ]


# ===================================================================================== self-test
def selftest(verbose=True, seed=0):
    import mpmath
    ok = True

    def expect(cond, msg):
        nonlocal ok
        if verbose or not cond:
            print(("ok   " if cond else "FAIL ") + msg)
        ok = ok and bool(cond)

    rng = np.random.default_rng(seed)
    f = numba_rhs()
    probs = catalogue(rng) + [make_polyt(rng)]
    expect(np.finfo(LD).eps < 1e-18, f"numpy.longdouble is extended precision (eps={float(np.finfo(LD).eps):.2e})")
    for P in probs:
        y0 = P.y0
        # (1) compiled float64 and uncompiled longdouble evaluations of the same source agree; constants have zero derivative
        t = P.t0 + 0.37
        a = f(float(t), y0)
        b = rhs_longdouble(t, y0)
        expect(np.max(np.abs(a - b.astype(float))) <= 1e-14 * (1 + np.max(np.abs(a))) and np.all(a[P.n:] == 0),
               f"{P.label}: numba float64 == longdouble evaluation, parameters constant")
        # (2) the reference satisfies the ODE: central difference of the reference vs f(t, ref)
        tt = P.t0 + np.array([0.2, 0.5, 0.9]) * P.T
        hh = 1e-3 / P.rate
        worst = 0.0
        for tq in tt:
            xm2, xm, x, xp, xp2 = P.exact(np.array([tq - 2 * hh, tq - hh, tq, tq + hh, tq + 2 * hh]))
            der = (-xp2 + 8 * xp - 8 * xm + xm2) / (12 * hh)
            rhs = f(float(tq), P.augment(x))[:P.n]
            worst = max(worst, float(np.max(np.abs(der - rhs)) / (1 + np.max(np.abs(rhs)))))
        expect(worst < 2e-9, f"{P.label}: reference satisfies x' = f(t,x)  (finite-difference residual {worst:.1e})")
        expect(np.max(np.abs(P.exact(np.array([P.t0]))[0] - P.x0)) <= 1e-15 * (1 + np.max(np.abs(P.x0))),
               f"{P.label}: reference starts at x0")
        # (3) closed forms against SciPy at 1e-13 (and thereby SciPy dense output against closed forms)
        if P.closed_form:
            tq = np.linspace(P.t0, P.t0 + P.T, 41)
            ex = P.exact(tq)
            P.closed_form = False
            try:
                num = P.flow(P.x0, tq)
            finally:
                P.closed_form = True
            err = float(np.max(np.abs(ex - num)))
            expect(err < 3e-12 * (1 + np.max(np.abs(ex))) * max(1.0, P.rate * P.T / 10),
                   f"{P.label}: closed form == SciPy DOP853(1e-13) dense output (max diff {err:.1e})")
        else:
            tq = np.linspace(P.t0, P.t0 + P.T, 41)
            a13 = P.flow(P.x0, tq, rtol=1e-13)
            a12 = P.flow(P.x0, tq, rtol=3e-12)
            err = float(np.max(np.abs(a13 - a12)))
            expect(err < 1e-10, f"{P.label}: SciPy reference self-consistent 1e-13 vs 3e-12 (diff {err:.1e}, accuracy() {P.accuracy():.1e})")
        kap = P.kappa()
        expect(1.0 <= kap < 1e4, f"{P.label}: kappa = {kap:.2f}")
    # (3b) time-rescaled twins have the same solution values and still satisfy their ODE
    for P in probs:
        if not P.closed_form:
            continue
        for c in (1e-2, 1e3):
            R = P.rescaled(c)
            tq = np.linspace(P.t0, P.t0 + P.T, 17)
            a, b = P.exact(tq), R.exact(tq / c)
            if P.code == KEPLER:
                b = b.copy()
                b[:, 2:] /= c
            d = float(np.max(np.abs(a - b)))
            tm = R.t0 + 0.4 * R.T
            hh = 1e-3 / R.rate
            xm2, xm, x, xp, xp2 = R.exact(np.array([tm - 2 * hh, tm - hh, tm, tm + hh, tm + 2 * hh]))
            der = (-xp2 + 8 * xp - 8 * xm + xm2) / (12 * hh)
            rhs = f(float(tm), R.augment(x))[:R.n]
            res = float(np.max(np.abs(der - rhs)) / (1 + np.max(np.abs(rhs))))
            expect(d < 1e-12 * (1 + np.max(np.abs(a))) * max(1.0, P.rate * P.T) and res < 2e-9,
                   f"{P.label}: time unit x{c:g}: same solution values ({d:.1e}), ODE residual {res:.1e}")
    # (4) linear closed form against mpmath expm on the float64 matrix actually carried in the parameters
    mp = mpmath.MPContext()
    mp.dps = 30
    P = probs[2]
    n = P.n
    S = mp.matrix(P.params[:n * n].reshape(n, n).tolist()) - mp.mpf(P.params[n * n]) * mp.eye(n)
    tq = P.t0 + 0.8 * P.T
    ref = mp.expm(S * mp.mpf(tq - P.t0)) * mp.matrix(P.x0.tolist())
    err = max(abs(float(ref[i]) - P.exact(np.array([tq]))[0][i]) for i in range(n))
    expect(err < 1e-14, f"{P.label}: longdouble closed form == mpmath expm of the float64 matrix ({err:.1e})")
    return ok


if __name__ == "__main__":
    import sys
    sys.exit(0 if selftest() else 1)
