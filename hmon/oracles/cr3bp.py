"""Independent CR3BP reference derived symbolically from the effective potential.

Omega = 1/2 (x^2+y^2) + (1-mu)/r1 + mu/r2 ,  r1 = |(x+mu, y, z)| , r2 = |(x-1+mu, y, z)|
x'' - 2 y' = Omega_x ; y'' + 2 x' = Omega_y ; z'' = Omega_z
E = 1/2 |v|^2 - Omega ,  C = -2 E
Nothing here imports hiten.
"""
from __future__ import annotations

import functools

import numpy as np
import sympy as sp
from scipy.integrate import solve_ivp

_x, _y, _z, _vx, _vy, _vz, _mu = sp.symbols("x y z vx vy vz mu", real=True)
_S = (_x, _y, _z, _vx, _vy, _vz)


@functools.lru_cache(None)
def _build():
    r1 = sp.sqrt((_x + _mu) ** 2 + _y ** 2 + _z ** 2)
    r2 = sp.sqrt((_x - 1 + _mu) ** 2 + _y ** 2 + _z ** 2)
    Om = sp.Rational(1, 2) * (_x ** 2 + _y ** 2) + (1 - _mu) / r1 + _mu / r2
    f = sp.Matrix([_vx, _vy, _vz,
                   2 * _vy + sp.diff(Om, _x),
                   -2 * _vx + sp.diff(Om, _y),
                   sp.diff(Om, _z)])
    F = f.jacobian(sp.Matrix(_S))
    E = sp.Rational(1, 2) * (_vx ** 2 + _vy ** 2 + _vz ** 2) - Om
    gradE = sp.Matrix([sp.diff(E, s) for s in _S])
    args = (*_S, _mu)
    lam = lambda e: sp.lambdify(args, e, modules="numpy", cse=True)
    return {"f": lam(f), "F": lam(F), "E": lam(E), "Om": lam(Om), "gradE": lam(gradE),
            "sym": {"f": f, "F": F, "E": E, "Om": Om}}


def field(y, mu):
    return np.asarray(_build()["f"](*[float(v) for v in y[:6]], float(mu)), dtype=float).reshape(6)


def jac(y, mu):
    return np.asarray(_build()["F"](*[float(v) for v in y[:6]], float(mu)), dtype=float).reshape(6, 6)


def energy(y, mu):
    return float(_build()["E"](*[float(v) for v in y[:6]], float(mu)))


def grad_energy(y, mu):
    return np.asarray(_build()["gradE"](*[float(v) for v in y[:6]], float(mu)), dtype=float).reshape(6)


def omega(y, mu):
    return float(_build()["Om"](*[float(v) for v in y[:6]], float(mu)))


def energy_many(states, mu):
    s = np.asarray(states, dtype=float)
    return np.asarray(_build()["E"](s[:, 0], s[:, 1], s[:, 2], s[:, 3], s[:, 4], s[:, 5], float(mu)), dtype=float)


def jacobi(y, mu):
    return -2.0 * energy(y, mu)


def var_field(Y, mu):
    """42-D variational field in the library's layout: first 36 = Phi (row major), last 6 = state."""
    Y = np.asarray(Y, dtype=float)
    Phi = Y[:36].reshape(6, 6)
    x = Y[36:42]
    out = np.empty(42)
    out[:36] = (jac(x, mu) @ Phi).ravel()
    out[36:] = field(x, mu)
    return out


def mp_field(y, mu, dps=40):
    """High precision evaluation of the field (self-check of the float64 oracle)."""
    import mpmath as mpm
    mpm.mp.dps = dps
    f = _build()["sym"]["f"]
    sub = {s: mpm.mpf(float(v)) for s, v in zip(_S, y)}
    sub[_mu] = mpm.mpf(float(mu))
    return [mpm.mpf(sp.N(e.subs(sub), dps)) for e in f]


def dists(y, mu):
    r1 = np.sqrt((y[0] + mu) ** 2 + y[1] ** 2 + y[2] ** 2)
    r2 = np.sqrt((y[0] - 1 + mu) ** 2 + y[1] ** 2 + y[2] ** 2)
    return r1, r2


# ---------------------------------------------------------------- reference flows
def flow(y0, mu, t_eval, rtol=1e-13, atol=1e-13, max_step=np.inf):
    """Reference flow at (signed) times t_eval (monotone, starting anywhere; t0 = 0)."""
    t_eval = np.atleast_1d(np.asarray(t_eval, dtype=float))
    tf = t_eval[-1]
    sol = solve_ivp(lambda t, y: field(y, mu), (0.0, tf), np.asarray(y0, dtype=float)[:6], method="DOP853",
                    rtol=rtol, atol=atol, t_eval=t_eval if t_eval.size > 1 or t_eval[0] != 0 else None,
                    max_step=max_step)
    if not sol.success:
        raise RuntimeError("reference flow failed: " + str(sol.message))
    return sol.y.T


def flow_stm(y0, mu, tf, rtol=1e-13, atol=1e-13, t_eval=None):
    """Reference state + STM at signed time tf (and optionally at t_eval)."""
    Y0 = np.concatenate([np.eye(6).ravel(), np.asarray(y0, dtype=float)[:6]])
    sol = solve_ivp(lambda t, Y: var_field(Y, mu), (0.0, tf), Y0, method="DOP853", rtol=rtol, atol=atol,
                    t_eval=t_eval)
    if not sol.success:
        raise RuntimeError("reference STM flow failed: " + str(sol.message))
    if t_eval is None:
        Y = sol.y[:, -1]
        return Y[36:].copy(), Y[:36].reshape(6, 6).copy()
    return sol.y[36:].T.copy(), sol.y[:36].T.reshape(-1, 6, 6).copy()


J6 = np.block([[np.zeros((3, 3)), np.eye(3)], [-np.eye(3), np.zeros((3, 3))]])


def vel_to_mom():
    """T with (q,p) = T (x,v): px = vx - y, py = vy + x, pz = vz."""
    T = np.eye(6)
    T[3, 1] = -1.0
    T[4, 0] = 1.0
    return T


# ---------------------------------------------------------------- equilibria (independent root finder)
def collinear_points(mu):
    """x-coordinates of L1, L2, L3 by bracketing dOmega/dx on the axis with mpmath (50 digits)."""
    import mpmath as mpm
    mpm.mp.dps = 50
    m = mpm.mpf(mu)

    def g(x):
        return x - (1 - m) * (x + m) / abs(x + m) ** 3 - m * (x - 1 + m) / abs(x - 1 + m) ** 3

    out = []
    eps = mpm.mpf(10) ** -7
    for (a, b) in ((-m + eps, 1 - m - eps), (1 - m + eps, mpm.mpf(2)), (mpm.mpf(-2), -m - eps)):
        # g is monotone on each of the three axis intervals and changes sign: bracketing solver
        r = mpm.findroot(g, (a, b), solver="anderson", tol=1e-45, maxsteps=2000)
        if not (a < r < b):
            raise RuntimeError("reference collinear root left its bracket")
        out.append(r)
    return [float(v) for v in out], out


def triangular_points(mu):
    return [np.array([0.5 - mu, np.sqrt(3) / 2, 0.0]), np.array([0.5 - mu, -np.sqrt(3) / 2, 0.0])]
