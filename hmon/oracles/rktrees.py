"""Rooted trees and Runge-Kutta order conditions (Butcher theory). Nothing here imports hiten.

A rooted tree is a canonical nested tuple: the leaf (single vertex) is ``()``, a tree with root r and
sub-trees t1..tm hanging from r is ``tuple(sorted((t1, ..., tm)))``.

    order  |t|      = 1 + sum |t_k|
    density gamma(t) = |t| * prod gamma(t_k)
    elementary weight (stage vector) Phi(leaf)_i = 1 ,  Phi(t)_i = prod_k ( sum_j a_ij Phi(t_k)_j )

An s-stage method (A, b) has order p  iff  sum_i b_i Phi(t)_i = 1/gamma(t) for every tree with |t| <= p.
Non-autonomous problems additionally need the row-sum condition c_i = sum_j a_ij (trees never reference c).
A continuous extension b_i(theta) has (uniform) order q iff sum_i b_i(theta) Phi(t)_i = theta^|t| / gamma(t)
for every tree with |t| <= q.

All routines are generic in the number type (fractions.Fraction for exact statements about literature
tableaux, mpmath 40-digit floats for statements about float64 tables as loaded by a program).

Self-test:  python -m hmon.oracles.rktrees
"""
from __future__ import annotations

import functools
import itertools
from fractions import Fraction

import mpmath

TREE_COUNTS = (1, 1, 2, 4, 9, 20, 48, 115, 286, 719)   # OEIS A000081, orders 1..10

MP = mpmath.MPContext()      # private context: the global mpmath precision is never touched
MP.dps = 40


# ------------------------------------------------------------------------------------ trees
@functools.lru_cache(None)
def trees(n: int):
    """All rooted trees with n vertices (canonical nested tuples), deterministic order."""
    if n < 1:
        return ()
    if n == 1:
        return ((),)
    out = set()
    # a tree of order n = root + multiset of sub-trees with total order n-1
    for part in _partitions(n - 1):
        pools = [trees(k) for k in part]
        for combo in itertools.product(*pools):
            out.add(tuple(sorted(combo)))
    return tuple(sorted(out, key=lambda t: (height(t), t)))


def _partitions(n, maximum=None):
    """Integer partitions of n as non-increasing tuples."""
    if maximum is None or maximum > n:
        maximum = n
    if n == 0:
        yield ()
        return
    for k in range(maximum, 0, -1):
        for rest in _partitions(n - k, k):
            yield (k,) + rest


def trees_upto(p: int):
    return [t for n in range(1, p + 1) for t in trees(n)]


@functools.lru_cache(None)
def order(t) -> int:
    return 1 + sum(order(c) for c in t)


@functools.lru_cache(None)
def gamma(t) -> int:
    g = order(t)
    for c in t:
        g *= gamma(c)
    return g


@functools.lru_cache(None)
def sigma(t) -> int:
    """Symmetry coefficient (order of the automorphism group)."""
    s = 1
    for c in set(t):
        m = t.count(c)
        s *= _fact(m) * sigma(c) ** m
    return s


@functools.lru_cache(None)
def height(t) -> int:
    return 1 + max((height(c) for c in t), default=0)


def _fact(m):
    f = 1
    for i in range(2, m + 1):
        f *= i
    return f


def tree_str(t) -> str:
    """Bracket notation: leaf = 'o', [t1 t2 ...] = root with those sub-trees."""
    if not t:
        return "o"
    return "[" + "".join(tree_str(c) for c in t) + "]"


# ------------------------------------------------------------------------------------ elementary weights
class Weights:
    """Elementary-weight stage vectors Phi(t) of a coefficient matrix A, memoised per tree.

    ``A`` is a list of rows of numbers of one type (Fraction / mpf); it need not be strictly lower triangular.
    """

    def __init__(self, A, one=None):
        self.A = [list(r) for r in A]
        self.s = len(self.A)
        for r in self.A:
            if len(r) != self.s:
                raise ValueError("A must be square")
        self.one = one if one is not None else (self.A[0][0] * 0 + 1)
        self.zero = self.one * 0
        self._phi = {}
        self._u = {}
        # sparsity pattern: large explicit tableaux have many structural zeros
        self._nz = [[j for j, a in enumerate(r) if a != 0] for r in self.A]

    def phi(self, t):
        v = self._phi.get(t)
        if v is None:
            v = [self.one] * self.s
            for c in t:
                u = self.u(c)
                v = [a * b for a, b in zip(v, u)]
            self._phi[t] = v
        return v

    def u(self, t):
        """(A Phi(t))_i — the factor a sub-tree contributes to its parent."""
        v = self._u.get(t)
        if v is None:
            ph = self.phi(t)
            v = []
            for i in range(self.s):
                acc = self.zero
                row = self.A[i]
                for j in self._nz[i]:
                    acc = acc + row[j] * ph[j]
                v.append(acc)
            self._u[t] = v
        return v

    def weight(self, b, t):
        """sum_i b_i Phi(t)_i"""
        ph = self.phi(t)
        acc = self.zero
        for bi, pi in zip(b, ph):
            if bi != 0:
                acc = acc + bi * pi
        return acc


def order_residuals(A, b, p, one=None, weights=None):
    """{order n: (max |sum b Phi(t) - 1/gamma(t)| over |t| = n, worst tree)} for n = 1..p."""
    W = weights or Weights(A, one)
    out = {}
    for n in range(1, p + 1):
        worst, wt = W.zero, None
        for t in trees(n):
            r = abs(W.weight(b, t) - W.one / gamma(t))
            if wt is None or r > worst:
                worst, wt = r, t
        out[n] = (worst, wt)
    return out


def homogeneous_residuals(A, e, p, one=None, weights=None):
    """{order n: (max |sum e_i Phi(t)_i|, worst tree)}: e = difference of two weight vectors of order >= p."""
    W = weights or Weights(A, one)
    out = {}
    for n in range(1, p + 1):
        worst, wt = W.zero, None
        for t in trees(n):
            r = abs(W.weight(e, t))
            if wt is None or r > worst:
                worst, wt = r, t
        out[n] = (worst, wt)
    return out


def continuous_residuals(A, b_theta, theta, q, one=None, weights=None):
    """{order n: (max |sum b_i(theta) Phi(t)_i - theta^n / gamma(t)|, worst tree)}, n = 1..q, at one theta."""
    W = weights or Weights(A, one)
    out = {}
    for n in range(1, q + 1):
        worst, wt = W.zero, None
        for t in trees(n):
            r = abs(W.weight(b_theta, t) - theta ** n / gamma(t))
            if wt is None or r > worst:
                worst, wt = r, t
        out[n] = (worst, wt)
    return out


def row_sum_residual(A, c):
    """max_i |c_i - sum_j a_ij|"""
    worst = None
    for row, ci in zip(A, c):
        acc = ci * 0
        for a in row:
            acc = acc + a
        r = abs(ci - acc)
        if worst is None or r > worst:
            worst = r
    return worst


def attained_order(A, b, pmax, tol, one=None):
    """Largest p <= pmax with every residual of order <= p at most tol."""
    res = order_residuals(A, b, pmax, one)
    p = 0
    for n in range(1, pmax + 1):
        if res[n][0] <= tol:
            p = n
        else:
            break
    return p, res


# ------------------------------------------------------------------------------------ conversions
def mp_matrix(a):
    """Exact conversion of a float64 2-D array to rows of 40-digit mpf (a float is a dyadic rational)."""
    return [[MP.mpf(float(x)) for x in row] for row in a]


def mp_vector(v):
    return [MP.mpf(float(x)) for x in v]


def frac_matrix(rows):
    return [[Fraction(x) for x in row] for row in rows]


def frac_vector(v):
    return [Fraction(x) for x in v]


def extend_fsal(A, b):
    """(s+1)-stage matrix whose last row is b (first-same-as-last stage: k_{s+1} = f(t+h, y_new))."""
    s = len(A)
    zero = A[0][0] * 0
    out = [list(r) + [zero] for r in A]
    out.append(list(b) + [zero])
    if any(len(r) != s + 1 for r in out):
        raise ValueError("shape mismatch in extend_fsal")
    return out


# ------------------------------------------------------------------------------------ literature tableaux
def F(n, d=1):
    return Fraction(n, d)


def classical_rk4():
    A = [[0, 0, 0, 0], [F(1, 2), 0, 0, 0], [0, F(1, 2), 0, 0], [0, 0, 1, 0]]
    b = [F(1, 6), F(1, 3), F(1, 3), F(1, 6)]
    c = [0, F(1, 2), F(1, 2), 1]
    return frac_matrix(A), frac_vector(b), frac_vector(c)


def dormand_prince_54():
    """Dormand & Prince (1980), RK5(4)7M; Hairer-Norsett-Wanner I, table II.5.2. 7 stages incl. the FSAL row."""
    A = [[0, 0, 0, 0, 0, 0, 0],
         [F(1, 5), 0, 0, 0, 0, 0, 0],
         [F(3, 40), F(9, 40), 0, 0, 0, 0, 0],
         [F(44, 45), F(-56, 15), F(32, 9), 0, 0, 0, 0],
         [F(19372, 6561), F(-25360, 2187), F(64448, 6561), F(-212, 729), 0, 0, 0],
         [F(9017, 3168), F(-355, 33), F(46732, 5247), F(49, 176), F(-5103, 18656), 0, 0],
         [F(35, 384), 0, F(500, 1113), F(125, 192), F(-2187, 6784), F(11, 84), 0]]
    b = [F(35, 384), 0, F(500, 1113), F(125, 192), F(-2187, 6784), F(11, 84), 0]
    bhat = [F(5179, 57600), 0, F(7571, 16695), F(393, 640), F(-92097, 339200), F(187, 2100), F(1, 40)]
    c = [0, F(1, 5), F(3, 10), F(4, 5), F(8, 9), 1, 1]
    return frac_matrix(A), frac_vector(b), frac_vector(c), frac_vector(bhat)


def butcher_rk6():
    """Butcher's 7-stage sixth-order method (J. C. Butcher, 'On Runge-Kutta processes of high order',
    J. Austral. Math. Soc. 4 (1964); also 'Numerical Methods for ODEs', 2nd ed., sect. 325)."""
    A = [[0, 0, 0, 0, 0, 0, 0],
         [F(1, 3), 0, 0, 0, 0, 0, 0],
         [0, F(2, 3), 0, 0, 0, 0, 0],
         [F(1, 12), F(1, 3), F(-1, 12), 0, 0, 0, 0],
         [F(-1, 16), F(9, 8), F(-3, 16), F(-3, 8), 0, 0, 0],
         [0, F(9, 8), F(-3, 8), F(-3, 4), F(1, 2), 0, 0],
         [F(9, 44), F(-9, 11), F(63, 44), F(18, 11), 0, F(-16, 11), 0]]
    b = [F(11, 120), 0, F(27, 40), F(27, 40), F(-4, 15), F(-4, 15), F(11, 120)]
    c = [0, F(1, 3), F(2, 3), F(1, 3), F(1, 2), F(1, 2), 1]
    return frac_matrix(A), frac_vector(b), frac_vector(c)


# ------------------------------------------------------------------------------------ self-test
def selftest(verbose=True):
    ok = True

    def expect(cond, msg):
        nonlocal ok
        if verbose or not cond:
            print(("ok   " if cond else "FAIL ") + msg)
        ok = ok and bool(cond)

    counts = tuple(len(trees(n)) for n in range(1, 9))
    expect(counts == TREE_COUNTS[:8], f"tree counts orders 1..8 = {counts}")
    expect(sum(counts[:6]) == 37, "37 order conditions through order 6")
    expect(sum(counts) == 200, "200 order conditions through order 8")
    # sum over trees of order n of  n! / (sigma * gamma) = number of labelled increasing trees = (n-1)!
    for n in range(1, 9):
        tot = sum(Fraction(_fact(n), sigma(t) * gamma(t)) for t in trees(n))
        expect(tot == _fact(n - 1), f"sum n!/(sigma*gamma) over order-{n} trees = (n-1)!")
    # gamma of the bushy tree [o^k] is k+1, of the tall tree is n!
    tall = ()
    for n in range(2, 8):
        tall = (tall,)
        expect(gamma(tall) == _fact(n), f"gamma(tall tree of order {n}) = {n}!")
        expect(gamma(((),) * (n - 1)) == n, f"gamma(bushy tree of order {n}) = {n}")

    A, b, c = classical_rk4()
    expect(row_sum_residual(A, c) == 0, "RK4 row sums exact")
    p, res = attained_order(A, b, 5, Fraction(0))
    expect(p == 4 and res[5][0] != 0, f"classical RK4: order exactly 4 in rationals (order-5 residual {res[5][0]})")

    A, b, c, bh = dormand_prince_54()
    expect(row_sum_residual(A, c) == 0, "DP5(4) row sums exact")
    p, res = attained_order(A, b, 6, Fraction(0))
    expect(p == 5 and res[6][0] != 0,
           f"Dormand-Prince 5(4): order exactly 5 in rationals (order-6 residual {float(res[6][0]):.3e} at {tree_str(res[6][1])})")
    p, res = attained_order(A, bh, 5, Fraction(0))
    expect(p == 4, f"Dormand-Prince embedded weights: order exactly 4 (order-5 residual {float(res[5][0]):.3e})")

    A, b, c = butcher_rk6()
    expect(row_sum_residual(A, c) == 0, "Butcher RK6 row sums exact")
    p, res = attained_order(A, b, 7, Fraction(0))
    expect(p == 6 and res[7][0] != 0,
           f"Butcher 7-stage method: all 37 conditions through order 6 exact (order-7 residual {float(res[7][0]):.3e})")

    # the same statements in mpmath on the float64 roundings: satisfied orders at rounding level, first failing order clearly not
    import numpy as np
    A, b, c, _ = dormand_prince_54()
    Af = np.array([[float(x) for x in r] for r in A])
    bf = np.array([float(x) for x in b])
    res = order_residuals(mp_matrix(Af), mp_vector(bf), 6)
    expect(max(float(res[n][0]) for n in range(1, 6)) < 1e-15 and float(res[6][0]) > 1e-5,
           f"float64 DP5 in 40-digit mpmath: orders<=5 {max(float(res[n][0]) for n in range(1, 6)):.2e}, order 6 {float(res[6][0]):.2e}")
    return ok


if __name__ == "__main__":
    import sys
    sys.exit(0 if selftest() else 1)
