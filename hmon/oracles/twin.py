"""Cache-free twin oracle for C20 (history + twin comparison).

The *real* side is a long-lived hiten domain object driven through an operation history with every memo
active.  The *twin* side replays the same history on a freshly constructed object while

* ``_CacheServiceBase.get_or_create`` is interposed: in twin mode the factory is called on every request and
  nothing is read from / written to the service cache (so objects shared by both sides are not polluted);
* the process-wide ``_HamiltonianPipelineService._pipelines`` registry is swapped for a private dict that is
  emptied before every twin step;
* the attribute memos of the twin object (``_stability_info``, ``_hamsys``, ``_corrector``, ``_generator``)
  are cleared before every twin step by the family's ``clear_twin_memos``.

Because the twin keeps no memo at all, stepping ONE twin object through o1..on yields at step k exactly what a
replay of o1..ok on a fresh object yields, so the O(n^2) replay of the design collapses to O(n); on top of that
the results of logically read-only operations are memoised by a fingerprint of the twin's logical state.

Exempt from the bypass (documented limit): the three compiled vector-field factories of a System ("dynsys",
"variational", "jacobian": each new instance re-specialises the numba integrator kernels, 5 s apiece) and
``_DirectedSystem._rhs_cache`` (same reason).  For those id()-keyed caches the monitor checks directly that a
key never denotes another object than the one it was created for, and compares flows with the SciPy oracle.

Nothing in here computes a domain quantity: the oracle is hiten's own code with the memo layer removed.
"""
from __future__ import annotations

import contextlib
from collections import Counter

import numpy as np

EXEMPT_TAGS = frozenset({"dynsys", "variational", "jacobian"})


def key_tag(key):
    """Hand-written tag of a service cache key: first str after the (frame-name, domain object) prefix."""
    if isinstance(key, tuple):
        for el in key[2:]:
            if isinstance(el, str):
                return el
        return f"<untagged:{len(key)}>"          # no hand-written tag: told apart by arity only
    return "<nontuple>"


class CacheSpy:
    """Interposes on the memo layer of hiten's service classes (installed from the harness only)."""

    def __init__(self):
        self.mode = "off"            # off | real | twin
        self.events = []             # events of the current real step: (tag, hit, key)
        self.hits = Counter()        # tag -> number of times the real cache served a memo
        self.misses = Counter()
        self.twin_factory_calls = Counter()
        self._installed = False
        self._twin_pipelines = {}

    # ------------------------------------------------------------------ install / remove
    def install(self):
        if self._installed:
            return
        from hiten.algorithms.types.services.base import _CacheServiceBase
        from hiten.algorithms.types.services.hamiltonian import _HamiltonianPipelineService
        spy = self
        self._cls = _CacheServiceBase
        self._orig = _CacheServiceBase.get_or_create
        orig = self._orig

        def get_or_create(svc, key, factory):
            tag = key_tag(key)
            if spy.mode == "twin" and tag not in EXEMPT_TAGS:
                spy.twin_factory_calls[tag] += 1
                return factory()
            if spy.mode == "real":
                hit = key in svc._cache
                spy.events.append((tag, hit, key))
                (spy.hits if hit else spy.misses)[tag] += 1
            return orig(svc, key, factory)

        _CacheServiceBase.get_or_create = get_or_create

        self._pcls = _HamiltonianPipelineService
        self._porig = _HamiltonianPipelineService.get
        porig = self._porig

        def pget(psvc, point, degree):
            if spy.mode == "real":
                hit = degree in psvc._pipelines.get(id(point), {})
                spy.events.append(("pipeline-registry", hit, ("registry", id(point), degree)))
                (spy.hits if hit else spy.misses)["pipeline-registry"] += 1
            return porig(psvc, point, degree)

        _HamiltonianPipelineService.get = pget
        self._installed = True

    def uninstall(self):
        if self._installed:
            self._cls.get_or_create = self._orig
            self._pcls.get = self._porig
            self._installed = False

    # ------------------------------------------------------------------ step contexts
    @contextlib.contextmanager
    def real_step(self):
        prev = self.mode
        self.mode = "real"
        self.events = []
        try:
            yield self.events
        finally:
            self.mode = prev

    @contextlib.contextmanager
    def twin_step(self):
        """Everything executed inside computes from scratch; the shared pipeline registry is private and empty."""
        from hiten.algorithms.types.services import get_hamiltonian_services
        psvc = get_hamiltonian_services().pipeline
        prev = self.mode
        saved = psvc._pipelines
        self._twin_pipelines = {}
        psvc._pipelines = self._twin_pipelines
        self.mode = "twin"
        try:
            yield
        finally:
            self.mode = prev
            psvc._pipelines = saved
            self._twin_pipelines = {}


# ---------------------------------------------------------------------- observations
class Exc:
    """Observed exception (compared by type name)."""

    def __init__(self, e):
        self.type = type(e).__name__
        self.msg = str(e)[:160]

    def __repr__(self):
        return f"Exc({self.type}: {self.msg})"


def capture(fn, *a):
    try:
        return fn(*a)
    except Exception as e:  # library exceptions are observations
        return Exc(e)


def compare(a, b, rtol=1e-9, path="$"):
    """Structural comparison; arrays relative to their max magnitude. Returns (ok, worst_rel, where)."""
    if isinstance(a, Exc) or isinstance(b, Exc):
        if isinstance(a, Exc) and isinstance(b, Exc):
            return (a.type == b.type), 0.0, path + ":exception-type"
        return False, float("inf"), path + ":exception-vs-value"
    if a is None or b is None:
        return (a is None and b is None), 0.0, path + ":none"
    if isinstance(a, (bool, str)) or isinstance(b, (bool, str)):
        return (type(a) is type(b) and a == b), 0.0, path
    if isinstance(a, dict) or isinstance(b, dict):
        if not (isinstance(a, dict) and isinstance(b, dict)) or set(a) != set(b):
            return False, float("inf"), path + ":keys"
        worst, where, ok = 0.0, path, True
        for k in a:
            o, w, p = compare(a[k], b[k], rtol, f"{path}.{k}")
            if w > worst or (ok and not o):
                worst, where = max(w, worst), p
            ok = ok and o
        return ok, worst, where
    if isinstance(a, (list, tuple)) and isinstance(b, (list, tuple)):
        if len(a) != len(b):
            return False, float("inf"), path + ":len"
        worst, where, ok = 0.0, path, True
        for i, (x, y) in enumerate(zip(a, b)):
            o, w, p = compare(x, y, rtol, f"{path}[{i}]")
            if w > worst or (ok and not o):
                worst, where = max(w, worst), p
            ok = ok and o
        return ok, worst, where
    try:
        x = np.asarray(a)
        y = np.asarray(b)
    except Exception:
        return False, float("inf"), path + ":type"
    if x.dtype == object or y.dtype == object:
        return False, float("inf"), path + ":object"
    if x.shape != y.shape:
        return False, float("inf"), path + f":shape{x.shape}vs{y.shape}"
    if x.size == 0:
        return True, 0.0, path
    fin = np.isfinite(x) == np.isfinite(y)
    if not np.all(fin):
        return False, float("inf"), path + ":nonfinite"
    m = np.isfinite(x)
    if not np.any(m):
        return bool(np.all((x == y) | (np.isnan(x) & np.isnan(y)))), 0.0, path
    scale = max(float(np.max(np.abs(x[m]))), float(np.max(np.abs(y[m]))))
    d = float(np.max(np.abs(x[m] - y[m])))
    if d == 0.0:
        return True, 0.0, path
    rel = d / scale if scale > 0 else float("inf")
    return rel <= rtol, rel, path


def brief(o, depth=0):
    """Short JSON-able rendering of an observation for witnesses."""
    if isinstance(o, Exc):
        return {"exception": o.type, "msg": o.msg}
    if isinstance(o, dict):
        return {k: brief(v, depth + 1) for k, v in o.items()}
    if isinstance(o, (list, tuple)):
        return [brief(v, depth + 1) for v in o][:8]
    if isinstance(o, np.ndarray):
        if o.size > 12:
            flat = o.ravel()
            return {"shape": list(o.shape), "first": brief(flat[:4]), "last": brief(flat[-4:])}
        if np.iscomplexobj(o):
            return [[float(v.real), float(v.imag)] for v in o.ravel()]
        return o.tolist()
    if isinstance(o, (complex, np.complexfloating)):
        return [float(o.real), float(o.imag)]
    if isinstance(o, (np.floating, np.integer)):
        return o.item()
    return o


# ---------------------------------------------------------------------- history runner
class Op:
    """One letter of an operation alphabet.

    fn(objs) drives the public API on the holder dict ``objs`` and returns a plain observation.
    mutates: the operation changes the LOGICAL state (as opposed to only filling memos).
    memo_tag: tag of the service-cache entry that serves this operation when it is memoised.
    twin_fn: replacement on the twin side (save/load is the identity on the twin).
    """

    def __init__(self, name, fn, mutates=False, memo_tag=None, twin_fn=None, kind=None, arg=None):
        self.name, self.fn, self.mutates, self.memo_tag = name, fn, mutates, memo_tag
        self.twin_fn = twin_fn or fn
        self.kind = kind or name
        self.arg = arg


class StepRecord:
    __slots__ = ("op", "real", "twin", "events", "fp_real", "fp_twin", "own_hit")


def run_history(spy, fam, params, history, twin_memo, rtol=1e-9):
    """Drive real and twin through ``history``; stop at the first return-value mismatch.

    Returns dict(steps=[StepRecord], mismatch=index|None, rel=worst relative difference over compared values,
    where=path, hits=number of memo hits on the real side, own_hits=steps whose own memo entry was served).
    """
    real = fam.fresh(params, twin=False)
    with spy.twin_step():
        twin = fam.fresh(params, twin=True)
    steps, worst, mismatch, where = [], 0.0, None, None
    hits = own_hits = 0
    fp0 = fam.fingerprint(real)
    for i, name in enumerate(history):
        op = fam.ops[name]
        rec = StepRecord()
        rec.op = name
        with spy.real_step() as ev:
            rec.real = capture(op.fn, real)
        rec.events = list(ev)
        hits += sum(1 for (t, h, _) in rec.events if h and t not in EXEMPT_TAGS)
        rec.own_hit = bool(op.memo_tag) and any(h and t == op.memo_tag for (t, h, _) in rec.events)
        own_hits += int(rec.own_hit)
        fam.clear_twin_memos(twin)
        fp_before = fam.fingerprint(twin)
        mkey = (fam.name, fam.params_key(params), fp_before, name)
        if not op.mutates and mkey in twin_memo:
            rec.twin = twin_memo[mkey]
        else:
            with spy.twin_step():
                rec.twin = capture(op.twin_fn, twin)
            if not op.mutates:
                twin_memo[mkey] = rec.twin
        rec.fp_real = fam.fingerprint(real)
        rec.fp_twin = fam.fingerprint(twin)
        steps.append(rec)
        ok, rel, wh = compare(rec.real, rec.twin, rtol)
        if ok:
            worst = max(worst, rel)          # running maximum over the comparisons that passed (margin to rtol)
        else:
            mismatch, where = i, wh
            break
    fam.dispose(real)
    fam.dispose(twin)
    return {"fp0": fp0, "steps": steps, "mismatch": mismatch, "rel": worst, "where": where, "hits": hits, "own_hits": own_hits,
            "mismatch_rel": (rel if mismatch is not None else None)}


def first_divergence(fam, steps, upto, rtol=1e-9):
    """Index of the first step (<= upto) after which real and twin differ in return value or in those components
    of the passive fingerprint of their logical state that the failing operation ``steps[upto].op`` depends on:
    the step that introduced the discrepancy (used for attribution only; several defects can overlap in a history)."""
    comps = fam.relevant(steps[upto].op)
    for k in range(upto + 1):
        s = steps[k]
        if not compare(s.real, s.twin, rtol)[0]:
            return k
        a = tuple(s.fp_real[i] for i in comps)
        b = tuple(s.fp_twin[i] for i in comps)
        if not fam.fp_equal(a, b):
            return k
    return upto
