"""Independent reference for event location (C11): exact flows and root finding on the exact flow.

Nothing here imports hiten.

* ``OscFlow``     closed-form flow of three planar oscillators z_j = q_j + i p_j,
                  z_j' = -i W_j z_j + D_j (+ f cos(nu t) on j = 0), state order (q1,q2,q3,p1,p2,p3).
                  With D = f = 0 the frequencies may depend on the (conserved) actions:
                  W_j = w_j + sum_k B_jk I_k, I_k = |z_k|^2/2  (H = sum w_j I_j + 1/2 sum B_jk I_j I_k).
* ``KeplerFlow``  exact elliptic two-body flow (Kepler's equation).
* ``PolyHam``     polynomial Hamiltonian given as {exponent tuple: coefficient}; field by monomial differentiation.
* ``NumFlow``     SciPy DOP853 (1e-13) dense reference flow of a PolyHam (for non-integrable quartics).
* ``scan``        all zeros / extrema of G(t) = g(t, phi(t)) on a span by dense sampling of the exact flow,
                  ``refine`` one zero with brentq.
"""
from __future__ import annotations

import numpy as np
from scipy.integrate import solve_ivp
from scipy.optimize import brentq


# ----------------------------------------------------------------------------- closed-form flows
class OscFlow:
    def __init__(self, x0, w, t0=0.0, B=None, D=None, f=0.0, nu=0.0):
        x0 = np.asarray(x0, dtype=float)
        self.t0 = float(t0)
        self.z0 = x0[:3] + 1j * x0[3:6]
        self.w = np.asarray(w, dtype=float).copy()
        self.D = np.zeros(3, dtype=complex) if D is None else np.asarray(D, dtype=complex).copy()
        self.f, self.nu = float(f), float(nu)
        forced = bool(np.any(self.D != 0)) or self.f != 0.0
        if B is not None and np.any(np.asarray(B) != 0):
            if forced:
                raise ValueError("action-dependent frequencies need an unforced system")
            I = 0.5 * np.abs(self.z0) ** 2
            self.W = self.w + np.asarray(B, dtype=float) @ I
        else:
            self.W = self.w.copy()
        if self.f != 0.0 and (abs(self.nu + self.W[0]) < 1e-3 or abs(self.nu - self.W[0]) < 1e-3):
            raise ValueError("resonant forcing not supported")

    def _particular(self, t):
        """Particular solution of z' = -i W0 z + f cos(nu t) (zero when f = 0)."""
        if self.f == 0.0:
            return 0.0 * t
        W, nu, f = self.W[0], self.nu, self.f
        return f / (2j * (nu + W)) * np.exp(1j * nu * t) + f / (2j * (W - nu)) * np.exp(-1j * nu * t)

    def z(self, t):
        t = np.atleast_1d(np.asarray(t, dtype=float))
        tau = t - self.t0
        out = np.empty((t.size, 3), dtype=complex)
        for j in range(3):
            W, D = self.W[j], self.D[j]
            zp_t = self._particular(t) if j == 0 else 0.0
            zp_0 = self._particular(np.array([self.t0]))[0] if j == 0 else 0.0
            if W != 0.0:
                zeq = D / (1j * W)
                out[:, j] = (self.z0[j] - zp_0 - zeq) * np.exp(-1j * W * tau) + zp_t + zeq
            else:
                out[:, j] = (self.z0[j] - zp_0) + D * tau + zp_t
        return out

    def __call__(self, t):
        z = self.z(t)
        return np.concatenate([z.real, z.imag], axis=1)

    def field(self, t, x):
        """The ODE the flow is supposed to solve (used only to self-check the closed form)."""
        x = np.asarray(x, dtype=float)
        z = x[:3] + 1j * x[3:6]
        dz = -1j * self.W * z + self.D
        dz[0] += self.f * np.cos(self.nu * t)
        return np.concatenate([dz.real, dz.imag])

    def wmax(self):
        return float(max(np.max(np.abs(self.W)), abs(self.nu) if self.f != 0 else 0.0))


class KeplerFlow:
    """Exact elliptic two-body flow, state (x,y,z,vx,vy,vz), via Kepler's equation (Newton to 1e-15)."""

    def __init__(self, x0, gm, t0=0.0):
        x0 = np.asarray(x0, dtype=float)
        r0, v0 = x0[:3], x0[3:6]
        self.gm, self.t0 = float(gm), float(t0)
        rn = np.linalg.norm(r0)
        self.a = 1.0 / (2.0 / rn - v0 @ v0 / gm)
        hv = np.cross(r0, v0)
        ev = np.cross(v0, hv) / gm - r0 / rn
        self.e = float(np.linalg.norm(ev))
        if not (self.a > 0 and 1e-3 < self.e < 0.95):
            raise ValueError("Kepler orbit not a proper ellipse")
        self.P = ev / self.e
        self.Q = np.cross(hv / np.linalg.norm(hv), self.P)
        self.n = np.sqrt(gm / self.a ** 3)
        cE = (1.0 - rn / self.a) / self.e
        sE = (r0 @ v0) / (self.e * np.sqrt(gm * self.a))
        E0 = np.arctan2(sE, cE)
        self.M0 = E0 - self.e * np.sin(E0)

    def __call__(self, t):
        t = np.atleast_1d(np.asarray(t, dtype=float))
        M = self.M0 + self.n * (t - self.t0)
        E = M + self.e * np.sin(M)
        for _ in range(60):
            dE = (E - self.e * np.sin(E) - M) / (1.0 - self.e * np.cos(E))
            E = E - dE
            if np.max(np.abs(dE)) < 1e-15:
                break
        a, e, b = self.a, self.e, np.sqrt(1.0 - self.e ** 2)
        r = a * (1.0 - e * np.cos(E))
        pos = np.outer(a * (np.cos(E) - e), self.P) + np.outer(a * b * np.sin(E), self.Q)
        k = np.sqrt(self.gm * a) / r
        vel = np.outer(-k * np.sin(E), self.P) + np.outer(k * b * np.cos(E), self.Q)
        return np.concatenate([pos, vel], axis=1)

    def field(self, t, x):
        x = np.asarray(x, dtype=float)
        r = np.linalg.norm(x[:3])
        return np.concatenate([x[3:6], -self.gm * x[:3] / r ** 3])

    def wmax(self):
        return float(self.n * np.sqrt(1.0 + self.e) / (1.0 - self.e) ** 1.5)


def selfcheck_flow(flow, field, t, delta=1e-5):
    """|d/dt phi - field(phi)| at time t by a central difference (guards the oracle itself)."""
    a, b, c = flow(np.array([t - delta, t, t + delta]))
    return float(np.max(np.abs((c - a) / (2 * delta) - field(t, b))))


# ----------------------------------------------------------------------------- polynomial Hamiltonians
class PolyHam:
    """H(q1,q2,q3,p1,p2,p3) = sum c_k x^k."""

    def __init__(self, terms):
        self.terms = {tuple(int(e) for e in k): float(c) for k, c in terms.items() if c != 0.0}
        self.K = np.array(list(self.terms.keys()), dtype=int).reshape(-1, 6)
        self.c = np.array(list(self.terms.values()), dtype=float)

    @staticmethod
    def action_terms(w, B=None, lin=None):
        """Monomials of sum w_j I_j + 1/2 sum B_jk I_j I_k (+ sum lin_v x_v), I_j = (q_j^2 + p_j^2)/2."""
        terms = {}

        def add(k, c):
            if c != 0.0:
                terms[tuple(k)] = terms.get(tuple(k), 0.0) + c
        for j in range(3):
            for v in (j, 3 + j):
                k = [0] * 6
                k[v] = 2
                add(k, 0.5 * w[j])
        if B is not None:
            B = np.asarray(B, dtype=float)
            for j in range(3):
                for m in range(3):
                    if B[j, m] == 0.0:
                        continue
                    for vj in (j, 3 + j):
                        for vm in (m, 3 + m):
                            k = [0] * 6
                            k[vj] += 2
                            k[vm] += 2
                            add(k, 0.5 * B[j, m] * 0.25)
        if lin is not None:
            for v, c in enumerate(lin):
                k = [0] * 6
                k[v] = 1
                add(k, float(c))
        return terms

    def degree(self):
        return int(self.K.sum(axis=1).max()) if len(self.c) else 0

    def value(self, x):
        x = np.asarray(x, dtype=float)
        return float(np.sum(self.c * np.prod(x[None, :] ** self.K, axis=1)))

    def grad(self, x):
        x = np.asarray(x, dtype=float)
        g = np.zeros(6)
        for v in range(6):
            kv = self.K[:, v]
            m = kv > 0
            if not m.any():
                continue
            Kd = self.K[m].copy()
            Kd[:, v] -= 1
            g[v] = np.sum(self.c[m] * kv[m] * np.prod(x[None, :] ** Kd, axis=1))
        return g

    def field(self, t, x):
        g = self.grad(x)
        return np.concatenate([g[3:], -g[:3]])


class NumFlow:
    """Reference flow of an autonomous field by SciPy DOP853 at 1e-13 with dense output."""

    def __init__(self, field, x0, t0, T):
        self.t0, self.T = float(t0), float(T)
        sol = solve_ivp(field, (self.t0, self.T + 1e-3), np.asarray(x0, dtype=float), method="DOP853",
                        rtol=1e-13, atol=1e-14, dense_output=True)
        if not sol.success:
            raise RuntimeError("reference flow failed: " + str(sol.message))
        self.sol = sol.sol

    def __call__(self, t):
        t = np.atleast_1d(np.asarray(t, dtype=float))
        return self.sol(np.clip(t, self.t0, self.T + 1e-3)).T


# ----------------------------------------------------------------------------- zeros of G on the exact flow
class Scan:
    """Zeros and extrema of G on [t0, T] from a dense sample of the exact flow.

    roots      list of (k, sign) : G changes sign inside grid cell [t_k, t_{k+1}] towards ``sign``
    ext_min    smallest |G| over interior local extrema that are not sign changes (near-tangency detector)
    gdot_max   max |dG/dt| over the span (finite differences of the sample)
    """

    def __init__(self, G, t0, T, dt, g_start=None):
        n = int(max(64, np.ceil((T - t0) / dt)))
        self.t = np.linspace(t0, T, n + 1)
        self.G = G
        g = np.asarray(G(self.t), dtype=float).copy()
        if g_start is not None:
            g[0] = g_start                      # the library evaluates g on the exact initial state
        self.g = g
        self.dt = (T - t0) / n
        roots = []
        for k in np.nonzero((g[:-1] * g[1:] < 0) | ((g[1:] == 0.0) & (g[:-1] != 0.0)))[0]:
            if g[k + 1] == 0.0:
                s = -np.sign(g[k])
            else:
                s = np.sign(g[k + 1])
            roots.append((int(k), int(s)))
        self.roots = roots
        d = np.diff(g)
        ext = np.nonzero(d[:-1] * d[1:] <= 0)[0] + 1
        self.ext_min = float(np.min(np.abs(g[ext]))) if ext.size else float("inf")
        self.ext_t = float(self.t[ext[np.argmin(np.abs(g[ext]))]]) if ext.size else None
        self.gdot_max = float(np.max(np.abs(d)) / self.dt)
        self.g_end = float(g[-1])

    def root_time(self, k):
        """Grid-level estimate (linear interpolation) of the zero in cell k."""
        g0, g1 = self.g[k], self.g[k + 1]
        return float(self.t[k] + self.dt * (g0 / (g0 - g1)))

    def refine(self, k):
        a, b = float(self.t[k]), float(self.t[k + 1])
        ga = float(self.g[k])
        gb = float(self.g[k + 1])
        if gb == 0.0:
            return b

        def f(t):
            if t == a:
                return ga
            return float(self.G(np.array([t]))[0])
        return float(brentq(f, a, b, xtol=1e-15, rtol=4 * np.finfo(float).eps, maxiter=200))

    def slope(self, t, delta=1e-6):
        lo, hi = max(t - delta, float(self.t[0])), min(t + delta, float(self.t[-1]))
        a, b = self.G(np.array([lo, hi]))
        return float((b - a) / (hi - lo))


# ----------------------------------------------------------------------------- CR3BP plane crossings (SciPy events)
def cr3bp_plane_roots(field, y0, tmax, idx, offset, sign=1):
    """All crossings of y[idx] = offset along the (forward: sign=+1, backward: sign=-1) CR3BP flow on [0, tmax].

    Returns (times, slopes dg/ds, dense solution in the elapsed time s >= 0).
    """
    ev = lambda t, y: y[idx] - offset
    sol = solve_ivp(lambda t, y: sign * field(y), (0.0, float(tmax)), np.asarray(y0, dtype=float), method="DOP853",
                    rtol=1e-13, atol=1e-13, events=[ev], dense_output=True)
    if not sol.success:
        raise RuntimeError("reference flow failed: " + str(sol.message))
    te = np.asarray(sol.t_events[0], dtype=float)
    slopes = np.array([sign * field(sol.sol(t))[idx] for t in te]) if te.size else np.zeros(0)
    return te, slopes, sol.sol
