"""refpoly -- an independent, exact sparse polynomial algebra (default: 6 variables).

A polynomial is a plain ``dict {exponent tuple: coefficient}``; zero coefficients are never stored.
Coefficients may be Python ``int``, ``fractions.Fraction``, :class:`Gauss` (exact Gaussian rationals, i.e.
complex numbers with rational real and imaginary parts) or ``float``/``complex``.  With int/Fraction/Gauss
coefficients every operation is exact.

Variable order and Poisson-bracket convention (phase space of ``n`` degrees of freedom, ``2n`` variables)::

    x = (q1, ..., qn, p1, ..., pn)
    {F, G} = sum_i  dF/dq_i * dG/dp_i  -  dF/dp_i * dG/dq_i          ({q_i, p_i} = +1)

This is also the sign convention of hiten's ``_poly_poisson`` / ``_polynomial_poisson_bracket``; that is
verified empirically on the canonical relations by the C06 monitor (``c06.canonical_relations``), not assumed.

Substitution convention: ``subs_linear(P, M)`` returns ``P(M x)``, i.e. old variable ``x_i`` is replaced by
``sum_j M[i][j] x_j``; ``subs_affine(P, M, s)`` returns ``P(M x + s)`` (same as hiten's ``_substitute_linear``
and ``_substitute_affine``).

Nothing at module level imports hiten or numba.  The packed-layout helpers at the bottom import the library's
index tables lazily: they are used *only* to learn where the library stores which monomial
(``_decode_multiindex`` position -> exponents); the layout itself is verified independently by C06 sub-monitor 1.

Self-test (ring axioms, Leibniz/Jacobi, calculus identities, code generator)::

    python -m hmon.oracles.refpoly
"""
from __future__ import annotations

from fractions import Fraction
from itertools import product as _iproduct

NV = 6


# ====================================================================== exact Gaussian rationals
class Gauss:
    """Exact complex number re + i*im with int/Fraction parts."""
    __slots__ = ("re", "im")

    def __init__(self, re=0, im=0):
        self.re = re
        self.im = im

    # -- helpers
    @staticmethod
    def _coerce(o):
        if isinstance(o, Gauss):
            return o
        if isinstance(o, (int, Fraction)) and not isinstance(o, bool):
            return Gauss(o, 0)
        return None

    def __complex__(self):
        return complex(float(self.re), float(self.im))

    def __repr__(self):
        return f"Gauss({self.re!r}, {self.im!r})"

    def __hash__(self):
        return hash((self.re, self.im))

    def __eq__(self, o):
        g = Gauss._coerce(o)
        if g is None:
            try:
                return complex(self) == complex(o)
            except Exception:
                return NotImplemented
        return self.re == g.re and self.im == g.im

    def __bool__(self):
        return self.re != 0 or self.im != 0

    def __neg__(self):
        return Gauss(-self.re, -self.im)

    def __pos__(self):
        return self

    def conjugate(self):
        return Gauss(self.re, -self.im)

    def __add__(self, o):
        g = Gauss._coerce(o)
        if g is None:
            return complex(self) + o
        return Gauss(self.re + g.re, self.im + g.im)

    __radd__ = __add__

    def __sub__(self, o):
        g = Gauss._coerce(o)
        if g is None:
            return complex(self) - o
        return Gauss(self.re - g.re, self.im - g.im)

    def __rsub__(self, o):
        g = Gauss._coerce(o)
        if g is None:
            return o - complex(self)
        return Gauss(g.re - self.re, g.im - self.im)

    def __mul__(self, o):
        g = Gauss._coerce(o)
        if g is None:
            return complex(self) * o
        return Gauss(self.re * g.re - self.im * g.im, self.re * g.im + self.im * g.re)

    __rmul__ = __mul__

    def __truediv__(self, o):
        g = Gauss._coerce(o)
        if g is None:
            return complex(self) / o
        n = g.re * g.re + g.im * g.im
        if n == 0:
            raise ZeroDivisionError("Gauss division by zero")
        num = self * g.conjugate()
        return Gauss(Fraction(num.re, 1) / n, Fraction(num.im, 1) / n)

    def __rtruediv__(self, o):
        g = Gauss._coerce(o)
        if g is None:
            return o / complex(self)
        return g / self

    def __pow__(self, k):
        if not isinstance(k, int) or k < 0:
            return NotImplemented
        r, b = Gauss(1, 0), self
        while k:
            if k & 1:
                r = r * b
            b = b * b
            k >>= 1
        return r

    def is_integer(self):
        return Fraction(self.re).denominator == 1 and Fraction(self.im).denominator == 1


def _is_exact(c):
    return isinstance(c, (int, Fraction, Gauss)) and not isinstance(c, bool)


def div_exact(c, n):
    """c / n for an integer n; stays exact for exact coefficient types."""
    if isinstance(c, Gauss):
        return Gauss(Fraction(c.re) / n, Fraction(c.im) / n)
    if isinstance(c, (int, Fraction)):
        return Fraction(c) / n
    return c / n


def absval(c):
    """A majorant of |c|: exact |re|+|im| for Gauss, abs() otherwise."""
    if isinstance(c, Gauss):
        return abs(c.re) + abs(c.im)
    return abs(c)


def to_complex(c):
    return complex(c)


def gauss_from_complex(z):
    """Exact Gauss of a complex/real number whose parts are integer-valued floats; else returns complex(z)."""
    z = complex(z)
    if z.real == int(z.real) and z.imag == int(z.imag):
        return Gauss(int(z.real), int(z.imag))
    return z


# ====================================================================== constructors
def zero():
    return {}


def const(c, nv=NV):
    return {(0,) * nv: c} if c != 0 else {}


def var(i, nv=NV, c=1):
    e = [0] * nv
    e[i] = 1
    return {tuple(e): c}


def mono(exps, c=1):
    return {tuple(int(e) for e in exps): c} if c != 0 else {}


def nvars(p, default=NV):
    for e in p:
        return len(e)
    return default


def normalize(p):
    return {e: c for e, c in p.items() if c != 0}


def copy(p):
    return dict(p)


# ====================================================================== ring operations
def add(p, q):
    r = dict(p)
    for e, c in q.items():
        s = r.get(e)
        if s is None:
            r[e] = c
        else:
            s = s + c
            if s != 0:
                r[e] = s
            else:
                del r[e]
    return r


def neg(p):
    return {e: -c for e, c in p.items()}


def sub(p, q):
    return add(p, neg(q))


def scale(p, a):
    if a == 0:
        return {}
    r = {}
    for e, c in p.items():
        v = a * c
        if v != 0:
            r[e] = v
    return r


def degree(p):
    """Total degree; -1 for the zero polynomial."""
    return max((sum(e) for e in p), default=-1)


def truncate(p, max_deg=None, min_deg=0):
    if max_deg is None and min_deg <= 0:
        return dict(p)
    hi = float("inf") if max_deg is None else max_deg
    return {e: c for e, c in p.items() if min_deg <= sum(e) <= hi}


def homogeneous_part(p, d):
    return {e: c for e, c in p.items() if sum(e) == d}


def split_by_degree(p, max_deg=None):
    n = degree(p) if max_deg is None else max_deg
    parts = [dict() for _ in range(max(n, -1) + 1)]
    for e, c in p.items():
        d = sum(e)
        if d <= n:
            parts[d][e] = c
    return parts


def mul(p, q, max_deg=None):
    """Product; terms of total degree > max_deg are dropped when max_deg is given."""
    r = {}
    if not p or not q:
        return r
    if len(p) > len(q):
        p, q = q, p
    qd = [(e, c, sum(e)) for e, c in q.items()]
    for e1, c1 in p.items():
        d1 = sum(e1)
        for e2, c2, d2 in qd:
            if max_deg is not None and d1 + d2 > max_deg:
                continue
            e = tuple([a + b for a, b in zip(e1, e2)])
            v = c1 * c2
            s = r.get(e)
            r[e] = v if s is None else s + v
    return {e: c for e, c in r.items() if c != 0}


def power(p, k, max_deg=None, nv=None):
    """p**k by repeated multiplication (left to right; deliberately not the library's squaring scheme)."""
    if k < 0:
        raise ValueError("negative power")
    nv = nvars(p, NV) if nv is None else nv
    r = const(1, nv)
    for _ in range(k):
        r = mul(r, p, max_deg)
    return r


def diff(p, v):
    r = {}
    for e, c in p.items():
        k = e[v]
        if k:
            ee = list(e)
            ee[v] = k - 1
            r[tuple(ee)] = c * k
    return r


def integrate(p, v):
    """Antiderivative w.r.t. variable v with zero integration constant."""
    r = {}
    for e, c in p.items():
        ee = list(e)
        ee[v] = e[v] + 1
        r[tuple(ee)] = div_exact(c, e[v] + 1)
    return r


def poisson(f, g, n_dof=None, max_deg=None):
    """{f,g} = sum_i df/dq_i dg/dp_i - df/dp_i dg/dq_i with variables ordered (q1..qn, p1..pn)."""
    nv = nvars(f, nvars(g, NV))
    n = nv // 2 if n_dof is None else n_dof
    r = {}
    for i in range(n):
        r = add(r, mul(diff(f, i), diff(g, n + i), max_deg))
        r = sub(r, mul(diff(f, n + i), diff(g, i), max_deg))
    return r


def evaluate(p, x):
    """Value at the point x (sequence of numbers; exact if coefficients and point are exact)."""
    tot = 0
    cache = {}
    for e, c in p.items():
        t = c
        for i, k in enumerate(e):
            if k:
                key = (i, k)
                w = cache.get(key)
                if w is None:
                    w = x[i] ** k
                    cache[key] = w
                t = t * w
        tot = tot + t
    return tot


def compose(p, subs, max_deg=None):
    """p(subs[0], ..., subs[nv-1]) where each subs[i] is a polynomial (truncated at max_deg if given)."""
    nv = len(subs)
    nv_out = nvars(next((s for s in subs if s), {}), nv)
    pw = [dict() for _ in range(nv)]          # pw[i][k] = subs[i]**k

    def get_pow(i, k):
        t = pw[i]
        if k not in t:
            if k == 0:
                t[0] = const(1, nv_out)
            else:
                t[k] = mul(get_pow(i, k - 1), subs[i], max_deg)
        return t[k]
    r = {}
    for e, c in p.items():
        term = const(c, nv_out)
        for i, k in enumerate(e):
            if k:
                term = mul(term, get_pow(i, k), max_deg)
                if not term:
                    break
        r = add(r, term)
    return r


def _rows_to_polys(M, shifts=None):
    n = len(M)
    out = []
    for i in range(n):
        s = {}
        for j in range(n):
            c = M[i][j]
            if c != 0:
                e = [0] * n
                e[j] = 1
                s[tuple(e)] = c
        if shifts is not None and shifts[i] != 0:
            s[(0,) * n] = shifts[i]
        out.append(s)
    return out


def subs_linear(p, M, max_deg=None):
    """P(M x): x_i -> sum_j M[i][j] x_j."""
    return compose(p, _rows_to_polys(M), max_deg)


def subs_affine(p, M, shifts, max_deg=None):
    """P(M x + s): x_i -> sum_j M[i][j] x_j + s_i."""
    return compose(p, _rows_to_polys(M, shifts), max_deg)


# ====================================================================== norms / majorants
def absmodel(p):
    """Coefficient-wise majorant |c| (exact |re|+|im| for Gauss)."""
    return {e: absval(c) for e, c in p.items()}


def l1(p):
    return sum((absval(c) for c in p.values()), 0)


def equal(p, q):
    return normalize(p) == normalize(q)


def map_coeffs(p, fn):
    return normalize({e: fn(c) for e, c in p.items()})


def as_complex(p):
    return {e: complex(c) for e, c in p.items()}


def monomials(d, nv=NV):
    """All exponent tuples of total degree d (independent enumeration, lexicographic)."""
    if nv == 1:
        yield (d,)
        return
    for k in range(d + 1):
        for rest in monomials(d - k, nv - 1):
            yield (k,) + rest


# ====================================================================== code generator: f(t,y) = J grad H
def _float_literal(c):
    if isinstance(c, Gauss):
        if c.im != 0:
            raise ValueError("complex coefficient in a real Hamiltonian")
        c = c.re
    if isinstance(c, complex):
        if c.imag != 0.0:
            raise ValueError("complex coefficient in a real Hamiltonian")
        c = c.real
    return repr(float(c))


def _complex_literal(c):
    z = complex(c)
    return f"complex({z.real!r}, {z.imag!r})"


def hamiltonian_field(H, n_dof=3):
    """[dH/dp_1..dH/dp_n, -dH/dq_1..-dH/dq_n] as refpoly polynomials (the exact J grad H)."""
    return [diff(H, n_dof + i) for i in range(n_dof)] + [neg(diff(H, i)) for i in range(n_dof)]


def gen_poly_expr_lines(p, target, lit, zero_lit, chunk=6):
    """Source lines assigning the value of polynomial p (in variables x0..) to ``target``."""
    terms = []
    for e in sorted(p):
        fac = [lit(p[e])]
        for i, k in enumerate(e):
            if k == 1:
                fac.append(f"x{i}")
            elif k > 1:
                fac.append(f"x{i}_{k}")
        terms.append("*".join(fac))
    if not terms:
        return [f"{target} = {zero_lit}"]
    lines = [f"{target} = " + " + ".join(terms[:chunk])]
    for a in range(chunk, len(terms), chunk):
        lines.append(f"{target} += " + " + ".join(terms[a:a + chunk]))
    return lines


def gen_rhs_source(H, n_dof=3, name="rhs", complex_ok=False, extra=0):
    """Python source of ``def <name>(t, y)`` returning J grad H for the polynomial Hamiltonian H.

    Variables are (q1..qn, p1..pn) = y[0:2n];  out[i] = dH/dp_i, out[n+i] = -dH/dq_i.
    The emitted function uses only numpy, scalar arithmetic and integer powers by repeated multiplication, so
    it is compilable by ``numba.njit``.  ``extra`` trailing state components get zero derivative (constant
    parameters carried in the state).  Coefficients are emitted as exactly round-tripping float literals.
    """
    nv = 2 * n_dof
    field = hamiltonian_field(H, n_dof)
    is_cplx = False
    if complex_ok:
        for f in field:
            for c in f.values():
                if complex(c).imag != 0.0:
                    is_cplx = True
    lit = _complex_literal if is_cplx else _float_literal
    dtype = "np.complex128" if is_cplx else "np.float64"
    zero_lit = "0j" if is_cplx else "0.0"
    maxpow = [0] * nv
    for f in field:
        for e in f:
            for i, k in enumerate(e):
                maxpow[i] = max(maxpow[i], k)
    L = [f"def {name}(t, y):"]
    for i in range(nv):
        L.append(f"    x{i} = y[{i}]")
        for k in range(2, maxpow[i] + 1):
            prev = f"x{i}" if k == 2 else f"x{i}_{k - 1}"
            L.append(f"    x{i}_{k} = {prev}*x{i}")
    L.append(f"    out = np.zeros({nv + extra}, dtype={dtype})")
    for i, f in enumerate(field):
        for line in gen_poly_expr_lines(f, f"d{i}", lit, zero_lit):
            L.append("    " + line)
        L.append(f"    out[{i}] = d{i}")
    L.append("    return out")
    return "\n".join(L) + "\n"


def make_rhs(H, n_dof=3, jit=True, name="rhs", complex_ok=False, extra=0):
    """exec() the generated source; returns the function (numba.njit-compiled when jit=True)."""
    import numpy as np
    src = gen_rhs_source(H, n_dof, name, complex_ok, extra)
    ns = {"np": np}
    exec(compile(src, f"<refpoly.{name}>", "exec"), ns)
    fn = ns[name]
    if jit:
        import numba
        fn = numba.njit(cache=False)(fn)
    fn.__refpoly_source__ = src if not jit else None
    return fn


def eval_field(H, y, n_dof=3):
    """Reference evaluation of J grad H at y through refpoly itself (no generated code)."""
    return [evaluate(f, y) for f in hamiltonian_field(H, n_dof)]


# ====================================================================== library packed layout (lazy hiten import)
_LAYOUT = {}
_LAYOUT_JIT = None


def _layout_fn():
    global _LAYOUT_JIT
    if _LAYOUT_JIT is None:
        import numba
        import numpy as np
        from hiten.algorithms.polynomial.base import _decode_multiindex

        @numba.njit(cache=False)
        def decode_table(d, n, clmo):
            out = np.empty((n, 6), dtype=np.int64)
            for pos in range(n):
                k = _decode_multiindex(pos, d, clmo)
                for m in range(6):
                    out[pos, m] = k[m]
            return out
        _LAYOUT_JIT = decode_table
    return _LAYOUT_JIT


def layout(d):
    """(exps, index): exps[pos] = exponent 6-tuple the library stores at slot pos of the degree-d block
    (obtained by calling the library's own ``_decode_multiindex`` for every slot); index = inverse dict built
    here (NOT through the library's encoder)."""
    if d not in _LAYOUT:
        from hiten.algorithms.polynomial.base import _CLMO_GLOBAL
        n = len(_CLMO_GLOBAL[d])
        tab = _layout_fn()(d, n, _CLMO_GLOBAL)
        exps = [tuple(int(v) for v in row) for row in tab]
        index = {e: i for i, e in enumerate(exps)}
        _LAYOUT[d] = (exps, index)
    return _LAYOUT[d]


def block_size(d):
    from math import comb
    return comb(d + 5, 5)


def to_block(p, d, dtype=None):
    """Degree-d homogeneous part of p as a packed coefficient array in the library layout."""
    import numpy as np
    exps, index = layout(d)
    a = np.zeros(len(exps), dtype=np.complex128 if dtype is None else dtype)
    real = np.dtype(a.dtype).kind == "f"
    for e, c in p.items():
        if sum(e) == d:
            z = complex(c)
            if real:
                if z.imag != 0.0:
                    raise ValueError("complex coefficient into a real block")
                a[index[e]] = z.real
            else:
                a[index[e]] = z
    return a


def to_packed(p, max_deg, dtype=None):
    """Python list [block_0, ..., block_max_deg] (terms above max_deg are dropped)."""
    return [to_block(p, d, dtype) for d in range(max_deg + 1)]


def to_typed_list(blocks):
    from numba.typed import List
    import numpy as np
    lst = List.empty_list(_c128_1d())
    for b in blocks:
        lst.append(np.ascontiguousarray(b, dtype=np.complex128))
    return lst


def _c128_1d():
    import numba
    return numba.types.Array(numba.types.complex128, 1, "C")


def to_library(p, max_deg):
    """refpoly dict -> numba typed List of complex128 blocks, as consumed by hiten's ``_polynomial_*``."""
    return to_typed_list(to_packed(p, max_deg))


def from_block(a, d, exact=False):
    """Packed degree-d block -> dict.  exact=True turns integer-valued entries into Gauss/int."""
    exps, _ = layout(d)
    if len(a) != len(exps):
        raise ValueError(f"block of degree {d} has {len(a)} slots, layout has {len(exps)}")
    r = {}
    for i, c in enumerate(a):
        if c != 0:
            z = complex(c)
            r[exps[i]] = gauss_from_complex(z) if exact else z
    return r


def from_packed(blocks, exact=False):
    r = {}
    for d, a in enumerate(blocks):
        r.update(from_block(a, d, exact))
    return r


# ====================================================================== self-test
def _rand_poly(rng, max_deg, nterms, kind, nv=NV):
    p = {}
    for _ in range(nterms):
        d = int(rng.integers(0, max_deg + 1))
        cuts = sorted(int(v) for v in rng.integers(0, d + 1, nv - 1))
        e = tuple(b - a for a, b in zip([0] + cuts, cuts + [d]))
        if kind == "int":
            c = int(rng.integers(-7, 8))
        elif kind == "frac":
            c = Fraction(int(rng.integers(-7, 8)), int(rng.integers(1, 6)))
        elif kind == "gauss":
            c = Gauss(int(rng.integers(-7, 8)), int(rng.integers(-7, 8)))
        else:
            c = complex(rng.normal(), rng.normal())
        if c != 0:
            p[e] = c
    return p


def selftest(seed=0, n=40, verbose=True):
    """Ring axioms and calculus identities on random exact inputs; raises AssertionError on failure."""
    import numpy as np
    rng = np.random.default_rng(seed)
    checks = 0
    for it in range(n):
        kind = ["int", "frac", "gauss"][it % 3]
        a = _rand_poly(rng, 3, 6, kind)
        b = _rand_poly(rng, 3, 6, kind)
        c = _rand_poly(rng, 2, 5, kind)
        assert equal(add(a, b), add(b, a))
        assert equal(add(add(a, b), c), add(a, add(b, c)))
        assert equal(mul(a, b), mul(b, a))
        assert equal(mul(mul(a, b), c), mul(a, mul(b, c)))
        assert equal(mul(a, add(b, c)), add(mul(a, b), mul(a, c)))
        assert equal(add(a, neg(a)), {})
        assert equal(mul(a, const(1)), a) and equal(mul(a, {}), {})
        assert equal(power(a, 3), mul(a, mul(a, a)))
        assert equal(power(a, 0), const(1))
        assert equal(scale(a, 3), add(a, add(a, a)))
        # truncation commutes with the ring operations
        assert equal(mul(a, b, 4), truncate(mul(a, b), 4))
        assert equal(power(a, 3, 5), truncate(power(a, 3), 5))
        # calculus
        v, w = int(rng.integers(6)), int(rng.integers(6))
        assert equal(diff(mul(a, b), v), add(mul(diff(a, v), b), mul(a, diff(b, v))))       # Leibniz
        assert equal(diff(diff(a, v), w), diff(diff(a, w), v))                              # Schwarz
        assert equal(diff(integrate(a, v), v), a)                                           # d/dx int = id
        ia = integrate(diff(a, v), v)
        assert equal(ia, {e: cc for e, cc in a.items() if e[v] > 0})                        # int d/dx = id - a|x=0
        # Poisson bracket: antisymmetry, bilinearity, Leibniz, Jacobi, canonical relations
        assert equal(poisson(a, b), neg(poisson(b, a)))
        assert equal(poisson(a, add(b, c)), add(poisson(a, b), poisson(a, c)))
        assert equal(poisson(a, mul(b, c)), add(mul(poisson(a, b), c), mul(b, poisson(a, c))))
        jac = add(add(poisson(a, poisson(b, c)), poisson(b, poisson(c, a))), poisson(c, poisson(a, b)))
        assert equal(jac, {})
        # evaluation is a ring homomorphism
        x = [Fraction(int(rng.integers(-3, 4)), int(rng.integers(1, 4))) for _ in range(6)]
        if kind == "gauss":
            x = [Gauss(xi, int(rng.integers(-2, 3))) for xi in x]
        assert evaluate(mul(a, b), x) == evaluate(a, x) * evaluate(b, x)
        assert evaluate(add(a, b), x) == evaluate(a, x) + evaluate(b, x)
        # substitution: composition of linear maps, and evaluation commutes
        M = [[int(rng.integers(-2, 3)) for _ in range(6)] for _ in range(6)]
        N = [[int(rng.integers(-2, 3)) for _ in range(6)] for _ in range(6)]
        s = [int(rng.integers(-2, 3)) for _ in range(6)]
        MN = [[sum(M[i][k] * N[k][j] for k in range(6)) for j in range(6)] for i in range(6)]
        assert equal(subs_linear(subs_linear(a, M), N), subs_linear(a, MN))
        Mx = [sum(M[i][j] * x[j] for j in range(6)) + s[i] for i in range(6)]
        assert evaluate(subs_affine(a, M, s), x) == evaluate(a, Mx)
        assert equal(subs_affine(mul(a, c), M, s), mul(subs_affine(a, M, s), subs_affine(c, M, s)))
        assert equal(subs_linear(a, [[int(i == j) for j in range(6)] for i in range(6)]), a)
        checks += 27
    for i in range(3):
        for j in range(3):
            assert equal(poisson(var(i), var(3 + j)), const(1) if i == j else {})
            assert equal(poisson(var(3 + j), var(i)), const(-1) if i == j else {})
            assert equal(poisson(var(i), var(j)), {}) and equal(poisson(var(3 + i), var(3 + j)), {})
    # Gauss arithmetic against Python complex on small integers
    for _ in range(200):
        a, b, c, d = (int(v) for v in rng.integers(-9, 10, 4))
        g, h = Gauss(a, b), Gauss(c, d)
        assert complex(g * h) == complex(a, b) * complex(c, d)
        assert complex(g + h) == complex(a, b) + complex(c, d)
        if h:
            assert (g / h) * h == g
    # monomial enumeration count
    from math import comb
    for d in range(7):
        ms = list(monomials(d))
        assert len(ms) == len(set(ms)) == comb(d + 5, 5) and all(sum(m) == d for m in ms)
    # code generator: generated python == refpoly evaluation of J grad H (un-jitted; harmonic + random cubic)
    H = add({(2, 0, 0, 0, 0, 0): Fraction(1, 2), (0, 0, 0, 2, 0, 0): Fraction(1, 2)}, _rand_poly(rng, 3, 8, "int"))
    f = make_rhs(H, 3, jit=False)
    y = rng.normal(size=6)
    got = f(0.0, y)
    ref = [float(v) for v in eval_field(H, [float(v) for v in y], 3)]
    assert max(abs(g - r) for g, r in zip(got, ref)) <= 1e-12 * (1 + max(abs(r) for r in ref))
    Hh = {(2, 0, 0, 0, 0, 0): Fraction(1, 2), (0, 0, 0, 2, 0, 0): Fraction(1, 2)}
    fh = make_rhs(Hh, 3, jit=False)
    o = fh(0.0, np.array([1.0, 0, 0, 2.0, 0, 0]))
    assert o[0] == 2.0 and o[3] == -1.0          # qdot = p, pdot = -q
    if verbose:
        print(f"refpoly selftest ok ({checks} identity checks, seed {seed})")
    return checks


if __name__ == "__main__":
    selftest()
