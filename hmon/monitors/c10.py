"""C10 — backward propagation and time grids mean what they say.

Events: System.propagate(forward=+-1), _propagate_dynsys(...) on CR3BP / user rhs (autonomous and time dependent) /
polynomial Hamiltonian systems / the 42-D variational system; Integrator.integrate(system, y0, t_vals) on ascending,
non-uniform and strictly descending grids.
Oracle: SciPy DOP853 (1e-13) on independent right-hand sides, at *signed* times.
"""
from __future__ import annotations

import numpy as np
from scipy.integrate import solve_ivp

from ..core import guarded
from ..oracles import cr3bp as ref

MECH_DOP_DESC = "dop853-descending-grid-returns-initial-state"
MECH_SYMP_TIMES = "symplectic-backward-times-positive"
MECH_TDEP = "directed-system-time-dependent-rhs-evaluated-at-plus-t"
MECH_HAMRHS = "hamiltonian-system-generic-rhs-not-compilable"
MECH_ZEROSPAN = "short-span-treated-as-zero-span-by-isclose"

STATE_TOL = 2e-6


def _ref(fun, y0, t_eval):
    t_eval = np.asarray(t_eval, dtype=float)
    sol = solve_ivp(fun, (t_eval[0], t_eval[-1]), y0, method="DOP853", rtol=1e-13, atol=1e-13, t_eval=t_eval)
    assert sol.success
    return sol.y.T


# --------------------------------------------------------------------------- problem families (few dispatchers!)
def make_problems(ctx):
    import numba
    from hiten import System
    from hiten.algorithms.dynamics.rhs import create_rhs_system
    from .. import polyutil as pu

    @numba.njit(cache=False)
    def rhs_osc(t, y):   # y = (q, p, w, k): q' = w p ; p' = -w q - k q^3
        out = np.zeros(4)
        out[0] = y[2] * y[1]
        out[1] = -y[2] * y[0] - y[3] * y[0] ** 3
        return out

    @numba.njit(cache=False)
    def rhs_forced(t, y):  # y = (u, v, a, b, c): explicit time dependence
        out = np.zeros(5)
        out[0] = y[1]
        out[1] = -y[2] * y[0] + y[3] * np.sin(y[4] * t) + 0.2 * t
        return out

    def py_osc(t, y):
        return np.array([y[2] * y[1], -y[2] * y[0] - y[3] * y[0] ** 3, 0.0, 0.0])

    def py_forced(t, y):
        return np.array([y[1], -y[2] * y[0] + y[3] * np.sin(y[4] * t) + 0.2 * t, 0.0, 0.0, 0.0])

    probs = {}
    rng = ctx.rng
    probs["user_autonomous"] = dict(system=create_rhs_system(rhs_osc, 4, "osc"), fun=py_osc, tdep=False, ham=False,
                                    y0=lambda: np.array([rng.uniform(-1, 1), rng.uniform(-1, 1), rng.uniform(0.5, 3), rng.uniform(0, 0.5)]))
    probs["user_time_dependent"] = dict(system=create_rhs_system(rhs_forced, 5, "forced"), fun=py_forced, tdep=True, ham=False,
                                        y0=lambda: np.array([rng.uniform(-1, 1), rng.uniform(-1, 1), rng.uniform(0.5, 2), rng.uniform(0.2, 1), rng.uniform(0.5, 3)]))
    mu = 0.012150585609624
    sysm = System.from_mu(mu)
    probs["cr3bp"] = dict(system=sysm.dynsys, fun=lambda t, y: ref.field(y, mu), tdep=False, ham=False, hsys=sysm,
                          y0=lambda: np.array([0.5 - mu + rng.normal() * 0.05, np.sqrt(3) / 2 + rng.normal() * 0.05, rng.normal() * 0.05,
                                               rng.normal() * 0.05, rng.normal() * 0.05, rng.normal() * 0.05]))
    # polynomial Hamiltonian: fixed support, random coefficients (coefficients are data, not code)
    def newH():
        H = {(2, 0, 0, 0, 0, 0): 0.5 * rng.uniform(0.5, 2), (0, 0, 0, 2, 0, 0): 0.5, (0, 2, 0, 0, 0, 0): 0.5 * rng.uniform(0.5, 2),
             (0, 0, 0, 0, 2, 0): 0.5, (0, 0, 2, 0, 0, 0): 0.5 * rng.uniform(0.5, 2), (0, 0, 0, 0, 0, 2): 0.5,
             (1, 1, 0, 0, 0, 1): rng.uniform(-0.2, 0.2), (2, 0, 0, 0, 1, 0): rng.uniform(-0.1, 0.1), (0, 1, 2, 0, 0, 0): rng.uniform(-0.2, 0.2)}
        return H
    probs["poly_hamiltonian"] = dict(newH=newH, tdep=False, ham=True, y0=lambda: rng.uniform(-0.3, 0.3, 6), pu=pu)
    if not ctx.quick:
        probs["variational42"] = dict(system=sysm.var_dynsys, fun=lambda t, Y: ref.var_field(Y, mu), tdep=False, ham=False,
                                      y0=lambda: np.concatenate([np.eye(6).ravel(), probs["cr3bp"]["y0"]()]))
    return probs


def integrators():
    from hiten.algorithms.integrators.rk import AdaptiveRK, RungeKutta
    return [("fixed", 4), ("fixed", 6), ("fixed", 8), ("adaptive", 5), ("adaptive", 8)], RungeKutta, AdaptiveRK


def make_integrator(method, order):
    from hiten.algorithms.integrators.rk import AdaptiveRK, RungeKutta
    from hiten.algorithms.integrators.symplectic import ExtendedSymplectic
    if method == "fixed":
        return RungeKutta(order=order)
    if method == "adaptive":
        return AdaptiveRK(order=order, rtol=1e-11, atol=1e-11)
    return ExtendedSymplectic(order=order)


def propagate_level(ctx, probs, reps):
    from hiten.algorithms.dynamics.base import _propagate_dynsys
    rng = ctx.rng
    combos = [("fixed", 4), ("fixed", 6), ("fixed", 8), ("adaptive", 5), ("adaptive", 8), ("symplectic", 2), ("symplectic", 4)]
    k = -1
    for pname, P in probs.items():
        for (method, order) in combos:
            if method == "symplectic" and not P["ham"]:
                continue
            for rep in range(reps):
                k += 1
                if not ctx.mine(k):
                    continue
                y0 = P["y0"]()
                if P["ham"]:
                    H = P["newH"]()
                    system = P["pu"].hamiltonian_system(H, 3)
                    fun = (lambda HH: (lambda t, y: P["pu"].ham_field(HH, y)))(H)
                else:
                    system, fun = P["system"], P["fun"]
                T = float(rng.uniform(0.3, 2.0))
                steps = int(rng.choice([2, 7, 40, 400])) if method == "adaptive" else int(rng.choice([800, 1500]))
                if method == "symplectic":
                    steps = 4000
                tol = 1e-3 if method == "symplectic" else STATE_TOL   # the extended-phase-space scheme is low order; judged by C16
                tgrid = np.linspace(0.0, T, steps)
                tag = f"{pname}:{method}{order}"

                def wit():
                    return {"problem": pname, "method": method, "order": order, "y0": y0, "T": T, "steps": steps}
                out = {}
                for fwd in (1, -1):
                    try:
                        sol = _propagate_dynsys(system, y0, 0.0, T, forward=fwd, steps=steps, method=method, order=order)
                        out[fwd] = (np.asarray(sol.times, dtype=float), np.asarray(sol.states, dtype=float))
                    except Exception as exc:
                        msg = type(exc).__name__ + repr(exc)
                        mech = MECH_HAMRHS if (P["ham"] and method != "symplectic" and ("NumbaNotImplemented" in msg or "ListType" in msg)) else None
                        ctx.check(False, "A:propagation returns for every system/method/direction",
                                  lambda: {**wit(), "forward": fwd, "error": (type(exc).__name__ + ": " + str(exc))[:300]}, mech)
                if len(out) < 2:
                    continue
                ctx.case(f"propagate:{tag}", [pname, method, order, y0.round(10).tolist(), T, steps], nontrivial=True)
                if k < 3:
                    ctx.sample(wit())
                yref_f = _ref(fun, y0, [0.0, T])[-1]
                yref_b = _ref(fun, y0, [0.0, -T])[-1]
                tf_, sf = out[1]
                tb, sb = out[-1]
                ef = np.abs(sf[-1] - yref_f).max()
                ctx.stat(f"forward_err[{method}{order}]", ef)
                ctx.check(ef <= tol, "A:forward state == flow at +t", lambda: {**wit(), "err": ef})
                eb = np.abs(sb[-1] - yref_b).max()
                ctx.stat(f"backward_err[{method}{order}]", eb)
                mech = None
                if eb > tol and P["tdep"]:
                    ywrong = _ref(lambda s, y: -fun(s, y), y0, [0.0, T])[-1]
                    if np.abs(sb[-1] - ywrong).max() <= 10 * tol:
                        mech = MECH_TDEP
                ctx.check(eb <= tol, "A:backward state == state the flow had at time -t", lambda: {**wit(), "err": eb, "lib": sb[-1], "ref": yref_b}, mech)
                # time stamps
                ok_t = tb[0] == 0.0 and np.all(tb <= 0.0) and np.all(np.diff(tb) < 0) and np.allclose(tb, -tgrid, rtol=0, atol=1e-14 * T)
                mech = None
                if not ok_t and method == "symplectic" and np.allclose(tb, tgrid, rtol=0, atol=1e-14 * T):
                    mech = MECH_SYMP_TIMES
                ctx.check(ok_t, "B:backward time stamps are 0, non-positive, decreasing, == -linspace", lambda: {**wit(), "times_head": tb[:4], "t_end": tb[-1]}, mech)
                ctx.check(np.array_equal(tf_, tgrid), "B:forward time stamps == requested grid", lambda: {**wit(), "times_head": tf_[:4]})
                ctx.check(np.array_equal(sb[0], y0) and np.array_equal(sf[0], y0), "C:first sample is the initial state (bitwise)", wit)
                # intermediate samples sit at the signed times
                if steps >= 7 and method != "symplectic":
                    j = steps // 2
                    ym = _ref(fun, y0, [0.0, -tgrid[j]])[-1]
                    em = np.abs(sb[j] - ym).max()
                    m2 = MECH_TDEP if (em > tol and P["tdep"]) else None
                    ctx.check(em <= tol, "A:intermediate backward sample == flow at its signed time", lambda: {**wit(), "err": em, "j": j}, m2)
                # round trip: forward then backward of equal length
                try:
                    sol2 = _propagate_dynsys(system, sf[-1], 0.0, T, forward=-1, steps=steps, method=method, order=order)
                    er = np.abs(np.asarray(sol2.states)[-1] - y0).max()
                    ctx.stat(f"roundtrip_err[{method}{order}]", er)
                    if P["tdep"]:
                        # for an explicitly time dependent field a round trip from time T needs the absolute time; the API
                        # restarts at 0, so only the autonomous systems are judged on the round trip
                        ctx.count("D:round trip skipped for time-dependent rhs (API restarts the clock)")
                    else:
                        ctx.check(er <= 10 * tol, "D:forward then backward returns to the start", lambda: {**wit(), "err": er})
                except Exception as exc:
                    ctx.check(False, "D:round trip propagation returns", lambda: {**wit(), "error": repr(exc)[:200]})


def selective_flip(ctx, probs, reps):
    """flip_indices: the documented modified field (only the listed derivative components negated)."""
    from hiten.algorithms.dynamics.base import _propagate_dynsys
    rng = ctx.rng
    P = probs["user_autonomous"]
    for rep in range(reps):
        if not ctx.mine(rep):
            continue
        y0 = P["y0"]()
        y0[3] = 0.0      # linear oscillator: a partially flipped field is hyperbolic; with the cubic term it would blow up in finite time
        T = float(rng.uniform(0.3, 1.5))
        flip = [[0], [1], [0, 1], [1, 0]][rep % 4]

        def modified(t, y):
            d = P["fun"](t, y)
            d[flip] *= -1
            return d
        # the reference comes FIRST: a modified field that blows up must never be handed to the library (an adaptive integrator
        # then shrinks its step below the resolution of t and does not terminate — observed as a 2 h hang of the thorough tier)
        try:
            yr = _ref(modified, y0, [0.0, T])[-1]
        except AssertionError:
            ctx.skip("modified (partially flipped) field blows up within the span: reference not available")
            continue
        if not np.all(np.isfinite(yr)) or np.abs(yr).max() > 1e2:
            ctx.skip("modified (partially flipped) field grows beyond 1e2 within the span")
            continue
        for (method, order) in (("fixed", 8), ("adaptive", 8)):
            sol = _propagate_dynsys(P["system"], y0, 0.0, T, forward=-1, steps=300, method=method, order=order, flip_indices=flip)
            e = np.abs(np.asarray(sol.states)[-1] - yr).max()
            ctx.case("selective_flip", [y0.tolist(), T, flip, method], nontrivial=True)
            ctx.check(e <= STATE_TOL * max(1.0, np.abs(yr).max()), "E:selective flip integrates exactly the documented modified field",
                      {"y0": y0, "T": T, "flip": flip, "method": method, "err": e})
            ctx.check(np.asarray(sol.times)[-1] == -T, "E:selective flip times signed", {"t_end": np.asarray(sol.times)[-1]})


def low_level_grids(ctx, probs, reps):
    rng = ctx.rng
    combos = [("fixed", 4), ("fixed", 6), ("fixed", 8), ("adaptive", 5), ("adaptive", 8)]
    k = -1
    for pname in ("user_autonomous", "user_time_dependent", "cr3bp", "poly_hamiltonian"):
        P = probs[pname]
        for (method, order) in combos + ([("symplectic", 4)] if P["ham"] else []):
            integ = make_integrator(method, order)
            for rep in range(reps):
                k += 1
                if not ctx.mine(k):
                    continue
                y0 = P["y0"]()
                if P["ham"]:
                    H = P["newH"]()
                    system = P["pu"].hamiltonian_system(H, 3)
                    fun = (lambda HH: (lambda t, y: P["pu"].ham_field(HH, y)))(H)
                else:
                    system, fun = P["system"], P["fun"]
                T = float(rng.uniform(0.3, 1.5))
                n = int(rng.choice([2, 5, 60])) if method == "adaptive" else int(rng.choice([600, 1200]))
                if method == "symplectic":
                    n = 3000
                tol = 1e-3 if method == "symplectic" else STATE_TOL
                kinds = {"ascending_uniform": np.linspace(0.0, T, n),
                         # fixed-step and symplectic schemes take one step per node interval: graded (still fine) spacing
                         "ascending_nonuniform": np.concatenate([[0.0], np.sort(rng.uniform(0, T, n - 2)), [T]]) if method == "adaptive" else T * np.linspace(0.0, 1.0, n) ** float(rng.uniform(1.3, 2.0)),
                         "ascending_offset_start": np.linspace(0.37, 0.37 + T, n),
                         "descending": np.linspace(0.0, -T, n),
                         "descending_offset_start": np.linspace(0.9, 0.9 - T, n),
                         "descending_nonuniform": -T * np.linspace(0.0, 1.0, n) ** float(rng.uniform(1.3, 2.0))}
                # legitimate grids whose span is short compared with their distance from the origin, or short in absolute terms:
                # nothing in the statement exempts them ("all spans"); a zero-span shortcut must not swallow them
                t_far = float(rng.choice([40.0, 1000.0]) * rng.uniform(0.5, 1.5))
                sp_far = t_far * 10.0 ** float(rng.uniform(-7.5, -5.3))
                sp_tiny = 10.0 ** float(rng.uniform(-11.0, -8.3))
                n_s = int(rng.choice([2, 3, 9]))
                kinds.update({"ascending_short_span_far_start": np.linspace(t_far, t_far + sp_far, n_s),
                              "descending_short_span_far_start": np.linspace(t_far, t_far - sp_far, n_s),
                              "ascending_tiny_span": np.linspace(0.0, sp_tiny, n_s),
                              "descending_tiny_span": np.linspace(0.0, -sp_tiny, n_s)})
                for gname, grid in kinds.items():
                    if len(np.unique(grid)) < len(grid):
                        continue
                    if P["ham"] and gname.endswith("offset_start") and method == "symplectic":
                        pass

                    def wit():
                        return {"problem": pname, "method": method, "order": order, "grid": gname, "y0": y0, "T": T, "n": n,
                                "grid_head": grid[:4], "grid_end": grid[-1]}
                    try:
                        sol = integ.integrate(system, y0.copy(), grid.copy())
                        times = np.asarray(sol.times, dtype=float)
                        states = np.asarray(sol.states, dtype=float)
                    except Exception as exc:
                        if gname.startswith("descending"):
                            ctx.count("F:descending grid rejected (accepted outcome)")
                            ctx.case(f"grid:{gname}:{method}{order}:rejected", [pname, method, order, gname], nontrivial=True)
                        else:
                            ctx.check(False, "G:ascending grid integrates", lambda: {**wit(), "error": (type(exc).__name__ + ": " + str(exc))[:300]})
                        continue
                    ctx.case(f"grid:{gname}:{method}{order}", [pname, method, order, gname, y0.round(10).tolist(), T, n], nontrivial=True)
                    short = "short_span" in gname or "tiny_span" in gname
                    if short:
                        # over such a span the flow is its low-order Taylor polynomial to rounding: independent closed-form reference
                        # y0 + f dt + (f(t0 + dt, y0 + f dt) - f) dt / 2 (second-order, remainder O(dt^3)); tolerance relative to the change
                        f0 = np.asarray(fun(grid[0], y0), dtype=float)
                        yr = np.array([y0 + 0.5 * (t_ - grid[0]) * (f0 + np.asarray(fun(t_, y0 + (t_ - grid[0]) * f0), dtype=float)) for t_ in grid])
                        change = float(np.abs(yr[-1] - y0).max())
                        tol_here = 1e-3 * change + 8e-16 * (1.0 + float(np.abs(y0).max())) * (1 + len(grid))
                    else:
                        yr = _ref(fun, y0, grid)
                        tol_here = tol
                    e = np.abs(states - yr).max() if states.shape == yr.shape else np.inf
                    ctx.stat(f"grid_err[{gname}:{method}{order}]" if not short else f"short_grid_err/change[{gname}]", e if not short else e / max(change, 1e-300))
                    if short:
                        mech = MECH_ZEROSPAN if (e > tol_here and states.shape == yr.shape and np.all(states == y0[None, :])) else None
                        cl = ("F:descending grid is integrated correctly or rejected, never silently wrong" if gname.startswith("descending")
                              else "G:samples are the flow at the requested times")
                        ctx.check(e <= tol_here and np.array_equal(times, grid), cl + " [short or far-from-origin span]",
                                  lambda: {**wit(), "err": e, "change_over_span": change, "tol": tol_here, "last_state": states[-1], "ref_last": yr[-1]}, mech)
                        ctx.check(np.array_equal(states[0], y0), "C:first sample is the initial state (bitwise)", wit)
                        continue
                    if gname.startswith("descending"):
                        mech = None
                        if e > tol and states.shape == yr.shape and np.all(states == y0[None, :]) and type(integ).__name__ == "_DOP853":
                            mech = MECH_DOP_DESC
                        ctx.check(e <= tol and np.array_equal(times, grid), "F:descending grid is integrated correctly or rejected, never silently wrong",
                                  lambda: {**wit(), "err": e, "times_head": times[:4], "last_state": states[-1], "ref_last": yr[-1]}, mech)
                    else:
                        ctx.check(e <= tol, "G:samples are the flow at the requested times", lambda: {**wit(), "err": e})
                        ctx.check(np.array_equal(times, grid), "G:returned times are exactly the requested times", lambda: {**wit(), "times_head": times[:4]})
                    ctx.check(np.array_equal(states[0], y0), "C:first sample is the initial state (bitwise)", wit)
                    # the returned solution object evaluated BETWEEN its nodes (its own documented interpolation: cubic Hermite when it
                    # carries derivatives, linear otherwise): on either grid orientation within the linear-interpolation error of the interval
                    if e <= tol and hasattr(sol, "interpolate") and len(grid) >= 3:
                        kk = rng.integers(0, len(grid) - 1, 6)
                        tq = grid[kk] + rng.uniform(0.2, 0.8, 6) * (grid[kk + 1] - grid[kk])
                        tq = np.array(sorted(set(tq.tolist()), reverse=bool(grid[-1] < grid[0])))
                        try:
                            yi = np.asarray(sol.interpolate(tq), dtype=float)
                        except Exception as exc:
                            ctx.count("I:solution.interpolate declined (raised) — accepted")
                            continue
                        yq = _ref(fun, y0, np.concatenate([[grid[0]], tq]))[1:]
                        fn = np.array([np.asarray(fun(t_, y_), dtype=float) for t_, y_ in zip(grid, yr)])
                        hh = np.abs(np.diff(grid))
                        S2 = float(np.max(np.abs(np.diff(fn, axis=0)).max(axis=1) / hh))
                        bound = 1.5 * float(hh.max()) ** 2 / 8.0 * S2 + 10 * tol
                        ei = float(np.abs(yi - yq).max()) if yi.shape == yq.shape else np.inf
                        ctx.stat(f"interpolate_err/linear_bound[{'descending' if grid[-1] < grid[0] else 'ascending'}:{method}]", ei / bound)
                        ctx.check(ei <= bound, "I:solution.interpolate(t) between the nodes == flow at t within the linear-interpolation error of the interval"
                                  + (" [descending grid]" if grid[-1] < grid[0] else " [ascending grid]"),
                                  lambda: {**wit(), "query_times": tq, "err": ei, "bound": bound})


def system_propagate(ctx, probs, reps):
    rng = ctx.rng
    P = probs["cr3bp"]
    sysm = P["hsys"]
    for rep in range(reps):
        if not ctx.mine(rep):
            continue
        y0 = P["y0"]()
        T = float(rng.uniform(0.5, 4.0))
        method, order = [("adaptive", 8), ("adaptive", 5), ("fixed", 8), ("fixed", 6), ("fixed", 4)][rep % 5]
        steps = 50 if method == "adaptive" else 3000
        tr = sysm.propagate(y0, tf=T, steps=steps, method=method, order=order, forward=-1)
        t, S = np.asarray(tr.times, dtype=float), np.asarray(tr.states, dtype=float)
        path = _ref(P["fun"], y0, np.linspace(0.0, -T, 200))
        yr = path[-1]
        mu_ = float(sysm.mu)
        rmin = min(np.sqrt((path[:, 0] + mu_) ** 2 + path[:, 1] ** 2 + path[:, 2] ** 2).min(),
                   np.sqrt((path[:, 0] - 1 + mu_) ** 2 + path[:, 1] ** 2 + path[:, 2] ** 2).min())
        _, Phi = ref.flow_stm(y0, mu_, -T)
        if rmin < 0.3 or np.linalg.norm(Phi, 2) > 1e3:
            ctx.skip("System.propagate case not benign (close approach or sensitive path): accuracy there is C02's subject")
            continue
        e = np.abs(S[-1] - yr).max()
        ctx.case(f"System.propagate:{method}{order}", [y0.tolist(), T], nontrivial=True)
        ctx.stat("System.propagate_backward_err", e)
        ctx.check(e <= 1e-5, "A:System.propagate(forward=-1) == flow at -t", {"y0": y0, "T": T, "method": method, "order": order, "err": e})
        ctx.check(t[0] == 0 and np.all(np.diff(t) < 0) and abs(t[-1] + T) <= 1e-13 * T, "B:System.propagate backward times signed",
                  {"times_head": t[:3], "t_end": t[-1], "T": T})
        ctx.check(np.array_equal(S[0], y0), "C:first sample is the initial state (bitwise)", {"y0": y0})


def system_propagate_tiny(ctx, probs, reps):
    """System.propagate over very short durations (forward and backward): the state must move by f dt, not stay put."""
    rng = ctx.rng
    P = probs["cr3bp"]
    sysm = P["hsys"]
    for rep in range(reps):
        if not ctx.mine(rep):
            continue
        y0 = P["y0"]()
        T = 10.0 ** float(rng.uniform(-11.0, -8.3))
        method, order = [("adaptive", 8), ("adaptive", 5), ("fixed", 8), ("fixed", 4)][rep % 4]
        fw = 1 if rep % 2 else -1
        tr = sysm.propagate(y0, tf=T, steps=int(rng.choice([2, 5])), method=method, order=order, forward=fw)
        t, S = np.asarray(tr.times, dtype=float), np.asarray(tr.states, dtype=float)
        f0 = P["fun"](0.0, y0)
        yr = y0 + fw * T * f0
        change = float(np.abs(yr - y0).max())
        e = float(np.abs(S[-1] - yr).max())
        ctx.case(f"System.propagate:tiny-span:{method}{order}:{'fwd' if fw > 0 else 'bwd'}", [y0.tolist(), T], nontrivial=True)
        mech = MECH_ZEROSPAN if (e > 1e-3 * change + 1e-15 and np.all(S == y0[None, :])) else None
        ctx.check(e <= 1e-3 * change + 1e-15, "A:System.propagate over a very short duration == flow (state moves by f dt)",
                  {"y0": y0, "T": T, "method": method, "order": order, "forward": fw, "err": e, "change_over_span": change, "last_state": S[-1]}, mech)
        ctx.check(t[0] == 0 and abs(t[-1] - fw * T) <= 1e-13 * T, "B:System.propagate times signed (short duration)", {"times": t, "T": T, "forward": fw})


def run(ctx):
    ctx.note("rule", "case = one (system family, integrator, order, direction/grid kind, random initial state/span) execution; all are non-trivial; "
                     "families: user autonomous rhs, user time-dependent rhs, CR3BP, polynomial Hamiltonian, 42-D variational (thorough)")
    probs = make_problems(ctx)
    guarded(ctx, "propagate", propagate_level, ctx, probs, ctx.pick(2, 12))
    guarded(ctx, "selective_flip", selective_flip, ctx, probs, ctx.pick(4, 60))
    guarded(ctx, "low_level", low_level_grids, ctx, probs, ctx.pick(1, 8))
    guarded(ctx, "System.propagate", system_propagate, ctx, probs, ctx.pick(10, 80))
    guarded(ctx, "System.propagate tiny", system_propagate_tiny, ctx, probs, ctx.pick(8, 80))
    m = 1 if ctx.nshards > 1 else 3
    ctx.require("A:backward state == state the flow had at time -t", 5 * m)
    ctx.require("B:backward time stamps are 0, non-positive, decreasing, == -linspace", 5 * m)
    ctx.require("G:samples are the flow at the requested times", 5 * m)
    ctx.require("E:selective flip integrates exactly the documented modified field", 2)
