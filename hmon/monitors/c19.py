"""C19 — reported connections are geometrically and kinematically what they claim.

Events: _ConnectionsBackend.run(ConnectionsBackendRequest(...)).results and the geometric kernels.
Oracle: brute-force mutual nearest neighbours; exact closest points of two segments by candidate enumeration.
"""
from __future__ import annotations

import numpy as np

from ..core import guarded

MECH_DEGENERATE = "closest-points-degenerate-parallel-segments"


# ------------------------------------------------------------------ geom2d oracle
def _pt_seg(p, a, b):
    ab = b - a
    L2 = float(ab @ ab)
    if L2 == 0.0:
        return float(np.hypot(*(p - a))), a.copy()
    t = min(1.0, max(0.0, float((p - a) @ ab) / L2))
    q = a + t * ab
    return float(np.hypot(*(p - q))), q


def _segments_intersect(a0, a1, b0, b1):
    def orient(p, q, r):
        return (q[0] - p[0]) * (r[1] - p[1]) - (q[1] - p[1]) * (r[0] - p[0])
    d1, d2 = orient(b0, b1, a0), orient(b0, b1, a1)
    d3, d4 = orient(a0, a1, b0), orient(a0, a1, b1)
    return (d1 * d2 < 0) and (d3 * d4 < 0)


def seg_seg_distance(a0, a1, b0, b1):
    """Exact minimum distance between two closed 2-D segments (candidate enumeration)."""
    if _segments_intersect(a0, a1, b0, b1):
        return 0.0
    return min(_pt_seg(a0, b0, b1)[0], _pt_seg(a1, b0, b1)[0], _pt_seg(b0, a0, a1)[0], _pt_seg(b1, a0, a1)[0])


# ------------------------------------------------------------------ segments
def gen_segment_pair(rng, cls):
    sc = 10.0 ** rng.uniform(-3, 1)
    a0 = rng.normal(size=2) * sc
    if cls == "generic":
        a1, b0, b1 = (rng.normal(size=2) * sc for _ in range(3))
    elif cls == "crossing":
        a1 = a0 + rng.normal(size=2) * sc
        m = a0 + rng.uniform(0.1, 0.9) * (a1 - a0)
        d = rng.normal(size=2) * sc
        b0, b1 = m - rng.uniform(0.1, 1) * d, m + rng.uniform(0.1, 1) * d
    elif cls == "tjunction":
        a1 = a0 + rng.normal(size=2) * sc
        b0 = a0 + rng.uniform(0, 1) * (a1 - a0)
        b1 = b0 + rng.normal(size=2) * sc
    elif cls == "parallel":
        u = rng.normal(size=2) * sc
        a1 = a0 + u
        n = np.array([-u[1], u[0]])
        b0 = a0 + rng.uniform(-2, 2) * u + rng.uniform(-1, 1) * n
        b1 = b0 + rng.uniform(-2, 2) * u
    elif cls == "parallel_exact":   # axis-aligned with dyadic coordinates -> den == 0 exactly
        q = lambda: float(rng.integers(-8, 9)) / 4.0
        if rng.random() < 0.5:
            ya, yb = q(), q()
            a0, a1 = np.array([q(), ya]), np.array([q(), ya])
            b0, b1 = np.array([q(), yb]), np.array([q(), yb])
        else:
            xa, xb = q(), q()
            a0, a1 = np.array([xa, q()]), np.array([xa, q()])
            b0, b1 = np.array([xb, q()]), np.array([xb, q()])
    elif cls == "collinear":
        q = lambda: float(rng.integers(-8, 9)) / 4.0
        d = np.array([[1.0, 0.0], [0.0, 1.0], [1.0, 1.0], [1.0, -1.0]][int(rng.integers(4))])
        o = np.array([q(), q()])
        a0, a1, b0, b1 = (o + q() * d for _ in range(4))
    elif cls == "zero_len_a":
        a1 = a0.copy()
        b0, b1 = rng.normal(size=2) * sc, rng.normal(size=2) * sc
    elif cls == "zero_len_b":
        a1 = rng.normal(size=2) * sc
        b0 = rng.normal(size=2) * sc
        b1 = b0.copy()
    elif cls == "zero_len_both":
        a1 = a0.copy()
        b0 = rng.normal(size=2) * sc
        b1 = b0.copy()
    else:
        raise ValueError(cls)
    return a0, a1, b0, b1


SEG_CLASSES = ["generic", "crossing", "tjunction", "parallel", "parallel_exact", "collinear", "zero_len_a", "zero_len_b", "zero_len_both"]


def segments(ctx, n):
    from hiten.algorithms.connections.backends import _closest_points_on_segments_2d
    rng = ctx.rng
    for it in range(n):
        if not ctx.mine(it):
            continue
        cls = SEG_CLASSES[it % len(SEG_CLASSES)]
        a0, a1, b0, b1 = gen_segment_pair(rng, cls)
        ctx.case(f"segments:{cls}", [a0.tolist(), a1.tolist(), b0.tolist(), b1.tolist()], nontrivial=True)
        s, t, px, py, qx, qy = _closest_points_on_segments_2d(a0[0], a0[1], a1[0], a1[1], b0[0], b0[1], b1[0], b1[1])
        scale = max(np.abs(np.concatenate([a0, a1, b0, b1])).max(), 1e-300)
        p = np.array([px, py])
        q = np.array([qx, qy])

        def wit():
            return {"class": cls, "a0": a0, "a1": a1, "b0": b0, "b1": b1, "s": s, "t": t, "p": p, "q": q,
                    "lib_distance": float(np.hypot(*(p - q))), "true_distance": seg_seg_distance(a0, a1, b0, b1)}
        if it < 3:
            ctx.sample(wit())
        ctx.check(0.0 <= s <= 1.0 and 0.0 <= t <= 1.0, "S:parameters in [0,1]", wit)
        ctx.check(np.abs(p - (a0 + s * (a1 - a0))).max() <= 1e-14 * scale and np.abs(q - (b0 + t * (b1 - b0))).max() <= 1e-14 * scale,
                  "S:p on segment A at s, q on segment B at t", wit)
        dl = float(np.hypot(*(p - q)))
        dt = seg_seg_distance(a0, a1, b0, b1)
        den_zero = cls in ("parallel_exact", "collinear", "zero_len_a", "zero_len_b", "zero_len_both")
        # conditioning: near-parallel segments lose digits in den; allow 1e-9*scale, exact classes 1e-12
        # conditioning: the line-line solution loses digits like eps/sin(theta) for nearly parallel segments
        u_, v_ = a1 - a0, b1 - b0
        nu_, nv_ = np.hypot(*u_), np.hypot(*v_)
        sin_t = abs(u_[0] * v_[1] - u_[1] * v_[0]) / (nu_ * nv_) if nu_ > 0 and nv_ > 0 else 1.0
        tol = (1e-12 if den_zero or cls in ("crossing", "tjunction") else 1e-9) * scale + 1e-9 * dt
        if not den_zero and sin_t > 0:
            tol += 50 * np.finfo(float).eps * scale / sin_t
        ctx.stat(f"closest_distance_excess/scale[{cls}]", (dl - dt) / scale)
        mech = None
        if dl - dt > tol:
            u, v = a1 - a0, b1 - b0
            den = (u @ u) * (v @ v) - (u @ v) ** 2
            if den <= 1e-12 * max((u @ u) * (v @ v), 1e-300) and s == 0.0 and t == 0.0:
                mech = MECH_DEGENERATE
        ctx.check(dl - dt <= tol, "S:|p-q| is the true minimum distance of the two segments", wit, mech)


# ------------------------------------------------------------------ clouds
def gen_cloud_pair(rng, cls, scale=1.0):
    nu, ns = int(rng.integers(0, 60)), int(rng.integers(0, 60))
    if cls == "random":
        pu, ps = rng.uniform(-1, 1, (nu, 2)), rng.uniform(-1, 1, (ns, 2))
    elif cls == "clustered":
        c = rng.uniform(-1, 1, (3, 2))
        pu = c[rng.integers(3, size=nu)] + rng.normal(size=(nu, 2)) * 0.02
        ps = c[rng.integers(3, size=ns)] + rng.normal(size=(ns, 2)) * 0.02
    elif cls == "grid":   # many exact ties
        pu = rng.integers(-4, 5, (nu, 2)).astype(float) / 4
        ps = rng.integers(-4, 5, (ns, 2)).astype(float) / 4 + np.array([0.125, 0.0])
    elif cls == "collinear":
        pu = np.column_stack([rng.uniform(-1, 1, nu), np.zeros(nu)])
        ps = np.column_stack([rng.uniform(-1, 1, ns), np.full(ns, 0.01)])
    elif cls == "duplicated":
        base = rng.uniform(-1, 1, (max(1, nu // 2), 2))
        pu = base[rng.integers(len(base), size=nu)] if nu else np.empty((0, 2))
        ps = np.vstack([base[rng.integers(len(base), size=ns // 2)] + 1e-3, rng.uniform(-1, 1, (ns - ns // 2, 2))]) if ns else np.empty((0, 2))
    elif cls == "curves":  # two sampled curves crossing each other, like real section cuts of manifolds
        nu, ns = max(nu, 5), max(ns, 5)
        tu, ts = np.sort(rng.uniform(0, 1, nu)), np.sort(rng.uniform(0, 1, ns))
        pu = np.column_stack([tu * 2 - 1, 0.3 * np.sin(5 * tu + rng.uniform(0, 6))])
        ps = np.column_stack([0.3 * np.cos(4 * ts + rng.uniform(0, 6)), ts * 2 - 1])
    elif cls in ("far_from_origin", "tiny_radius"):
        # search radius many orders below the size of the coordinates (clouds far from the origin of the plane, or a very tight radius
        # at ordinary scale): squared distances must be formed from coordinate differences, not from differences of squares
        nu, ns = max(nu, 6), max(ns, 6)
        pu = rng.uniform(-1, 1, (nu, 2))
        k = min(nu, ns)
        ps = rng.uniform(-1, 1, (ns, 2))
        ps[:k] = pu[:k] + rng.normal(size=(k, 2)) * 0.02          # partners at 0.2 ... 3 search radii (radius set by the caller: ~0.01-0.03)
    else:
        raise ValueError(cls)
    # section geometry at the scale of real use (default search radius 1e-4): squared distances down to 1e-16
    pu = np.asarray(pu, dtype=float) * scale
    ps = np.asarray(ps, dtype=float) * scale
    Xu = np.zeros((len(pu), 6))
    Xs = np.zeros((len(ps), 6))
    a, b = rng.choice(3, size=2, replace=False)
    Xu[:, a], Xu[:, b] = pu[:, 0], pu[:, 1]
    Xs[:, a], Xs[:, b] = ps[:, 0], ps[:, 1]
    vs = 10.0 ** rng.uniform(-9, 0)
    Xu[:, 3:] = rng.normal(size=(len(pu), 3)) * vs
    Xs[:, 3:] = rng.normal(size=(len(ps), 3)) * vs
    if rng.random() < 0.3 and len(pu) and len(ps):   # some exactly equal velocities -> dv == 0
        k = min(len(pu), len(ps))
        Xs[:k, 3:] = Xu[:k, 3:]
    return pu, ps, Xu, Xs


CLOUD_CLASSES = ["random", "clustered", "grid", "collinear", "duplicated", "curves", "far_from_origin", "tiny_radius"]


def judge_clouds(ctx, cls, it, scale, pu, ps, Xu, Xs, tiu, tis, eps, dv_tol, bal_tol, res):
    """Brute-force oracle for one back-end execution: request clouds (pu, ps, Xu, Xs, ...) and the results it returned."""
    from hiten.algorithms.connections.backends import _nearest_neighbor_2d, _radius_pairs_2d

    def wit():
        return {"class": cls, "scale": scale, "nu": len(pu), "ns": len(ps), "eps": eps, "dv_tol": dv_tol, "bal_tol": bal_tol,
                "pu": pu, "ps": ps, "seed": ctx.seed, "index": it}
    ctx.case(f"clouds:{cls}", [it, ctx.seed, len(pu), len(ps), eps], nontrivial=len(res) > 0)
    if it < 3:
        ctx.sample({"class": cls, "nu": len(pu), "ns": len(ps), "eps": eps, "dv_tol": dv_tol, "bal_tol": bal_tol, "n_results": len(res)})
    if len(pu) == 0 or len(ps) == 0:
        ctx.check(len(res) == 0, "K:empty cloud gives no connection", wit)
        return
    D = np.hypot(pu[:, None, 0] - ps[None, :, 0], pu[:, None, 1] - ps[None, :, 1])
    D2 = (pu[:, None, 0] - ps[None, :, 0]) ** 2 + (pu[:, None, 1] - ps[None, :, 1]) ** 2
    within = D2 <= eps * eps * (1 + 1e-12)
    dvs = [r.delta_v for r in res]
    ctx.check(all(a <= b for a, b in zip(dvs[:-1], dvs[1:])), "K:results sorted by delta_v", lambda: {**wit(), "dv": dvs})
    seen_i, seen_j = set(), set()
    nn_u = np.asarray(_nearest_neighbor_2d(pu)) if len(pu) >= 2 else None
    nn_s = np.asarray(_nearest_neighbor_2d(ps)) if len(ps) >= 2 else None
    for r in res:
        i, j = r.index_u, r.index_s
        ctx.check(i not in seen_i and j not in seen_j, "K:each section point used at most once", lambda: {**wit(), "i": i, "j": j})
        seen_i.add(i)
        seen_j.add(j)
        ctx.check(bool(within[i, j]), "K:pair within search radius", lambda: {**wit(), "i": i, "j": j, "d": D[i, j]})
        rowmin = np.min(np.where(within[i], D2[i], np.inf))
        colmin = np.min(np.where(within[:, j], D2[:, j], np.inf))
        ctx.check(D2[i, j] <= rowmin * (1 + 1e-12) and D2[i, j] <= colmin * (1 + 1e-12), "K:pair is mutually nearest",
                  lambda: {**wit(), "i": i, "j": j, "d2": D2[i, j], "rowmin": rowmin, "colmin": colmin})
        dv_ref = float(np.linalg.norm(np.asarray(r.state_u)[3:6] - np.asarray(r.state_s)[3:6]))
        ctx.check(r.delta_v == dv_ref, "K:delta_v == |v_u - v_s| of the reported states (bitwise)",
                  lambda: {**wit(), "lib": r.delta_v, "ref": dv_ref})
        ctx.check(r.delta_v <= dv_tol, "K:delta_v <= dv_tol", lambda: {**wit(), "dv": r.delta_v})
        near_thr = abs(r.delta_v - bal_tol) <= 4 * np.finfo(float).eps * bal_tol
        ctx.check(near_thr or ((r.kind == "ballistic") == (r.delta_v <= bal_tol)), "K:ballistic iff delta_v <= bal_tol",
                  lambda: {**wit(), "dv": r.delta_v, "kind": r.kind})
        ctx.check(r.kind in ("ballistic", "impulsive"), "K:kind label", {"kind": r.kind})
        if tiu is not None:
            ctx.check(r.trajectory_index_u == int(tiu[i]), "K:trajectory index u", wit)
        if tis is not None:
            ctx.check(r.trajectory_index_s == int(tis[j]), "K:trajectory index s", wit)
        # refined meeting point: midpoint of the truly closest points of the two local section segments
        su = np.asarray(r.state_u)
        ss = np.asarray(r.state_s)
        if nn_u is None or nn_s is None:
            ctx.check(np.array_equal(su, Xu[i]) and np.array_equal(ss, Xs[j]) and tuple(r.point2d) == (pu[i, 0], pu[i, 1]),
                      "K:no local segment -> original pair reported", wit)
            continue
        iu, js = int(nn_u[i]), int(nn_s[j])
        a0, a1, b0, b1 = pu[i], pu[iu], ps[j], ps[js]

        def recover(x, x0, x1):
            d = x1 - x0
            L2 = float(d @ d)
            if L2 == 0:
                return 0.0, float(np.abs(x - x0).max())
            s_ = float((x - x0) @ d) / L2
            return s_, float(np.abs(x - (x0 + s_ * d)).max())
        s_, rs = recover(su, Xu[i], Xu[iu])
        t_, rt = recover(ss, Xs[j], Xs[js])
        sc = max(np.abs(Xu).max(), np.abs(Xs).max(), 1e-300)
        ctx.check(rs <= 1e-12 * sc and rt <= 1e-12 * sc and -1e-12 <= s_ <= 1 + 1e-12 and -1e-12 <= t_ <= 1 + 1e-12,
                  "K:reported states lie on the local segments", lambda: {**wit(), "i": i, "j": j, "s": s_, "t": t_, "res": [rs, rt]})
        p = a0 + s_ * (a1 - a0)
        q = b0 + t_ * (b1 - b0)
        scale = max(np.abs(pu).max(), np.abs(ps).max())
        mid_ok = np.abs(np.asarray(r.point2d) - 0.5 * (p + q)).max() <= 1e-9 * scale
        orig_ok = (s_ == 0 and t_ == 0 and tuple(r.point2d) == (pu[i, 0], pu[i, 1]))
        degenerate_seg = (iu == i or js == j)
        if degenerate_seg:
            ctx.check(orig_ok or mid_ok, "K:fallback point for points without a local segment", wit)
            continue
        dl = float(np.hypot(*(p - q)))
        dtrue = seg_seg_distance(a0, a1, b0, b1)
        u, v = a1 - a0, b1 - b0
        den = (u @ u) * (v @ v) - (u @ v) ** 2
        tol = 1e-9 * scale + 1e-9 * dtrue
        mech = None
        if dl - dtrue > tol and den <= 1e-12 * max((u @ u) * (v @ v), 1e-300):
            mech = MECH_DEGENERATE
        ctx.check(mid_ok, "K:point2d is the midpoint of the reported closest points",
                  lambda: {**wit(), "i": i, "j": j, "point2d": r.point2d, "mid": 0.5 * (p + q)})
        ctx.check(dl - dtrue <= tol, "K:refined points are the truly closest points of the local segments",
                  lambda: {**wit(), "i": i, "j": j, "lib_distance": dl, "true_distance": dtrue, "a0": a0, "a1": a1, "b0": b0, "b1": b1}, mech)
    # completeness: every strictly mutual nearest pair within eps whose (vertex) mismatch is far below dv_tol must appear
    for i in range(len(pu)):
        row = np.where(within[i], D2[i], np.inf)
        j = int(np.argmin(row))
        if not np.isfinite(row[j]):
            continue
        col = np.where(within[:, j], D2[:, j], np.inf)
        strict_row = np.sum(row <= row[j] * (1 + 1e-9) + 1e-300) == 1
        strict_col = np.sum(col <= col[i] * (1 + 1e-9) + 1e-300) == 1 and int(np.argmin(col)) == i
        if strict_row and strict_col and D2[i, j] <= eps * eps * (1 - 1e-9):
            # velocity mismatch of *any* point on the two local segments is bounded by the max over segment ends
            cand_u = [Xu[i, 3:6]] + ([Xu[int(nn_u[i]), 3:6]] if nn_u is not None else [])
            cand_s = [Xs[j, 3:6]] + ([Xs[int(nn_s[j]), 3:6]] if nn_s is not None else [])
            dvmax = max(np.linalg.norm(a - b) for a in cand_u for b in cand_s)
            if dvmax <= dv_tol * (1 - 1e-9):
                ctx.check(any(r.index_u == i and r.index_s == j for r in res), "K:every admissible mutual pair reported",
                          lambda: {**wit(), "i": i, "j": j, "dvmax": dvmax})
    # radius search kernel against brute force
    pr = np.asarray(_radius_pairs_2d(pu, ps, eps))
    got = set(map(tuple, pr.tolist()))
    strict_in = set(zip(*np.nonzero(D2 <= eps * eps * (1 - 1e-12))))
    loose_in = set(zip(*np.nonzero(D2 <= eps * eps * (1 + 1e-12))))
    ctx.check(strict_in <= got <= loose_in and len(got) == len(pr), "K:radius pairs == brute force",
              lambda: {**wit(), "missing": sorted(strict_in - got)[:5], "extra": sorted(got - loose_in)[:5]})
    if nn_u is not None:
        Du = np.hypot(pu[:, None, 0] - pu[None, :, 0], pu[:, None, 1] - pu[None, :, 1]) + np.diag(np.full(len(pu), np.inf))
        ctx.check(all(Du[k, nn_u[k]] <= Du[k].min() * (1 + 1e-12) + 1e-300 and nn_u[k] != k for k in range(len(pu))),
                  "K:nearest neighbour == brute force", wit)




def clouds(ctx, n):
    from hiten.algorithms.connections.backends import _ConnectionsBackend, _nearest_neighbor_2d, _radius_pairs_2d
    from hiten.algorithms.connections.types import ConnectionsBackendRequest
    be = _ConnectionsBackend()
    rng = ctx.rng
    for it in range(n):
        if not ctx.mine(it):
            continue
        cls = CLOUD_CLASSES[it % len(CLOUD_CLASSES)]
        scale = float(10.0 ** -int(rng.choice([0, 0, 2, 4, 6])))
        pu, ps, Xu, Xs = gen_cloud_pair(rng, cls, scale)
        eps = float(10.0 ** rng.uniform(-3, 0.3)) * scale
        if cls in ("far_from_origin", "tiny_radius"):
            eps = float(rng.uniform(0.01, 0.03))
            shrink = 10.0 ** float(rng.uniform(-9, -4))                    # cloud (and radius) shrunk to this size ...
            centre = (rng.uniform(-1, 1, 2) * 10.0 ** float(rng.uniform(3, 4.2))) if cls == "far_from_origin" else rng.uniform(-1, 1, 2)
            pu, ps, eps = centre + pu * shrink, centre + ps * shrink, eps * shrink   # ... around a centre of ordinary or large size
            Xu[:, :3] = 0.0
            Xs[:, :3] = 0.0
            Xu[:, 0], Xu[:, 1] = pu[:, 0], pu[:, 1]
            Xs[:, 0], Xs[:, 1] = ps[:, 0], ps[:, 1]
        dv_tol = float(10.0 ** rng.uniform(-9, 1))
        bal_tol = float(dv_tol * 10.0 ** rng.uniform(-4, 0.5))
        tiu = rng.integers(0, 5, len(pu)) if rng.random() < 0.5 else None
        tis = rng.integers(0, 5, len(ps)) if rng.random() < 0.5 else None
        req = ConnectionsBackendRequest(points_u=pu.copy(), points_s=ps.copy(), states_u=Xu.copy(), states_s=Xs.copy(),
                                        traj_indices_u=tiu, traj_indices_s=tis, eps=eps, dv_tol=dv_tol, bal_tol=bal_tol)

        try:
            res = be.run(req).results
        except Exception as exc:
            ctx.check(False, "K:backend returns", {"class": cls, "scale": scale, "nu": len(pu), "ns": len(ps), "eps": eps, "dv_tol": dv_tol,
                                                   "bal_tol": bal_tol, "pu": pu, "ps": ps, "seed": ctx.seed, "index": it, "error": repr(exc)[:300]})
            continue
        judge_clouds(ctx, cls, it, scale, pu, ps, Xu, Xs, tiu, tis, eps, dv_tol, bal_tol, res)



# ------------------------------------------------------------------ end to end: ConnectionPipeline.solve on real manifolds
AX = {"x": 0, "y": 1, "z": 2, "vx": 3, "vy": 4, "vz": 5}


def _crossings(traj, axis, offset):
    """Independent detection on the stored samples: indices k of segments [k, k+1] across which g = state[axis] - offset changes sign
    (or whose left end lies exactly on the surface)."""
    X = np.asarray(traj.states, dtype=float)
    g = X[:, axis] - offset
    ks = [k for k in range(len(g) - 1) if (g[k] == 0.0) or (g[k] * g[k + 1] < 0.0)]
    if len(g) and g[-1] == 0.0:
        ks.append(len(g) - 2)
    return X, g, ks


def endtoend(ctx, n_solves):
    """Public path: ConnectionPipeline.solve(source, target, options) on computed manifolds. The back-end request is recorded at the
    engine/back-end boundary (interposition on _ConnectionsBackend.run); the clouds it carries are compared with an independent
    crossing detection on the manifolds' own trajectories, the options with those handed to solve(), the results with brute force."""
    from hiten import System
    from hiten.algorithms.connections import ConnectionPipeline
    from hiten.algorithms.connections.backends import _ConnectionsBackend
    from hiten.algorithms.connections.config import ConnectionConfig
    from hiten.algorithms.connections.options import ConnectionOptions
    from hiten.algorithms.poincare import SynodicMapConfig
    rng = ctx.rng
    system = System.from_bodies("earth", "moon")
    mu = float(system.mu)
    l1, l2 = system.get_libration_point(1), system.get_libration_point(2)
    o1 = l1.create_orbit("halo", amplitude_z=0.2, zenith="southern")
    o1.correct()
    o1.propagate()
    o2 = l2.create_orbit("halo", amplitude_z=0.2, zenith="northern")
    o2.correct()
    o2.propagate()
    mans = {}

    def manifold(which, stable, direction, fraction=0.8):
        key = (which, stable, direction, fraction)
        if key not in mans:
            m = (o1 if which == 1 else o2).manifold(stable=stable, direction=direction)
            m.compute(step=0.05, integration_fraction=fraction)
            mans[key] = m
        return mans[key]

    recorded = []
    orig = _ConnectionsBackend.run

    def rec(self, request=None, *a, **kw):
        out = orig(self, request, *a, **kw) if request is not None else orig(self, *a, **kw)
        recorded.append((request if request is not None else (a[0] if a else None), out))
        return out
    _ConnectionsBackend.run = rec
    try:
        # (source, target): unstable of L1 towards the Moon with stable of L2 towards the Moon, and the reverse roles / order
        # unstable/stable branches whose section clouds overlap (same neighbourhood of the Moon), in both argument orders, and one
        # L1-L2 pair with a longer stable branch
        pairs = [((1, False, "positive"), (1, True, "positive")), ((2, False, "negative"), (2, True, "negative")),
                 ((1, True, "positive"), (1, False, "positive")), ((2, False, "positive"), (2, True, "negative")),
                 ((1, False, "positive"), (2, True, "negative", 1.6))]
        sections = [("y", 0.0, ("x", "z")), ("y", 0.0, ("x", "vx")), ("y", 0.01, ("x", "z")), ("x", 1 - mu, ("y", "z")), ("y", -0.02, ("x", "vx")), ("x", 1 - mu, ("y", "vy"))]
        for it in range(n_solves):
            if not ctx.mine(it):
                continue
            ksrc, ktgt = pairs[it % len(pairs)]
            src, tgt = manifold(*ksrc), manifold(*ktgt)
            axis_name, offset, plane = sections[int(rng.integers(len(sections)))]
            direction = [None, None, 1, -1][int(rng.integers(4))]
            eps = float(10.0 ** rng.uniform(-1.7, -0.3))
            dv_tol = float(10.0 ** rng.uniform(-1.0, 0.7))
            bal_tol = float(dv_tol * 10.0 ** rng.uniform(-3, 0.3))
            cfg = ConnectionConfig(section=SynodicMapConfig(section_axis=axis_name, section_offset=offset, plane_coords=plane), direction=direction)
            opt = ConnectionOptions(delta_v_tol=dv_tol, ballistic_tol=bal_tol, eps2d=eps)
            wit = {"source": ksrc, "target": ktgt, "section_axis": axis_name, "offset": offset, "plane": plane, "direction": direction,
                   "eps2d": eps, "delta_v_tol": dv_tol, "ballistic_tol": bal_tol, "seed": ctx.seed, "index": it}
            conn = ConnectionPipeline.with_default_engine(config=cfg)
            del recorded[:]
            try:
                ret = conn.solve(src, tgt, options=opt)
            except (ValueError, RuntimeError) as exc:
                ctx.count("E:solve declined (raised a domain error) — accepted")
                continue
            ctx.check(len(recorded) == 1, "E:one back-end execution per solve (observed at the back-end boundary)", {**wit, "n": len(recorded)})
            if len(recorded) != 1:
                continue
            req, out = recorded[0]
            res = list(out.results)
            pu, ps = np.asarray(req.points_u, dtype=float).reshape(-1, 2), np.asarray(req.points_s, dtype=float).reshape(-1, 2)
            Xu, Xs = np.asarray(req.states_u, dtype=float).reshape(-1, 6), np.asarray(req.states_s, dtype=float).reshape(-1, 6)
            ctx.case("endtoend", [it, ctx.seed, ksrc, ktgt, axis_name, offset, plane, direction, eps, dv_tol], nontrivial=len(res) > 0)
            if it < 2:
                ctx.sample({**wit, "n_section_points_source": len(pu), "n_section_points_target": len(ps), "n_connections": len(res)})
            ctx.check(float(req.eps) == eps and float(req.dv_tol) == dv_tol and float(req.bal_tol) == bal_tol,
                      "E:search radius, mismatch limit and ballistic tolerance reach the search as configured",
                      {**wit, "request": [req.eps, req.dv_tol, req.bal_tol]})
            ax = AX[axis_name]
            pidx = [AX[c] for c in plane]
            for side, man, P, X, ti in (("source", src, pu, Xu, req.traj_indices_u), ("target", tgt, ps, Xs, req.traj_indices_s)):
                trajs = list(man.trajectories)
                if len(P) == 0:
                    ctx.count(f"E:empty section cloud [{side}]")
                ctx.check(len(P) == len(X) and (ti is None or len(ti) == len(P)), "E:section cloud arrays are aligned", {**wit, "side": side})
                if len(P) != len(X):
                    continue
                ctx.check(bool(np.array_equal(P, X[:, pidx])), "E:section points are the plane coordinates of the section states", {**wit, "side": side})
                if ti is None:
                    ctx.count("E:no trajectory indices in the request — membership judged against all trajectories")
                n_onsurf = {}
                for k in range(len(X)):
                    cand = [int(ti[k])] if ti is not None else range(len(trajs))
                    ok, how = False, None
                    for c in cand:
                        if not (0 <= c < len(trajs)):
                            continue
                        S, g, ks = _crossings(trajs[c], ax, offset)
                        # (a) a stored sample lying on the surface within the detector's on-surface tolerance (documented rule; the
                        #     tolerance itself is not part of this property: anything up to 1e-4 is accepted for a stored sample)
                        d = np.abs(S - X[k]).max(axis=1)
                        j = int(np.argmin(d))
                        if d[j] <= 1e-12 and abs(g[j]) <= 1e-4:
                            ok, how = True, "sample"
                            n_onsurf[c] = n_onsurf.get(c, 0) + 1
                            break
                        # (b) an interpolated point inside a segment across which the section function changes sign
                        matches = []
                        for kk in ks:
                            lo, hi = np.minimum(S[kk], S[kk + 1]), np.maximum(S[kk], S[kk + 1])
                            slack = 0.25 * (hi - lo) + 1e-9          # cubic interpolation may overshoot the chord slightly
                            if np.all(X[k] >= lo - slack) and np.all(X[k] <= hi + slack):
                                matches.append(kk)
                        if matches:
                            ok, how = True, "crossing"
                        if ok:
                            break
                    ctx.check(ok, "E:every section point of the search is a crossing of a trajectory of its own manifold (source first, target second)",
                              lambda: {**wit, "side": side, "row": k, "state": X[k], "trajectory_index": None if ti is None else int(ti[k])})
                    if how == "crossing" and direction is not None:
                        # a configured crossing direction refers to physical time for both manifolds (a stable branch is stored in
                        # backward-time order): sign of the change of the section function across the bracketing samples, divided by
                        # the sign of the time increment between them
                        tt = np.asarray(trajs[c].times, dtype=float)
                        phys = [float(np.sign((g[kk + 1] - g[kk]) * (tt[kk + 1] - tt[kk]))) for kk in matches]
                        kk = matches[0]
                        ctx.check(direction in phys,
                                  "E:with a configured crossing direction every interpolated section point crosses in that direction in physical time",
                                  lambda: {**wit, "side": side, "row": k, "state": X[k], "segment": kk, "g_left_right": [g[kk], g[kk + 1]],
                                           "t_left_right": [tt[kk], tt[kk + 1]], "stable_manifold": bool(getattr(man, "stable", None) in (1, True))})
                    if how == "crossing":
                        gk = abs(float(X[k, ax] - offset))
                        ctx.stat("E:|section coordinate - offset| of interpolated section states", gk)
                        ctx.check(gk <= 1e-9, "E:interpolated section states lie on the section plane", lambda: {**wit, "side": side, "row": k, "state": X[k]})
                if direction is None and ti is not None:
                    for c, tr in enumerate(trajs):
                        S, g, ks = _crossings(tr, ax, offset)
                        # crossings closer together than the detector's de-duplication window may legitimately merge, and on-surface
                        # samples are extra hits by the documented rule: bounds, not equality
                        n_lib = int(np.sum(np.asarray(ti) == c))
                        n_near = int(np.sum(np.abs(g) <= 1e-4))
                        ctx.check(len(set(ks)) - _close_pairs(S, ks) - n_near <= n_lib <= len(set(ks)) + n_near,
                                  "E:every sign change of the section function along a manifold trajectory is a section point of the search (no direction filter)",
                                  lambda: {**wit, "side": side, "trajectory": c, "library": n_lib, "sign_changes": len(ks), "samples_near_surface": n_near})
            # the results themselves: brute force on the recorded clouds
            ctx.count("E:connections reported by end-to-end solves", len(res))
            ctx.notes.setdefault("endtoend_solves", []).append({"source": ksrc, "target": ktgt, "section": [axis_name, offset, plane], "direction": direction,
                                                               "eps2d": eps, "delta_v_tol": dv_tol, "n_source_points": len(pu), "n_target_points": len(ps), "n_connections": len(res)})
            if len(res):
                ctx.count("E:end-to-end solves that reported at least one connection")
            judge_clouds(ctx, "endtoend", 10 ** 6 + it, 1.0, pu, ps, Xu, Xs, req.traj_indices_u, req.traj_indices_s, eps, dv_tol, bal_tol, res)
            # what the caller gets is what the search returned
            got = list(getattr(ret, "connections", ret))
            same = len(got) == len(res) and all(a.delta_v == b.delta_v and np.array_equal(a.state_u, b.state_u) and np.array_equal(a.state_s, b.state_s)
                                                and a.kind == b.kind for a, b in zip(got, res))
            ctx.check(same, "E:solve() returns the connections found by the search, in order", {**wit, "returned": len(got), "found": len(res)})
            got2 = list(conn.results)
            ctx.check(len(got2) == len(res) and all(a.delta_v == b.delta_v for a, b in zip(got2, res)), "E:pipeline.results reflects the last solve", wit)
    finally:
        _ConnectionsBackend.run = orig


def _close_pairs(S, ks):
    """number of crossings that have another crossing within two samples (candidates for legitimate de-duplication)"""
    ks = sorted(set(ks))
    return sum(1 for a, b in zip(ks[:-1], ks[1:]) if b - a <= 2)


def run(ctx):
    ctx.note("rule", "case = one segment pair (9 geometric classes) or one pair of planar clouds with attached 6-D states "
                     "(6 classes); non-trivial cloud case = at least one connection reported; distinct by input hash")
    guarded(ctx, "segments", segments, ctx, ctx.pick(20000, 1500000))
    guarded(ctx, "clouds", clouds, ctx, ctx.pick(1500, 60000))
    guarded(ctx, "endtoend", endtoend, ctx, ctx.pick(8, 120))
    m = 1 if ctx.nshards > 1 else 10
    ctx.require("S:|p-q| is the true minimum distance of the two segments", 100 * m)
    ctx.require("K:pair is mutually nearest", 10 * m)
    ctx.require("K:refined points are the truly closest points of the local segments", 5 * m)
    ctx.require("E:end-to-end solves that reported at least one connection", 1 if ctx.nshards > 1 else 2)
    ctx.require("E:every section point of the search is a crossing of a trajectory of its own manifold (source first, target second)", 20 if ctx.nshards > 1 else 50)
