"""C01 — field, linearisation, variational system and energy integral are mutually consistent.

Events: return values of System.dynsys/jacobian_dynsys/var_dynsys.rhs, raw kernels, crtbp_energy,
effective_potential(+kinetic), _max_rel_energy_error, orbit/point energy & jacobi, System.propagate states.
Oracle: hmon.oracles.cr3bp (sympy-derived from the effective potential).
"""
from __future__ import annotations

import numpy as np

from ..core import guarded
from ..gen import gen_state, mu_log_uniform, MU_FIXED
from ..oracles import cr3bp as ref

CLASSES = ["generic", "planar", "spatial", "near_primary", "near_secondary", "on_axis", "near_L"]


def _dir_derivative(fun, y, u, s):
    """Richardson-extrapolated central difference of fun along unit vector u (steps s and s/2)."""
    d1 = (fun(y + s * u) - fun(y - s * u)) / (2 * s)
    d2 = (fun(y + 0.5 * s * u) - fun(y - 0.5 * s * u)) / s
    return (4 * d2 - d1) / 3


def _catalogue_mus():
    from hiten.utils.constants import Constants
    out = []
    for p, secs in Constants.orbital_distances.items():
        for s in secs:
            try:
                mp, ms = Constants.get_mass(p), Constants.get_mass(s)
                out.append((f"{p}-{s}", ms / (mp + ms)))
            except Exception:
                pass
    return out


def pointwise(ctx, n_states):
    import hiten
    from hiten.algorithms.dynamics.rtbp import _crtbp_accel, _jacobian_crtbp, _var_equations
    from hiten.algorithms.common import energy as en

    rng = ctx.rng
    cat = _catalogue_mus()
    ctx.note("catalogue_pairs", len(cat))
    mus = [m for _, m in cat] + list(MU_FIXED)
    n_mu_extra = ctx.pick(20, 200)
    mus += [mu_log_uniform(rng) for _ in range(n_mu_extra)]
    mus = [m for m in mus if 0 < m <= 0.5]

    def E_lib(mu):
        return lambda y: float(en.crtbp_energy(y, mu))

    def E_lib2(mu):
        return lambda y: float(en.kinetic_energy(y)) + float(en.effective_potential(y, mu))

    for i in range(n_states):
        if not ctx.mine(i):
            continue
        mu = float(mus[i % len(mus)]) if i < 3 * len(mus) else float(mus[rng.integers(len(mus))])
        cls = CLASSES[i % len(CLASSES)]
        y = gen_state(rng, mu, cls)
        nontrivial = abs(y[2]) > 1e-3 and abs(y[5]) > 1e-3
        ctx.case(f"state:{cls}", [mu, y.round(12).tolist()], nontrivial=nontrivial)
        if i < 4:
            ctx.sample({"mu": mu, "class": cls, "state": y})
        r1, r2 = ref.dists(y, mu)
        rmin = min(r1, r2)
        f_ref = ref.field(y, mu)
        F_ref = ref.jac(y, mu)
        # (a) field
        f_lib = np.asarray(_crtbp_accel(y, mu))
        scale_f = 1.0 + np.linalg.norm(f_ref)
        err = np.linalg.norm(f_lib - f_ref) / scale_f
        ctx.stat("field_rel_err", err)
        ctx.check(err <= 1e-11, "a:field==ref", lambda: {"mu": mu, "state": y, "lib": f_lib, "ref": f_ref})
        # (b) Jacobian (conditioning ~ 1/rmin^5 in the entries themselves, so relative to ||F||)
        F_lib = np.asarray(_jacobian_crtbp(y[0], y[1], y[2], mu))
        scale_F = 1.0 + np.abs(F_ref).max()
        errF = np.abs(F_lib - F_ref).max() / scale_F
        ctx.stat("jacobian_rel_err", errF)
        ctx.check(errF <= 1e-10, "b:jacobian==d(field)", lambda: {"mu": mu, "state": y, "lib": F_lib, "ref": F_ref,
                                                                "entry": np.unravel_index(np.abs(F_lib - F_ref).argmax(), (6, 6))})
        # (c) variational rhs with a random Phi (not the identity)
        Phi = rng.normal(size=(6, 6))
        Y = np.concatenate([Phi.ravel(), y])
        dY_lib = np.asarray(_var_equations(0.37, Y, mu))
        dY_ref = ref.var_field(Y, mu)
        errV = np.abs(dY_lib - dY_ref).max() / (1.0 + np.abs(dY_ref).max())
        ctx.stat("var_rel_err", errV)
        ctx.check(errV <= 1e-10, "c:variational==(F Phi, f)",
                  lambda: {"mu": mu, "state": y, "worst_index": int(np.abs(dY_lib - dY_ref).argmax()),
                           "lib": dY_lib[np.abs(dY_lib - dY_ref).argmax()], "ref": dY_ref[np.abs(dY_lib - dY_ref).argmax()]})
        # (d) dE/dt = 0 along the library's own field (directional derivative of the library's energy)
        nf = np.linalg.norm(f_lib)
        if nf > 0:
            u = f_lib / nf
            s = 1e-3 * min(rmin, 1.0)
            gE = np.linalg.norm(ref.grad_energy(y, mu))
            for name, fun in (("crtbp_energy", E_lib(mu)), ("kinetic+effective_potential", E_lib2(mu))):
                D = _dir_derivative(fun, y, u, s)
                r = abs(D) / (gE + 1.0)
                ctx.stat(f"dEdt_rel[{name}]", r)
                mech = None
                # classifier for the known mechanism: dE/dt == -z*vz exactly (z^2 in the centrifugal term)
                if abs(D * nf - (-y[2] * y[5])) <= 1e-6 * (abs(y[2] * y[5]) + 1e-9) + 1e-7 * (gE + 1) * nf:
                    mech = "energy-includes-z2-centrifugal"
                ctx.check(r <= 1e-8, f"d:dE/dt==0[{name}]",
                          lambda: {"mu": mu, "state": y, "dE_dt": D * nf, "minus_z_vz": -y[2] * y[5]}, mech)
            # the second Jacobi formula, observed through two-row arrays
            h = 1e-5 * min(rmin, 1.0) / (1.0 + nf)
            y1 = y + h * f_lib
            e_lib = float(en._max_rel_energy_error(np.vstack([y, y1]), mu))
            C0 = -2 * ref.energy(y, mu)
            e_ref = abs(-2 * ref.energy(y1, mu) - C0) / max(abs(C0), 1e-14)
            ctx.stat("max_rel_energy_error/ref", e_lib / (e_ref + 1e-13))
            ctx.check(e_lib <= 10 * e_ref + 1e-12, "d:_max_rel_energy_error first-order term vanishes",
                      lambda: {"mu": mu, "state": y, "h": h, "lib": e_lib, "ref": e_ref})
            # and it must see a genuine change of the integral (not identically zero)
            y2 = y.copy()
            y2[3:] *= 1.1
            y2[3] += 0.05
            e_lib2 = float(en._max_rel_energy_error(np.vstack([y, y2]), mu))
            e_ref2 = abs(-2 * ref.energy(y2, mu) - C0) / max(abs(C0), 1e-14)
            ctx.check(abs(e_lib2 - e_ref2) <= 1e-9 * (1 + e_ref2) + 1e-9 * e_ref2, "d:_max_rel_energy_error value",
                      lambda: {"mu": mu, "state": y, "y2": y2, "lib": e_lib2, "ref": e_ref2})
        # jacobi conversion
        E = float(en.crtbp_energy(y, mu))
        ctx.check(en.energy_to_jacobi(E) == -2 * E and abs(en.jacobi_to_energy(en.energy_to_jacobi(E)) - E) <= 1e-15 * abs(E),
                  "e:energy_to_jacobi==-2E", {"E": E})


def system_objects(ctx, n_systems):
    """The same predicates through the public objects (System.dynsys..., orbit/point energy)."""
    from hiten import System
    from hiten.system.orbits.base import GenericOrbit
    rng = ctx.rng
    cat = _catalogue_mus()
    todo = []
    names = [c for c in cat]
    for k in range(n_systems):
        if k < len(names) and k % 3 == 0:
            todo.append(("bodies", names[k][0]))
        else:
            todo.append(("mu", MU_FIXED[k % len(MU_FIXED)] if k < 8 else mu_log_uniform(rng, 1e-6, 0.5)))
    for k, (kind, val) in enumerate(todo):
        if not ctx.mine(k):
            continue
        if kind == "bodies":
            p, s = val.split("-")
            sysm = System.from_bodies(p, s)
        else:
            sysm = System.from_mu(float(val))
        mu = float(sysm.mu)
        ctx.case("system", [kind, str(val)], nontrivial=True)
        for j in range(6):
            cls = CLASSES[(k + j) % len(CLASSES)]
            y = gen_state(rng, mu, cls)
            f_ref = ref.field(y, mu)
            f_lib = np.asarray(sysm.dynsys.rhs(0.0, y))
            ctx.check(np.linalg.norm(f_lib - f_ref) <= 1e-11 * (1 + np.linalg.norm(f_ref)), "a:System.dynsys.rhs==ref",
                      lambda: {"mu": mu, "state": y, "lib": f_lib, "ref": f_ref})
            F_lib = np.asarray(sysm.jacobian_dynsys.rhs(0.0, y))
            F_ref = ref.jac(y, mu)
            ctx.check(np.abs(F_lib - F_ref).max() <= 1e-10 * (1 + np.abs(F_ref).max()), "b:System.jacobian_dynsys.rhs==dF",
                      lambda: {"mu": mu, "state": y, "lib": F_lib, "ref": F_ref})
            Phi = rng.normal(size=(6, 6))
            Y = np.concatenate([Phi.ravel(), y])
            dY = np.asarray(sysm.var_dynsys.rhs(0.1, Y))
            dR = ref.var_field(Y, mu)
            ctx.check(np.abs(dY - dR).max() <= 1e-10 * (1 + np.abs(dR).max()), "c:System.var_dynsys.rhs==(F Phi,f)",
                      lambda: {"mu": mu, "state": y, "worst_index": int(np.abs(dY - dR).argmax())})
        # points: jacobi == -2 energy ; energy is the (offset) reference energy at the point
        for idx in (1, 2, 3, 4, 5):
            try:
                pt = sysm.get_libration_point(idx)
                e, c = float(pt.energy), float(pt.jacobi)
            except Exception as exc:
                ctx.skip(f"point L{idx} unavailable ({type(exc).__name__})")  # decided by C04, not here
                continue
            ctx.check(abs(c + 2 * e) <= 1e-13 * (1 + abs(e)), "e:point.jacobi==-2*point.energy", {"mu": mu, "L": idx, "E": e, "C": c})
        # orbit objects at arbitrary (spatial) states: energy/jacobi pair and the time derivative of orbit.energy
        try:
            pt = sysm.get_libration_point(3)
        except Exception:
            continue
        for j in range(3):
            y = gen_state(rng, mu, "spatial")
            orb = GenericOrbit(pt, initial_state=y)
            e, c = float(orb.energy), float(orb.jacobi)
            ctx.check(abs(c + 2 * e) <= 1e-13 * (1 + abs(e)), "e:orbit.jacobi==-2*orbit.energy", {"mu": mu, "E": e, "C": c})
            f = ref.field(y, mu)
            nf = np.linalg.norm(f)
            u = f / nf
            s = 1e-3 * min(min(ref.dists(y, mu)), 1.0)

            def E_orb(yy):
                return float(GenericOrbit(pt, initial_state=yy).energy)
            D = _dir_derivative(E_orb, y, u, s)
            gE = np.linalg.norm(ref.grad_energy(y, mu))
            mech = None
            if abs(D * nf - (-y[2] * y[5])) <= 1e-6 * (abs(y[2] * y[5]) + 1e-9) + 1e-7 * (gE + 1) * nf:
                mech = "energy-includes-z2-centrifugal"
            ctx.check(abs(D) / (gE + 1) <= 1e-8, "d:dE/dt==0[orbit.energy]",
                      lambda: {"mu": mu, "state": y, "dE_dt": D * nf, "minus_z_vz": -y[2] * y[5]}, mech)


def interleaved_systems(ctx, n_groups):
    """History class: several System objects with nearly equal (or all tiny) mass ratios alive in one process, their dynamical systems
    first touched in one order and then evaluated in another.  Each system's field, Jacobian and variational system must be those of
    its OWN mu (a memo shared between systems, keyed by names or by a rounded mu, makes a later system use an earlier one's)."""
    from hiten import System
    from hiten.system.orbits.base import GenericOrbit
    rng = ctx.rng
    groups = [[3.227e-7, 1.660e-7, 2.3e-9], [3.0034806e-6, 3.0404234e-6], [0.012150585609624, 0.012150585609624 * (1 + 3e-6), 0.01215058]]
    while len(groups) < n_groups:
        m = mu_log_uniform(rng, 1e-8, 0.49)
        groups.append([m, m * (1 + 10.0 ** rng.uniform(-6, -3)), m * (1 - 10.0 ** rng.uniform(-6, -3))])
    for gi, mus in enumerate(groups[:n_groups]):
        if not ctx.mine(gi):
            continue
        systems = [System.from_mu(float(m)) for m in mus]
        if gi % 2 == 0:        # also one system built from catalogue bodies next to a from_mu system of almost the same mass ratio
            sb = System.from_bodies("earth", "moon") if gi % 4 == 0 else System.from_bodies("sun", "earth")
            systems += [sb, System.from_mu(float(sb.mu) * (1 + 2e-6))]
        # first touch in creation order ...
        for sm in systems:
            y0 = gen_state(rng, float(sm.mu), "generic")
            sm.dynsys.rhs(0.0, y0), sm.jacobian_dynsys.rhs(0.0, y0), sm.var_dynsys.rhs(0.0, np.concatenate([np.eye(6).ravel(), y0]))
        # ... evaluation in reverse order and once more in creation order
        for sm in list(reversed(systems)) + systems:
            mu = float(sm.mu)
            ctx.case("interleaved_system", [gi, mu], nontrivial=True)
            for cls in ("near_secondary", "spatial", "near_L"):
                y = gen_state(rng, mu, cls)
                # the observable must separate this system from its neighbours: require the neighbours' fields to differ measurably here
                others = [float(o.mu) for o in systems if float(o.mu) != mu]
                f_ref = ref.field(y, mu)
                sep = min(np.linalg.norm(ref.field(y, m2) - f_ref) for m2 in others)
                if sep <= 1e-9 * (1 + np.linalg.norm(f_ref)):
                    ctx.skip("interleaved systems: neighbouring mass ratios not separable at this state")
                    continue
                f_lib = np.asarray(sm.dynsys.rhs(0.0, y))
                wit = lambda: {"mu": mu, "alive_systems_mu": [float(o.mu) for o in systems], "state": y, "separation_from_neighbour": sep}
                ctx.check(np.linalg.norm(f_lib - f_ref) <= 1e-11 * (1 + np.linalg.norm(f_ref)), "a:System.dynsys.rhs==ref [several systems alive]", wit)
                F_lib, F_ref = np.asarray(sm.jacobian_dynsys.rhs(0.0, y)), ref.jac(y, mu)
                ctx.check(np.abs(F_lib - F_ref).max() <= 1e-10 * (1 + np.abs(F_ref).max()), "b:System.jacobian_dynsys.rhs==dF [several systems alive]", wit)
                Y = np.concatenate([rng.normal(size=36), y])
                dY, dR = np.asarray(sm.var_dynsys.rhs(0.1, Y)), ref.var_field(Y, mu)
                ctx.check(np.abs(dY - dR).max() <= 1e-10 * (1 + np.abs(dR).max()), "c:System.var_dynsys.rhs==(F Phi,f) [several systems alive]", wit)
                pt = sm.get_libration_point(3)
                # reported energy: equal to the reference energy of the system's OWN mu up to an additive constant (the property fixes the
                # time derivative, not the zero level): the offset measured at two different states must agree
                y2 = gen_state(rng, mu, "near_secondary")
                off1 = float(GenericOrbit(pt, initial_state=y).energy) - ref.energy(y, mu)
                off2 = float(GenericOrbit(pt, initial_state=y2).energy) - ref.energy(y2, mu)
                sepE = min(abs((ref.energy(y, m2) - ref.energy(y, mu)) - (ref.energy(y2, m2) - ref.energy(y2, mu))) for m2 in others)
                if sepE > 1e-8:
                    ctx.stat("|energy offset(y1) - energy offset(y2)| [several systems alive]", abs(off1 - off2))
                    ctx.check(abs(off1 - off2) <= 1e-11 * (1 + abs(ref.energy(y, mu)) + abs(ref.energy(y2, mu))),
                              "e:orbit.energy == reference energy of the system's own mu up to a constant [several systems alive]", wit)


def trajectories(ctx, n_traj):
    """(f) library energy along every propagated trajectory drifts no more than the reference integral does."""
    from hiten import System
    from hiten.algorithms.common import energy as en
    rng = ctx.rng
    mus = [0.012150585609624, 0.04, 3.0034806e-6, 0.2]
    methods = [("adaptive", 8), ("adaptive", 5), ("fixed", 4), ("fixed", 6), ("fixed", 8), ("symplectic", 4)]
    systems = {}
    k = 0
    for mu in mus[: ctx.pick(2, 4)]:
        for (method, order) in methods:
            for spatial in (True, False):
                for rep in range(max(1, n_traj // (len(methods) * 2 * ctx.pick(2, 4)))):
                    k += 1
                    if not ctx.mine(k):
                        continue
                    if method == "symplectic":
                        continue  # System.propagate(method='symplectic') needs a polynomial system; covered by C16
                    sysm = systems.setdefault(mu, System.from_mu(mu))
                    rh = (mu / 3) ** (1 / 3)
                    x0 = 1 - mu - rh * rng.uniform(1.05, 1.6) if rng.random() < 0.5 else 1 - mu + rh * rng.uniform(1.05, 1.5)
                    y0 = np.array([x0, rng.normal() * 0.02, 0.0, rng.normal() * 0.02, rng.normal() * 0.1, 0.0])
                    if spatial:
                        y0[2] = rng.uniform(0.03, 0.1) * rng.choice([-1, 1])
                        y0[5] = rng.uniform(0.03, 0.1) * rng.choice([-1, 1])
                    tf = float(rng.uniform(0.5, 3.0))
                    steps = 2000 if method == "fixed" else 200
                    try:
                        tr = sysm.propagate(y0, tf=tf, steps=steps, method=method, order=order)
                    except Exception as exc:
                        ctx.skip(f"propagate raised {type(exc).__name__}")
                        continue
                    S = np.asarray(tr.states)
                    rmin = min(np.min(np.hypot(np.hypot(S[:, 0] + mu, S[:, 1]), S[:, 2])),
                               np.min(np.hypot(np.hypot(S[:, 0] - 1 + mu, S[:, 1]), S[:, 2])))
                    if rmin < 0.02:
                        ctx.skip("trajectory passes within 0.02 of a primary")
                        continue
                    ctx.case(f"traj:{method}{order}:{'spatial' if spatial else 'planar'}", [mu, y0.tolist(), tf], nontrivial=spatial)
                    E_lib = np.array([en.crtbp_energy(s, mu) for s in S])
                    E_ref = ref.energy_many(S, mu)
                    d_lib = np.max(np.abs(E_lib - E_lib[0]))
                    d_ref = np.max(np.abs(E_ref - E_ref[0]))
                    ctx.stat("traj_energy_drift_lib", d_lib)
                    ctx.stat("traj_energy_drift_ref", d_ref)
                    mech = None
                    # known mechanism: drift equals -1/2 * change of z^2 along the path
                    dz2 = -0.5 * (S[:, 2] ** 2 - S[0, 2] ** 2)
                    if np.max(np.abs((E_lib - E_lib[0]) - (E_ref - E_ref[0]) - dz2)) <= 1e-9:
                        mech = "energy-includes-z2-centrifugal"
                    ctx.check(d_lib <= 10 * d_ref + 1e-11, "f:energy constant along propagated trajectory",
                              lambda: {"mu": mu, "y0": y0, "tf": tf, "method": method, "order": order,
                                       "drift_lib": d_lib, "drift_ref": d_ref}, mech)
                    mre = float(en._max_rel_energy_error(S, mu))
                    C = -2 * E_ref
                    mre_ref = np.max(np.abs(C - C[0])) / abs(C[0])
                    ctx.check(abs(mre - mre_ref) <= 1e-9 * (1 + mre_ref) + 1e-12, "f:_max_rel_energy_error==ref along trajectory",
                              {"mu": mu, "lib": mre, "ref": mre_ref})
                    # reference integral also bounds integration quality (sanity of the propagation itself)
                    ctx.stat(f"traj_ref_drift[{method}{order}]", d_ref)


def oracle_selfcheck(ctx):
    rng = ctx.rng
    import mpmath as mpm
    for _ in range(ctx.pick(5, 50)):
        mu = mu_log_uniform(rng)
        y = gen_state(rng, mu, "generic", delta=0.05)
        hp = ref.mp_field(y, mu)
        f = ref.field(y, mu)
        err = max(abs(float(a) - b) for a, b in zip(hp, f)) / (1 + np.linalg.norm(f))
        ctx.stat("oracle_float_vs_mp", err)
        if err > 1e-11:
            raise RuntimeError(f"oracle self-check failed: {err}")
        ctx.count("oracle:float64 vs 40-digit")


def run(ctx):
    ctx.note("rule", "case = (mu, 6-D state) or one propagated trajectory; non-trivial = z!=0 and vz!=0 (spatial), "
                     "distinct by rounded input; >= delta=1e-2 from both primaries")
    guarded(ctx, "oracle", oracle_selfcheck, ctx)
    guarded(ctx, "pointwise", pointwise, ctx, ctx.pick(3000, 120000))
    guarded(ctx, "objects", system_objects, ctx, ctx.pick(8, 48))
    guarded(ctx, "interleaved", interleaved_systems, ctx, ctx.pick(4, 40))
    guarded(ctx, "trajectories", trajectories, ctx, ctx.pick(24, 240))
    if ctx.nshards == 1 or True:
        ctx.require("a:field==ref", 100)
        ctx.require("c:variational==(F Phi, f)", 100)
        ctx.require("d:dE/dt==0[crtbp_energy]", 100)
        ctx.require("f:energy constant along propagated trajectory", 4)
        ctx.require("a:System.dynsys.rhs==ref", 6)
        ctx.require("c:System.var_dynsys.rhs==(F Phi,f) [several systems alive]", 6)
