"""C12 — invariant-manifold seeds lie on the true stable/unstable Floquet directions of the orbit.

Events: Manifold.compute(...), Manifold.trajectories[i].states / .times (boundary observation only).
Oracle: reference monodromy and STM transport (sympy field + SciPy DOP853), reference flow, reference Jacobi constant.
"""
from __future__ import annotations

import numpy as np

from ..core import guarded
from ..oracles import cr3bp as ref

MECH_STABLE = "stable-seeds-from-backward-stm"


def _pivot_normalise(v):
    v = np.real_if_close(v).astype(float)
    k = 0
    while k < v.size and abs(v[k]) < 1e-12 * np.abs(v).max():
        k += 1
    return v / v[k]


def reference_directions(x0, mu, T, thetas):
    """Floquet directions at the base points x(theta): Phi(theta) v0 with v0 the pivot-normalised eigenvector of M."""
    xr, Mr = ref.flow_stm(x0, mu, T)
    ev, V = np.linalg.eig(Mr)
    i_s, i_u = int(np.argmin(np.abs(ev))), int(np.argmax(np.abs(ev)))
    if abs(ev[i_s].imag) > 1e-8 or abs(ev[i_u].imag) > 1e-8 or abs(ev[i_u]) < 1.5:
        return None
    vs, vu = _pivot_normalise(V[:, i_s]), _pivot_normalise(V[:, i_u])
    order = np.argsort(thetas)
    th = np.asarray(thetas)[order]
    te = np.concatenate([[0.0], th[th > 0]])
    xs, Ps = ref.flow_stm(x0, mu, te[-1] if te[-1] > 0 else 1e-9, t_eval=te if te[-1] > 0 else None)
    if te[-1] <= 0:
        xs, Ps = np.array([x0]), np.array([np.eye(6)])
    out = {}
    for t_ in thetas:
        j = int(np.argmin(np.abs(te - t_)))
        out[float(t_)] = (xs[j], Ps[j] @ vs, Ps[j] @ vu)
    return {"M": Mr, "lam_s": ev[i_s].real, "lam_u": ev[i_u].real, "dirs": out, "closure": float(np.linalg.norm(xr - x0))}


def angle(a, b):
    c = float(a @ b / (np.linalg.norm(a) * np.linalg.norm(b)))
    return float(np.arccos(max(-1.0, min(1.0, c))))


def energy_filter_history(ctx, label, orb, mu):
    """History: compute, then the SAME compute on the same Manifold object with a TIGHTER energy tolerance placed in a gap of the measured
    Jacobi deviations (low-order fixed-step integration, so the deviations are well above rounding): every trajectory retained by the
    second call must respect the NEW tolerance — the filter's outcome is part of what a memo stores."""
    from hiten.system.manifold import Manifold
    for stable, direction in ((True, "positive"), (False, "negative")):
        man = Manifold(orb, stable=stable, direction=direction)
        kw = dict(step=1.0 / 12, integration_fraction=0.3, displacement=1e-6, dt=0.01, method="fixed", order=4, show_progress=False)
        tag = ("stable" if stable else "unstable") + ":" + direction
        try:
            man.compute(energy_tol=1e-6, **kw)
            first = list(man.trajectories or [])
        except Exception as exc:
            ctx.check(False, "0:manifold computed", {"orbit": label, "branch": tag, "error": repr(exc)[:300]})
            continue

        def devs(trs):
            out = []
            for tr in trs:
                C = -2 * ref.energy_many(np.asarray(tr.states, dtype=float), mu)
                out.append(float(np.max(np.abs(C - C[0])) / abs(C[0])))
            return np.array(out)
        dv = np.sort(devs(first))
        dv = dv[dv > 1e-13]
        gaps = [(dv[i], dv[i + 1]) for i in range(len(dv) - 1) if dv[i + 1] >= 2.0 * dv[i]]
        ctx.case(f"energy-filter-history:{tag}", [label, tag], nontrivial=bool(gaps))
        if not gaps:
            ctx.count("6b:no gap (factor 2) in the measured Jacobi deviations — tighter-tolerance recompute not decidable")
            continue
        lo_, hi_ = gaps[len(gaps) // 2]
        tight = float(np.sqrt(lo_ * hi_))
        try:
            man.compute(energy_tol=tight, **kw)
            kept = list(man.trajectories or [])
        except Exception:
            ctx.count("6b:recompute with a tighter energy tolerance declined (raised) — accepted")
            continue
        d2 = devs(kept)
        worst = float(d2.max()) if len(d2) else 0.0
        ctx.check(worst <= 1.35 * tight,
                  "6b:after recomputing with a tighter energy tolerance every retained trajectory keeps its Jacobi constant within the NEW tolerance",
                  {"orbit": label, "branch": tag, "first_energy_tol": 1e-6, "second_energy_tol": tight, "deviations_first_compute": dv.tolist(),
                   "retained_first": len(first), "retained_second": len(kept), "worst_deviation_after_second_compute": worst})


def check_orbit(ctx, label, orb, mu, n_phase, displacement, method, order):
    from hiten.system.manifold import Manifold
    x0 = np.asarray(orb.initial_state, dtype=float)
    T = float(orb.period)
    step = 1.0 / n_phase
    fractions = np.arange(0.0, 1.0, step)
    grid = np.linspace(0.0, T, 2000)
    thetas = [float(grid[np.argmin(np.abs(grid - f * T))]) for f in fractions]
    R = reference_directions(x0, mu, T, thetas)
    if R is None:
        ctx.skip("orbit not hyperbolic enough for a manifold (reference multipliers complex or < 1.5)")
        return
    ctx.note(f"multipliers[{label}]", [R["lam_s"], R["lam_u"]])
    seeds = {}
    for stable in (True, False):
        for direction in ("positive", "negative"):
            man = Manifold(orb, stable=stable, direction=direction)
            energy_tol = 1e-6
            try:
                man.compute(step=step, integration_fraction=0.15, displacement=displacement, dt=0.01, method=method, order=order,
                            show_progress=False, energy_tol=energy_tol)
                trajs = man.trajectories
            except Exception as exc:
                ctx.check(False, "0:manifold computed", {"orbit": label, "stable": stable, "direction": direction, "error": repr(exc)[:300]})
                continue
            tag = ("stable" if stable else "unstable") + ":" + direction
            ctx.case(f"manifold:{tag}", [label, tag, n_phase, displacement, method, order], nontrivial=True)
            ctx.check(trajs is not None and len(trajs) >= max(1, n_phase // 2), "0:most phases yield a retained trajectory",
                      {"orbit": label, "branch": tag, "n": 0 if trajs is None else len(trajs), "phases": n_phase})
            if not trajs:
                continue
            sgn = 1.0 if direction == "positive" else -1.0
            runs = [(displacement, trajs)]
            # history: a second compute() on the SAME object with another displacement (a memo miss) must be just as right
            if stable == (direction == "positive"):
                d2 = displacement * 7.0
                try:
                    man.compute(step=step, integration_fraction=0.15, displacement=d2, dt=0.01, method=method, order=order,
                                show_progress=False, energy_tol=energy_tol)
                    runs.append((d2, man.trajectories))
                    ctx.count("0:second compute() on the same Manifold object with another displacement")
                except Exception as exc:
                    ctx.check(False, "0:manifold computed", {"orbit": label, "stable": stable, "direction": direction, "second_compute": True, "error": repr(exc)[:300]})
            for (displacement_, trajs_) in runs:
              for tr in trajs_:
                  dcur = displacement_
                  S = np.asarray(tr.states, dtype=float)
                  tms = np.asarray(tr.times, dtype=float)
                  seed = S[0]
                  # which base point? nearest reference orbit point among the configured phases
                  dists = [np.linalg.norm(seed - R["dirs"][th][0]) for th in thetas]
                  j = int(np.argmin(dists))
                  base, ds, du = R["dirs"][thetas[j]]
                  dref = ds if stable else du
                  dvec = seed - base

                  def wit():
                      return {"orbit": label, "x0": x0, "period": T, "mu": mu, "branch": tag, "phase_fraction": float(fractions[j]),
                              "displacement": dcur, "seed": seed, "base_ref": base}
                  # (1) base point on the reference orbit; (2) displacement magnitude in position
                  cond = max(abs(R["lam_u"]), 1.0)
                  pos = np.linalg.norm(dvec[:3])
                  ctx.stat("|pos displacement|/configured - 1", abs(pos / dcur - 1))
                  ctx.check(abs(pos / dcur - 1) <= 1e-3 + 2e-12 * cond / dcur,
                            "1-2:seed is displaced from an orbit point by the configured distance (position norm)",
                            lambda: {**wit(), "pos_norm": pos})
                  # (3) direction = true Floquet direction (line), (4) side
                  a = angle(dvec, dref)
                  a_line = min(a, np.pi - a)
                  a_other = angle(dvec, du if stable else ds)
                  a_other = min(a_other, np.pi - a_other)
                  # base-point mismatch (library vs reference orbit point, ~1e-12 x growth) seen from the displaced seed; measured 2e-7 rad
                  tol_ang = 1e-4 + 2e-12 * cond / dcur
                  ctx.stat(f"angle_to_true_direction[{'stable' if stable else 'unstable'}]", a_line)
                  mech = MECH_STABLE if (stable and a_line > tol_ang and 0.02 < a_line < 0.6) else None
                  ok = ctx.check(a_line <= tol_ang, "3:seed offset is along the true Floquet direction of its branch",
                                 lambda: {**wit(), "angle_rad": a_line, "angle_to_other_branch_rad": a_other, "tol": tol_ang}, mech)
                  if ok:
                      ctx.check((a < np.pi / 2) == (sgn > 0), "4:side matches the requested direction (pivot-positive eigenvector transported along the orbit)",
                                lambda: {**wit(), "angle_rad": a})
                      if displacement_ == runs[0][0]:
                          seeds[(stable, direction, j)] = dvec
                  # (5) integration direction and flow
                  if stable:
                      okt = tms[0] == 0 and np.all(np.diff(tms) < 0)
                  else:
                      okt = tms[0] == 0 and np.all(np.diff(tms) > 0)
                  ctx.check(okt, "5:stable branches run backward (times decreasing from 0), unstable forward", lambda: {**wit(), "times_head": tms[:4], "t_end": tms[-1]})
                  if okt:
                      xr = ref.flow(seed, mu, [0.0, tms[len(tms) // 2], tms[-1]])
                      e = max(np.abs(S[len(tms) // 2] - xr[1]).max(), np.abs(S[-1] - xr[2]).max())
                      ctx.stat("manifold_traj_err_vs_ref_flow", e)
                      ctx.check(e <= 1e-6, "5:trajectory is the reference flow of its seed at its signed times", lambda: {**wit(), "err": e})
                  # (6) Jacobi constant
                  C = -2 * ref.energy_many(S, mu)
                  dev = np.max(np.abs(C - C[0])) / abs(C[0])
                  ctx.stat("max_rel_jacobi_deviation", dev)
                  ctx.check(dev <= energy_tol, "6:retained trajectory keeps its seed's Jacobi constant within energy_tol", lambda: {**wit(), "dev": dev})
    # mirror: negative seeds are the mirror image of positive seeds
    for (stable, direction, j), d in list(seeds.items()):
        if direction == "positive" and (stable, "negative", j) in seeds:
            m = seeds[(stable, "negative", j)]
            # d and m are measured from the REFERENCE base point: their sum is twice the (tiny) library-vs-reference base mismatch
            ctx.check(np.abs(d + m).max() <= 1e-6 * np.abs(d).max() + 5e-12 * max(1.0, abs(R["lam_u"]) / 1e3), "4:negative seeds mirror positive seeds",
                      {"orbit": label, "stable": stable, "phase": j, "pos": d, "neg": m})


def nrho_state(mu, x0=1.0220, z0=-0.1821, vy0=-0.1033, tol=1e-12):
    """Harness-side differential correction (reference variational flow, SciPy DOP853) of a southern L2 near-rectilinear halo orbit:
    perpendicular x-z plane crossings, x0 fixed, controls (z0, vy0).  Its hyperbolic multipliers are NEGATIVE real (past the
    period-doubling bifurcation of the halo family): lambda_u ~ -2.19, lambda_s ~ -0.457 for the Earth-Moon 9:2 NRHO."""
    from scipy.integrate import solve_ivp
    for _ in range(30):
        y0 = np.array([x0, 0.0, z0, 0.0, vy0, 0.0])
        Y0 = np.concatenate([np.eye(6).ravel(), y0])

        def ev(t, Y):
            return Y[37]
        s = solve_ivp(lambda t, Y: ref.var_field(Y, mu), (0.0, 1.2), Y0, method="DOP853", rtol=1e-13, atol=1e-13, events=ev, first_step=1e-3)
        hits = [i for i, t in enumerate(s.t_events[0]) if t > 1e-3]
        if not hits:
            raise RuntimeError("NRHO seed: no plane crossing")
        th, Yh = s.t_events[0][hits[0]], s.y_events[0][hits[0]]
        Phi, xh = Yh[:36].reshape(6, 6), Yh[36:]
        f = ref.field(xh, mu)
        R = np.array([xh[3], xh[5]])
        if np.abs(R).max() < tol:
            return y0, 2.0 * float(th)
        J = Phi[np.ix_([3, 5], [2, 4])] - np.outer(f[[3, 5]], Phi[1, [2, 4]]) / f[1]
        d = np.linalg.solve(J, -R)
        z0, vy0 = z0 + d[0], vy0 + d[1]
    raise RuntimeError("NRHO seed: no convergence")


def run(ctx):
    from hiten import System
    from hiten.system import HaloOrbit, LyapunovOrbit, VerticalOrbit
    ctx.note("rule", "case = one manifold branch (stable/unstable x positive/negative) of one corrected orbit with n phases; each retained "
                     "trajectory is one observation of clauses 1-6; non-trivial = every branch of a hyperbolic orbit")
    specs = [("earth-moon", 1, "halo", dict(amplitude_z=0.2, zenith="southern"), 8, 1e-6, "adaptive", 8),
             ("earth-moon", 1, "lyapunov", dict(amplitude_x=0.05), 8, 1e-5, "adaptive", 8),
             ("earth-moon", 2, "halo", dict(amplitude_z=0.1, zenith="northern"), 10, 1e-6, "fixed", 8),
             ("sun-earth", 1, "halo", dict(amplitude_z=0.1, zenith="northern"), 8, 1e-6, "adaptive", 8),
             ("earth-moon", 2, "lyapunov", dict(amplitude_x=0.03), 16, 1e-4, "adaptive", 5),
             ("earth-moon", 1, "halo", dict(amplitude_z=0.3, zenith="northern"), 40, 1e-7, "adaptive", 8),
             ("sun-earth", 2, "lyapunov", dict(amplitude_x=0.05), 8, 1e-6, "fixed", 6),
             ][: ctx.pick(2, 7)]
    systems = {}
    corrected = []
    for k, (name, L, fam, kw, n_phase, disp, method, order) in enumerate(specs):
        if not ctx.mine(k):
            continue

        def one():
            p, s = name.split("-")
            sysm = systems.setdefault(name, System.from_bodies(p, s))
            pt = sysm.get_libration_point(L)
            orb = pt.create_orbit({"halo": HaloOrbit, "lyapunov": LyapunovOrbit, "vertical": VerticalOrbit}[fam], **kw)
            try:
                orb.correct()
            except Exception as exc:
                ctx.skip(f"orbit correction failed ({type(exc).__name__}) — C05's concern")
                return
            label = f"{name}:L{L}:{fam}:{kw}"
            ctx.sample({"orbit": label, "x0": orb.initial_state, "period": orb.period, "phases": n_phase, "displacement": disp})
            check_orbit(ctx, label, orb, float(sysm.mu), n_phase, disp, method, order)
            corrected.append((label, sysm, pt, np.asarray(orb.initial_state, dtype=float).copy(), float(orb.period), n_phase, disp, method, order))
        guarded(ctx, f"orbit {k}", one)

    # the same periodic orbit described from ANOTHER phase: the initial state is then not on the x-z symmetry plane (y, vx, vz != 0), so
    # shortcuts that are only valid at a mirror-symmetric point (e.g. stable direction = time-reversal mirror of the unstable one) show
    def rephased(rec, frac):
        from hiten.system.orbits.base import GenericOrbit
        label, sysm, pt, x0, T, n_phase, disp, method, order = rec
        xr, _ = ref.flow_stm(x0, float(sysm.mu), frac * T)
        xr = np.asarray(xr, dtype=float).reshape(-1, 6)[-1]
        orb = GenericOrbit(pt, initial_state=xr)
        orb.period = T
        ctx.sample({"orbit": label + f":re-phased@{frac}T", "x0": xr, "period": T})
        check_orbit(ctx, label + f":re-phased@{frac}T", orb, float(sysm.mu), max(4, n_phase // 2), disp, method, order)
        ctx.count("P:orbit described from a phase off the symmetry plane examined")
    for j, rec in enumerate(corrected[: ctx.pick(1, 3)]):
        guarded(ctx, f"rephased {j}", rephased, rec, [0.3, 0.62, 0.17][j % 3])
    for j, rec in enumerate(corrected[: ctx.pick(2, 4)]):
        from hiten.system.orbits.base import GenericOrbit
        def efh(rec=rec):
            label, sysm, pt, x0, T = rec[:5]
            o = GenericOrbit(pt, initial_state=x0)
            o.period = T
            energy_filter_history(ctx, label, o, float(sysm.mu))
        guarded(ctx, f"energy filter history {j}", efh)

    # an orbit whose hyperbolic multipliers are negative (NRHO): sign conventions and normalisations that silently assume lambda > 0
    # are only exercised here; supplied through GenericOrbit with a harness-corrected state and period
    def nrho(x_start, n_phase, disp):
        from hiten.system.orbits.base import GenericOrbit
        mu = 0.012150585609624
        sysm = systems.setdefault("mu-em", System.from_mu(mu))
        try:
            y0, T = nrho_state(mu, x0=x_start)
        except RuntimeError as exc:
            ctx.skip(f"NRHO seed not corrected by the harness ({exc})")
            return
        orb = GenericOrbit(sysm.get_libration_point(2), initial_state=y0)
        orb.period = T
        ctx.sample({"orbit": "nrho", "x0": y0, "period": T, "phases": n_phase, "displacement": disp})
        check_orbit(ctx, f"earth-moon:L2:nrho:x0={x_start}", orb, mu, n_phase, disp, "adaptive", 8)
        ctx.count("N:orbit with negative hyperbolic multipliers examined")
    for k2, (xs_, nph, dsp) in enumerate([(1.0220, 10, 1e-6), (1.0300, 8, 1e-5), (1.0180, 16, 1e-6)][: ctx.pick(1, 3)]):
        if ctx.mine(len(specs) + k2):
            guarded(ctx, f"nrho {k2}", nrho, xs_, nph, dsp)
    m = 1 if ctx.nshards > 1 else 1
    ctx.require("3:seed offset is along the true Floquet direction of its branch", 16 * m if ctx.nshards == 1 else 4)
    ctx.require("5:trajectory is the reference flow of its seed at its signed times", 8 if ctx.nshards == 1 else 2)
    if ctx.nshards == 1:
        ctx.require("N:orbit with negative hyperbolic multipliers examined", 1)
        ctx.require("P:orbit described from a phase off the symmetry plane examined", 1)
        ctx.require("6b:after recomputing with a tighter energy tolerance every retained trajectory keeps its Jacobi constant within the NEW tolerance", 1)
