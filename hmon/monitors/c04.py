"""C04 — libration points are equilibria with correct linear dynamics for every mu.

Events: System.from_bodies / from_mu; point.position, dynamics.gamma, dynamics.cn(n), linear_modes,
normal_form_transform for L1..L5.
Oracle: mpmath roots of dOmega/dx, sympy Jacobian of the field, mpmath Taylor coefficients of the potential.
"""
from __future__ import annotations

import numpy as np

from ..core import guarded
from ..gen import mu_log_uniform
from ..oracles import cr3bp as ref

MU_ROUTH = 0.5 * (1 - np.sqrt(69) / 9)   # 0.03852...
J6 = ref.J6


def _catalogue():
    from hiten.utils.constants import Constants
    out = []
    for p, secs in Constants.orbital_distances.items():
        for s in secs:
            out.append((p, s))
    return out


def _cn_ref(mu, idx, gamma, nmax):
    """c_n, n=2..nmax: Taylor coefficients of W(s) = (1/gamma^2)[(1-mu)/r1 + mu/r2] along the local x axis.

    The local x-axis orientation only matters through (-1)^n; the library's convention (Jorba-Masdemont) is
    x_local pointing from the point towards the *nearest* primary mirrored, i.e. c_n defined such that the
    potential is sum c_n rho^n P_n(x/rho).  We compute both orientations and let the monitor fix the sign by n=3
    (documented: conventions are the library's own; the magnitudes and the relative signs across n are checked).
    """
    import mpmath as mpm
    mpm.mp.dps = 60
    m = mpm.mpf(mu)
    g = mpm.mpf(gamma)
    xL = {1: 1 - m - g, 2: 1 - m + g, 3: -m - g}[idx]

    def W(s):
        X = xL + g * s
        return ((1 - m) / abs(X + m) + m / abs(X - 1 + m)) / g ** 2
    # scale the expansion variable to keep the Taylor coefficients O(1): distance to nearest primary in local units
    coeffs = mpm.taylor(W, 0, nmax)
    return [coeffs[n] for n in range(nmax + 1)]


def _h2_collinear(c2):
    """Hessian of H2 = 1/2 p^2 + y px - x py - c2 x^2 + c2/2 (y^2+z^2) in (x,y,z,px,py,pz)."""
    H = np.zeros((6, 6))
    H[3, 3] = H[4, 4] = H[5, 5] = 1.0
    H[1, 3] = H[3, 1] = 1.0
    H[0, 4] = H[4, 0] = -1.0
    H[0, 0] = -2 * c2
    H[1, 1] = c2
    H[2, 2] = c2
    return H


def _h2_triangular(mu, sign):
    """Hessian of the exact canonical Hamiltonian at L4/L5 in (x,y,z,px,py,pz) (translation-only local frame)."""
    y = np.array([0.5 - mu, sign * np.sqrt(3) / 2, 0.0, 0.0, 0.0, 0.0])
    F = ref.jac(y, mu)           # lower-left block = Hessian of Omega
    Oxx, Oxy, Oyy, Ozz = F[3, 0], F[3, 1], F[4, 1], F[5, 2]
    H = np.zeros((6, 6))
    H[3, 3] = H[4, 4] = H[5, 5] = 1.0
    H[1, 3] = H[3, 1] = 1.0
    H[0, 4] = H[4, 0] = -1.0
    H[0, 0] = -(Oxx - 1)
    H[1, 1] = -(Oyy - 1)
    H[0, 1] = H[1, 0] = -Oxy
    H[2, 2] = -Ozz
    return H


def check_system(ctx, label, mu, sysm):
    (xs, xs_mp) = ref.collinear_points(mu)
    rh = (mu / 3) ** (1 / 3)
    gam_ref = {1: float(1 - mu - xs_mp[0]), 2: float(xs_mp[1] - (1 - mu)), 3: float(-mu - xs_mp[2])}
    got_pos = {}
    for idx in (1, 2, 3, 4, 5):
        # ---- the point is returned
        try:
            pt = sysm.get_libration_point(idx)
            pos = np.asarray(pt.position, dtype=float)
        except Exception as exc:
            mech = None
            if idx in (1, 2) and gam_ref[idx] < 1e-3:
                mech = "L1L2-root-bracket-excludes-gamma<1e-3"
            ctx.check(False, "1:point returned", {"system": label, "mu": mu, "L": idx, "error": repr(exc)[:300],
                                                   "gamma_ref": gam_ref.get(idx)}, mech)
            continue
        ctx.check(True, "1:point returned")
        got_pos[idx] = pos
        y0 = np.concatenate([pos, np.zeros(3)])
        fn = np.linalg.norm(ref.field(y0, mu))
        ctx.stat("equilibrium_residual", fn)
        ctx.check(fn <= 1e-8, "2:equilibrium |f(L,0)|<=1e-8", {"system": label, "mu": mu, "L": idx, "pos": pos, "res": fn})
        if idx <= 3:
            ctx.check(pos[1] == 0 and pos[2] == 0, "2:collinear y=z=0", {"mu": mu, "L": idx, "pos": pos})
            xerr = abs(pos[0] - xs[idx - 1])
            ctx.stat("collinear_x_err", xerr)
            ctx.check(xerr <= 1e-9, "2:collinear x == reference root", {"mu": mu, "L": idx, "x": pos[0], "x_ref": xs[idx - 1]})
            # gamma agrees with the position and with the reference
            try:
                g = float(pt.dynamics.gamma)
            except Exception as exc:
                ctx.check(False, "3:gamma returned", {"mu": mu, "L": idx, "error": repr(exc)[:300]})
                continue
            x_from_g = {1: 1 - mu - g, 2: 1 - mu + g, 3: -mu - g}[idx]
            ctx.stat("gamma_vs_position", abs(x_from_g - pos[0]))
            ctx.check(abs(x_from_g - pos[0]) <= 1e-9, "3:gamma agrees with position",
                      {"system": label, "mu": mu, "L": idx, "gamma": g, "x": pos[0], "x_from_gamma": x_from_g})
            ctx.stat("gamma_rel_err", abs(g - gam_ref[idx]) / gam_ref[idx])
            ctx.check(abs(g - gam_ref[idx]) <= 1e-9, "3:gamma == reference", {"mu": mu, "L": idx, "gamma": g, "ref": gam_ref[idx]})
            # c_n against Taylor coefficients (orientation fixed by the library's documented local frame:
            # L1: +x_local towards the secondary? decided from the data at n=3 once per point, then all n must agree)
            nmax = 12
            cr = _cn_ref(mu, idx, gam_ref[idx], nmax)
            try:
                cl = [float(pt.dynamics.cn(n)) for n in range(2, nmax + 1)]
            except Exception as exc:
                ctx.check(False, "4:cn returned", {"mu": mu, "L": idx, "error": repr(exc)[:300]})
                continue
            sgn3 = 1.0 if abs(cl[1] - float(cr[3])) <= abs(cl[1] + float(cr[3])) else -1.0
            for n in range(2, nmax + 1):
                refv = float(cr[n]) * (sgn3 ** n)
                tol = (1e-9 / gam_ref[idx] + 1e-12) * n * (abs(refv) + 1e-300) + 1e-13
                e = abs(cl[n - 2] - refv)
                if abs(refv) > 1e-9:
                    ctx.stat("cn_rel_err*gamma", e / abs(refv) * gam_ref[idx])
                ctx.check(e <= tol, "4:c_n == Taylor coefficient of the potential",
                          {"system": label, "mu": mu, "L": idx, "n": n, "lib": cl[n - 2], "ref": refv, "orientation": sgn3})
            c2_ref = float(cr[2])
            # linear modes = eigenvalues of the reference Jacobian at the reference point
            yref = np.array([xs[idx - 1], 0, 0, 0, 0, 0.0])
            ev = np.linalg.eigvals(ref.jac(yref, mu))
            lam_ref = float(np.max(ev.real))
            om = np.sort(np.abs(ev.imag[np.abs(ev.real) < 1e-6 * (1 + np.abs(ev).max())]))[::-1]
            om_v = float(np.sqrt(c2_ref))
            # planar frequency from c2: omega_p^2 = (2 - c2 + sqrt(9 c2^2 - 8 c2))/2
            om_p = float(np.sqrt((2 - c2_ref + np.sqrt(9 * c2_ref ** 2 - 8 * c2_ref)) / 2))
            lam_c = float(np.sqrt((c2_ref - 2 + np.sqrt(9 * c2_ref ** 2 - 8 * c2_ref)) / 2))
            try:
                lm = pt.linear_modes
                lam, w1, w2 = float(lm[0]), float(lm[1]), float(lm[2])
            except Exception as exc:
                ctx.check(False, "5:linear modes returned", {"system": label, "mu": mu, "L": idx, "error": repr(exc)[:300]})
                continue
            tol = 1e-6
            ctx.stat("mode_rel_err", max(abs(lam - lam_c) / lam_c, abs(w1 - om_p) / om_p, abs(w2 - om_v) / om_v))
            ctx.check(abs(lam - lam_c) <= tol * lam_c and abs(w1 - om_p) <= tol * om_p and abs(w2 - om_v) <= tol * om_v,
                      "5:modes == spectrum of linearisation (lambda, planar, vertical)",
                      {"system": label, "mu": mu, "L": idx, "lib": [lam, w1, w2], "ref": [lam_c, om_p, om_v]})
            # cross-check of the oracle's closed forms against the numerical spectrum (loose: eig is ill-conditioned for tiny gamma)
            if gam_ref[idx] > 1e-2 and om.size >= 2:
                ctx.check(abs(lam_ref - lam_c) <= 1e-5 * lam_c and abs(om[0] - om_p) <= 1e-5 * om_p,
                          "5:oracle closed form == eig(F_ref)", {"mu": mu, "L": idx, "eig": [lam_ref, om.tolist()], "closed": [lam_c, om_p, om_v]})
            # normal-form matrix
            try:
                C, Cinv = pt.normal_form_transform
                C = np.asarray(C, dtype=float)
                Cinv = np.asarray(Cinv, dtype=float)
            except Exception as exc:
                ctx.check(False, "6:normal form returned", {"system": label, "mu": mu, "L": idx, "error": repr(exc)[:300]})
                continue
            nC = np.linalg.norm(C, 2) ** 2
            sd = np.abs(C.T @ J6 @ C - J6).max()
            ctx.stat("symplectic_defect/|C|^2", sd / nC)
            ctx.check(sd <= 1e-9 * nC, "6:C^T J C == J", {"system": label, "mu": mu, "L": idx, "defect": sd, "normC2": nC})
            ctx.check(np.abs(C @ Cinv - np.eye(6)).max() <= 1e-9 * np.linalg.cond(C), "6:Cinv is the inverse",
                      {"mu": mu, "L": idx})
            D = C.T @ _h2_collinear(c2_ref) @ C
            Dref = np.zeros((6, 6))
            Dref[0, 3] = Dref[3, 0] = lam_c
            Dref[1, 1] = Dref[4, 4] = om_p
            Dref[2, 2] = Dref[5, 5] = om_v
            dd = np.abs(D - Dref).max()
            ctx.stat("H2_diag_defect/|C|^2", dd / nC)
            ctx.check(dd <= 1e-8 * nC * (1 + c2_ref) , "6:C^T H2 C == lambda q1p1 + w1/2(q2^2+p2^2) + w2/2(q3^2+p3^2)",
                      lambda: {"system": label, "mu": mu, "L": idx, "defect": dd, "got": D, "want": Dref})
        else:
            sign = 1 if idx == 4 else -1
            pref = np.array([0.5 - mu, sign * np.sqrt(3) / 2, 0.0])
            ctx.check(np.abs(pos - pref).max() <= 1e-12, "2:triangular position", {"mu": mu, "L": idx, "pos": pos})
            yref = np.concatenate([pref, np.zeros(3)])
            ev = np.linalg.eigvals(ref.jac(yref, mu))
            stable = mu < MU_ROUTH * (1 - 1e-6)
            try:
                lm = pt.linear_modes
                w = [float(v) for v in lm]
                C, Cinv = pt.normal_form_transform
                C = np.asarray(C, dtype=float)
            except Exception as exc:
                if not stable:
                    ctx.count("5:triangular above Routh: raised (accepted)")
                    continue
                mech = None
                if mu < 2e-5 and "Expected 6 eigenvalues" in repr(exc):
                    mech = "triangular-modes-eigenvalue-filter-small-mu"
                ctx.check(False, "5:triangular linear modes returned (mu<mu_Routh)",
                          {"system": label, "mu": mu, "L": idx, "error": repr(exc)[:300]}, mech)
                continue
            if not stable:
                # reported values, if any, must still be right: frequencies must belong to the spectrum
                ok = all(np.min(np.abs(np.abs(ev.imag) - abs(v))) <= 1e-6 for v in w if np.isfinite(v))
                ctx.check(ok, "5:triangular above Routh: reported values belong to spectrum", {"mu": mu, "L": idx, "lib": w, "eig": ev})
                continue
            # omega^2 = (1 +- sqrt(1 - 27 mu (1-mu)))/2
            disc = np.sqrt(1 - 27 * mu * (1 - mu))
            wl, ws = np.sqrt((1 + disc) / 2), np.sqrt((1 - disc) / 2)
            got = sorted(abs(v) for v in w)
            want = sorted([wl, ws, 1.0])
            err = max(abs(a - b) / b for a, b in zip(got, want))
            ctx.stat("tri_mode_rel_err", err)
            ctx.check(err <= 1e-6, "5:triangular modes == spectrum", {"system": label, "mu": mu, "L": idx, "lib": w, "ref": want})
            nC = np.linalg.norm(C, 2) ** 2
            sd = np.abs(C.T @ J6 @ C - J6).max()
            ctx.stat("tri_symplectic_defect/|C|^2", sd / nC)
            ctx.check(sd <= 1e-8 * nC, "6:triangular C^T J C == J", {"system": label, "mu": mu, "L": idx, "defect": sd, "normC2": nC})
            D = C.T @ _h2_triangular(mu, sign) @ C
            Dref = np.diag([w[0], w[1], w[2], w[0], w[1], w[2]])
            dd = np.abs(D - Dref).max()
            ctx.stat("tri_H2_diag_defect/|C|^2", dd / nC)
            ctx.check(dd <= 1e-7 * nC, "6:triangular C^T H2 C == sum w_i/2 (q_i^2+p_i^2)",
                      lambda: {"system": label, "mu": mu, "L": idx, "defect": dd, "got": D, "want": Dref})
    if all(k in got_pos for k in (1, 2, 3)):
        ctx.check(got_pos[3][0] < -mu < got_pos[1][0] < 1 - mu < got_pos[2][0], "2:ordering L3 < m1 < L1 < m2 < L2",
                  {"mu": mu, "x": [got_pos[k][0] for k in (1, 2, 3)]})


def run(ctx):
    from hiten import System
    ctx.note("rule", "case = one system (catalogue pair or mu); all five points examined; non-trivial = every case "
                     "(distinct mu); classes: catalogue / log-uniform mu in [2e-9,0.5] / edge set")
    rng = ctx.rng
    work = []
    for (p, s) in _catalogue():
        work.append(("catalogue", f"{p}-{s}", None))
    edges = [0.5, MU_ROUTH * (1 - 1e-3), MU_ROUTH * (1 + 1e-3), 0.0385, 1e-5, 2e-5, 3e-9, 2.3e-9, 1e-7, 0.25, 0.49999]
    for m in edges:
        work.append(("edge", None, m))
    for _ in range(ctx.pick(120, 6000)):
        work.append(("loguniform", None, mu_log_uniform(rng)))
    ctx.note("catalogue_pairs", len(_catalogue()))
    for k, (cls, name, mu) in enumerate(work):
        if not ctx.mine(k):
            continue

        def one():
            if name is not None:
                p, s = name.split("-")
                sysm = System.from_bodies(p, s)
                label = name
            else:
                sysm = System.from_mu(mu)
                label = f"mu={mu!r}"
            m = float(sysm.mu)
            ctx.case(cls, [label, m], nontrivial=True)
            if k < 6:
                ctx.sample({"class": cls, "system": label, "mu": m})
            check_system(ctx, label, m, sysm)
        guarded(ctx, f"system {name or mu}", one)
    ctx.require("1:point returned", 50 if ctx.nshards == 1 else 5)
    ctx.require("6:C^T J C == J", 20 if ctx.nshards == 1 else 3)
    ctx.require("4:c_n == Taylor coefficient of the potential", 100 if ctx.nshards == 1 else 10)
