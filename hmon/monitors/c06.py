"""C06 -- polynomial algebra is exact and independent of thread scheduling.

Four sub-monitors (DESIGN.md section 4, C06):

1. ``bijection``  exhaustive index bijection for every degree d <= 30 and every slot (1 947 792 slots), through a
   harness-side ``njit`` loop that calls the library's ``_decode_multiindex`` / ``_encode_multiindex`` on the
   global tables and on freshly built ones, plus an independent enumeration of all monomials.
2. ``refmodel``   every kernel / list-level operation of ``hiten.algorithms.polynomial.{algebra,operations,
   coordinates}`` against the exact sparse algebra ``hmon.oracles.refpoly``.  Integer / Gaussian-integer inputs:
   the result must EQUAL exact integer arithmetic (signed zeros are not distinguished); float inputs are turned
   into exact dyadic rationals, so the reference is the exactly rounded true result and the library may deviate
   by at most K*eps*sum|terms| (majorant computed with absolute values through the same exact algebra).
3. ``schedule``   determinism oracle: dense Gaussian-integer cases re-executed under ``numba.set_num_threads(n)``,
   R repetitions, threading layers omp / workqueue in separate sub-processes, with and without CPU hogs;
   every execution must equal the exact result.  A harness ``prange`` probe of identical trip count records the
   iteration -> thread partition per thread count.
4. ``sanitizer``  a subset of (1)-(3) re-run in a sub-process with ``NUMBA_BOUNDSCHECK=1``; any IndexError is a
   violation.

Sign convention verified by ``canonical``: {q_i, p_j} = +delta_ij with variables ordered (q1,q2,q3,p1,p2,p3).
"""
from __future__ import annotations

import json
import math
import os
import shutil
import subprocess
import sys
import tempfile
import threading
import time
from fractions import Fraction
from itertools import product as iproduct

import numpy as np

from ..core import Ctx, Inconclusive, guarded
from ..oracles import refpoly as R

EPS = float(np.finfo(float).eps)
K_TOL = 64.0                      # DESIGN: tolerance 64 * eps * sum|terms|
EXACT_LIMIT = 2 ** 50             # integer results are claimed exact only while every partial sum < 2^50
MAX_OP_DEG = 8                    # property: "all coefficient arrays of degree <= 8 for the operations"
TABLE_DEG = 30
THREADS_FULL = (1, 2, 3, 4, 5, 7, 8, 11, 16)
THREADS_QUICK = (2, 4, 7, 16)
N_HOGS = 24


# ====================================================================== library handle
class Lib:
    """Lazy import of the code under test (import hiten ~ 12 s)."""

    def __init__(self):
        import numba
        from hiten.algorithms.polynomial import algebra, base, coordinates, operations
        self.numba = numba
        self.base, self.alg, self.ops, self.coords = base, algebra, operations, coordinates
        self.psi, self.clmo, self.enc = base._PSI_GLOBAL, base._CLMO_GLOBAL, base._ENCODE_DICT_GLOBAL
        self.tables = (self.psi, self.clmo, self.enc)
        self.max_threads = int(numba.config.NUMBA_NUM_THREADS)

    def set_threads(self, n):
        n = max(1, min(int(n), self.max_threads))
        self.numba.set_num_threads(n)
        return n


_HARNESS = {}


def harness_kernels():
    """Harness-side numba functions (compiled once per process)."""
    if _HARNESS:
        return _HARNESS
    import numba
    from numba import get_num_threads, get_thread_id, njit, prange
    from hiten.algorithms.polynomial.base import _decode_multiindex, _encode_multiindex

    @njit(cache=False)
    def scan_decode_encode(dmax, clmo, enc, fails):
        """Every slot: decode -> (range, sum) checks -> encode must give the slot back.
        fails[r] = (kind, d, pos, a, b); returns (#slots visited, #failures)."""
        nf = 0
        nslots = 0
        k = np.empty(6, dtype=np.int64)
        for d in range(dmax + 1):
            n = clmo[d].shape[0]
            for pos in range(n):
                nslots += 1
                kk = _decode_multiindex(pos, d, clmo)
                s = 0
                bad = False
                for m in range(6):
                    k[m] = kk[m]
                    s += kk[m]
                    if kk[m] < 0 or kk[m] > 63:
                        bad = True
                if bad or s != d:
                    if nf < fails.shape[0]:
                        fails[nf, 0] = 1
                        fails[nf, 1] = d
                        fails[nf, 2] = pos
                        fails[nf, 3] = s
                        fails[nf, 4] = k[0]
                    nf += 1
                    continue
                back = _encode_multiindex(k, d, enc)
                if back != pos:
                    if nf < fails.shape[0]:
                        fails[nf, 0] = 2
                        fails[nf, 1] = d
                        fails[nf, 2] = pos
                        fails[nf, 3] = back
                        fails[nf, 4] = 0
                    nf += 1
        return nslots, nf

    @njit(cache=False)
    def scan_enumerate(dmax, clmo, enc, fails):
        """Independent enumeration (ascending loops, last variable outermost) of all monomials of degree d:
        encode -> slot in range, decode(slot) == monomial, every slot hit exactly once."""
        nf = 0
        nmono = 0
        k = np.empty(6, dtype=np.int64)
        for d in range(dmax + 1):
            n = clmo[d].shape[0]
            hit = np.zeros(n, dtype=np.int64)
            cnt = 0
            for k5 in range(d + 1):
                for k4 in range(d + 1 - k5):
                    for k3 in range(d + 1 - k5 - k4):
                        for k2 in range(d + 1 - k5 - k4 - k3):
                            for k1 in range(d + 1 - k5 - k4 - k3 - k2):
                                k0 = d - k5 - k4 - k3 - k2 - k1
                                k[0] = k0
                                k[1] = k1
                                k[2] = k2
                                k[3] = k3
                                k[4] = k4
                                k[5] = k5
                                cnt += 1
                                pos = _encode_multiindex(k, d, enc)
                                ok = 0 <= pos < n
                                if ok:
                                    kk = _decode_multiindex(pos, d, clmo)
                                    for m in range(6):
                                        if kk[m] != k[m]:
                                            ok = False
                                    hit[pos] += 1
                                if not ok:
                                    if nf < fails.shape[0]:
                                        fails[nf, 0] = 3
                                        fails[nf, 1] = d
                                        fails[nf, 2] = pos
                                        fails[nf, 3] = k1 + 100 * k2 + 10000 * k3 + 1000000 * k4 + 100000000 * k5
                                        fails[nf, 4] = k0
                                    nf += 1
            nmono += cnt
            if cnt != n:
                if nf < fails.shape[0]:
                    fails[nf, 0] = 4
                    fails[nf, 1] = d
                    fails[nf, 2] = cnt
                    fails[nf, 3] = n
                    fails[nf, 4] = 0
                nf += 1
            for pos in range(n):
                if hit[pos] != 1:
                    if nf < fails.shape[0]:
                        fails[nf, 0] = 5
                        fails[nf, 1] = d
                        fails[nf, 2] = pos
                        fails[nf, 3] = hit[pos]
                        fails[nf, 4] = 0
                    nf += 1
        return nmono, nf

    @njit(cache=False)
    def tables_equal(clmo_a, clmo_b, dmax):
        for d in range(dmax + 1):
            if clmo_a[d].shape[0] != clmo_b[d].shape[0]:
                return d
            for i in range(clmo_a[d].shape[0]):
                if clmo_a[d][i] != clmo_b[d][i]:
                    return d
        return -1

    @njit(cache=False, parallel=True)
    def partition_probe(n_iter):
        out = np.empty(n_iter, dtype=np.int64)
        for i in prange(n_iter):
            out[i] = get_thread_id()
        return out, get_num_threads()

    @njit(cache=False)
    def oob_probe(a, i):
        return a[i]

    _HARNESS.update(scan_decode_encode=scan_decode_encode, scan_enumerate=scan_enumerate,
                    tables_equal=tables_equal, partition_probe=partition_probe, oob_probe=oob_probe)
    return _HARNESS


FAIL_KIND = {1: "decode: exponent out of [0,63] or sum != degree", 2: "encode(decode(pos)) != pos",
             3: "encode(monomial) out of range or decode(encode(monomial)) != monomial",
             4: "number of monomials != number of slots", 5: "slot not hit exactly once by the enumeration"}


# ====================================================================== (1) index bijection
def bijection(ctx, L, dmax=TABLE_DEG, label="global"):
    H = harness_kernels()
    psi, clmo, enc = L.tables
    # table shapes against math.comb (independent)
    ctx.check(len(clmo) == dmax + 1 and len(enc) == dmax + 1 and psi.shape == (7, dmax + 1),
              "B:tables cover degrees 0..30", {"len_clmo": len(clmo), "len_enc": len(enc), "psi_shape": psi.shape})
    total = 0
    for d in range(dmax + 1):
        n = len(clmo[d])
        total += n
        ctx.check(n == math.comb(d + 5, 5) == int(psi[6, d]) == len(enc[d]), "B:slot count == C(d+5,5)",
                  {"d": d, "slots": n, "comb": math.comb(d + 5, 5), "psi": int(psi[6, d]), "dict": len(enc[d])})
        for i in range(1, 7):
            ctx.check(int(psi[i, d]) == math.comb(d + i - 1, i - 1), "B:psi[i,d] == C(d+i-1,i-1)",
                      {"i": i, "d": d, "psi": int(psi[i, d])})
    ctx.note("n_slots_total", total) if label == "global" else None

    def run_scan(fn, name, tabs, what):
        fails = np.zeros((16, 5), dtype=np.int64)
        t0 = time.time()
        n, nf = fn(dmax, tabs[0], tabs[1], fails)
        ctx.case(f"bijection:{name}[{what}]", [name, what, dmax], nontrivial=True)
        ctx.count(f"B:slots scanned ({name},{what})", int(n))
        ctx.note(f"wall_{name}_{what}_s", round(time.time() - t0, 2))
        ctx.check(int(n) == total, f"B:{name} visited all {total} slots", {"visited": int(n), "tables": what})
        wit = [{"kind": FAIL_KIND.get(int(r[0]), int(r[0])), "d": int(r[1]), "pos_or_count": int(r[2]),
                "a": int(r[3]), "b": int(r[4])} for r in fails[:min(nf, 16)]]
        ctx.check(nf == 0, f"B:{name} holds for every slot of every degree <= {dmax}",
                  {"tables": what, "n_failures": int(nf), "first": wit})
    run_scan(H["scan_decode_encode"], "encode(decode(pos))==pos, sum==d, 0<=k<=63", (clmo, enc), "global")
    run_scan(H["scan_enumerate"], "independent enumeration <-> slots bijective", (clmo, enc), "global")

    # freshly built tables (the functions users call for a private table) must reproduce the global ones
    psi_f, clmo_f = L.base._init_index_tables(dmax)
    enc_f = L.base._create_encode_dict_from_clmo(clmo_f)
    ctx.check(np.array_equal(psi_f, psi), "B:fresh _init_index_tables(30) psi == global", None)
    dd = int(H["tables_equal"](clmo_f, clmo, dmax))
    ctx.check(dd == -1, "B:fresh _init_index_tables(30) clmo == global", {"first_differing_degree": dd})
    run_scan(H["scan_decode_encode"], "encode(decode(pos))==pos, sum==d, 0<=k<=63", (clmo_f, enc_f), "fresh")
    run_scan(H["scan_enumerate"], "independent enumeration <-> slots bijective", (clmo_f, enc_f), "fresh")
    for dsmall in (0, 1, 5):
        psi_s, clmo_s = L.base._init_index_tables(dsmall)
        ctx.check(len(clmo_s) == dsmall + 1 and int(H["tables_equal"](clmo_s, clmo, dsmall)) == -1
                  and np.array_equal(psi_s, psi[:, :dsmall + 1]), "B:_init_index_tables(d) is a prefix of the global table",
                  {"d": dsmall})

    # python-level: independent itertools enumeration for d <= 8 (every call crosses the python boundary)
    dec, encf = L.base._decode_multiindex, L.base._encode_multiindex
    for d in range(0, 9):
        monos = [k for k in iproduct(range(d + 1), repeat=6) if sum(k) == d] if d <= 4 else list(R.monomials(d))
        seen = set()
        ok = len(monos) == len(clmo[d])
        bad = None
        for k in monos:
            pos = int(encf(np.array(k, dtype=np.int64), d, enc))
            if not (0 <= pos < len(clmo[d])) or tuple(int(v) for v in dec(pos, d, clmo)) != k or pos in seen:
                ok, bad = False, {"k": k, "pos": pos}
                break
            seen.add(pos)
        ctx.case("bijection:itertools", [d], nontrivial=True)
        ctx.check(ok and len(seen) == len(clmo[d]), "B:itertools enumeration (d<=8) <-> slots bijective via python calls",
                  {"d": d, "bad": bad, "n_monomials": len(monos), "slots": len(clmo[d])})
    # refpoly's layout helper must agree (it is what sub-monitor 2 uses to place coefficients)
    for d in (0, 1, 2, 5, 8):
        exps, index = R.layout(d)
        ctx.check(len(index) == len(exps) == math.comb(d + 5, 5) and all(sum(e) == d for e in exps),
                  "B:layout helper is a bijection onto the monomials", {"d": d})

    # out-of-table queries
    k = np.zeros(6, dtype=np.int64)
    k[1] = 2
    for d in (-1, dmax + 1, dmax + 7, 10 ** 6):
        ctx.check(int(encf(k, d, enc)) == -1, "B:encode with degree outside the table returns -1", {"d": d})
    rng = ctx.rng
    for _ in range(200):
        d = int(rng.integers(0, dmax + 1))
        kk = rng.integers(0, 64, 6).astype(np.int64)
        if int(kk[1:].sum()) <= d:
            kk[1 + int(rng.integers(5))] += d + 1
            kk %= 64
            if int(kk[1:].sum()) <= d:
                continue
        # k1..k5 alone already exceed the degree: no monomial of degree d has these exponents
        ctx.check(int(encf(kk, d, enc)) == -1, "B:encode of exponents not in the degree-d table returns -1",
                  {"d": d, "k": kk.tolist()})
    # documented-but-unspecified: k0 is ignored by the encoder (position decided by k1..k5 and the degree)
    k = np.array([5, 1, 0, 0, 0, 0], dtype=np.int64)
    ctx.note("encode_ignores_k0", {"k": k.tolist(), "degree": 2, "returned": int(encf(k, 2, enc)),
                                   "comment": "property is silent on inconsistent (k, degree) queries; recorded only"})


# ====================================================================== generators (exact coefficient types)
INT_COEFS = ("gint", "int", "rint")          # exact-equality classes
FLOAT_COEFS = ("cplx", "real", "rreal")      # tolerance classes (exact dyadic rationals)
REAL_DTYPE = ("rint", "rreal")               # stored in float64 blocks (kernel level only)


def gen_coef(rng, cls):
    if cls == "gint":
        while True:
            a, b = int(rng.integers(-7, 8)), int(rng.integers(-7, 8))
            if a or b:
                return R.Gauss(a, b)
    if cls in ("int", "rint"):
        v = int(rng.integers(1, 8))
        return v if rng.random() < 0.5 else -v
    sc = 10.0 ** rng.uniform(-2, 2)
    if cls == "cplx":
        return R.Gauss(Fraction(float(rng.normal() * sc)), Fraction(float(rng.normal() * sc)))
    x = float(rng.normal() * sc)
    return Fraction(x if x != 0.0 else 1.0)


def gen_scalar(rng, cls):
    """A scalar of the same exactness family as the coefficient class."""
    return gen_coef(rng, {"rint": "int", "rreal": "real"}.get(cls, cls))


def rand_monomial(rng, d):
    cuts = sorted(int(v) for v in rng.integers(0, d + 1, 5))
    e = [b - a for a, b in zip([0] + cuts, cuts + [d])]
    rng.shuffle(e)
    return tuple(int(v) for v in e)


SHAPES = ("dense", "sparse", "zero", "mono", "highmono")


def gen_block(rng, d, shape, coef, cap=None):
    """Homogeneous polynomial of degree d as refpoly dict."""
    n = math.comb(d + 5, 5)
    if shape == "zero":
        return {}
    if shape == "mono":
        return {rand_monomial(rng, d): gen_coef(rng, coef)}
    if shape == "highmono":        # x_v^d or x_v^(d-1) x_w
        v, w = (int(x) for x in rng.choice(6, 2, replace=False))
        e = [0] * 6
        if d >= 1 and rng.random() < 0.4:
            e[v], e[w] = d - 1, 1
        else:
            e[v] = d
        return {tuple(e): gen_coef(rng, coef)}
    exps, _ = R.layout(d)
    if shape == "dense" and (cap is None or n <= cap):
        idx = range(n)
    else:
        m = int(rng.integers(1, min(n, cap or 12, 40) + 1)) if shape == "sparse" else min(n, cap)
        idx = rng.choice(n, m, replace=False)
    return {exps[int(i)]: gen_coef(rng, coef) for i in idx}


def gen_poly(rng, max_deg, shape, coef, cap=None, min_deg=0):
    """Inhomogeneous polynomial: random subset of degrees carries a block of the given shape."""
    p = {}
    degs = [d for d in range(min_deg, max_deg + 1) if rng.random() < 0.6]
    if not degs and shape != "zero":
        degs = [int(rng.integers(min_deg, max_deg + 1))]
    for d in degs:
        p.update(gen_block(rng, d, shape, coef, cap))
    return p


def is_int_class(coef):
    return coef in INT_COEFS


def block_dtype(coef):
    return np.float64 if coef in REAL_DTYPE else np.complex128


def poisson_majorant(f, g):
    """Sum of |terms| of the bracket: same products, all signs positive (f, g already absolute)."""
    r = {}
    for i in range(3):
        r = R.add(r, R.mul(R.diff(f, i), R.diff(g, 3 + i)))
        r = R.add(r, R.mul(R.diff(f, 3 + i), R.diff(g, i)))
    return r


def small(p, limit=40):
    """Printable form of a polynomial for witnesses."""
    items = sorted(p.items())[:limit]
    out = [[list(e), [float(complex(c).real), float(complex(c).imag)]] for e, c in items]
    return {"n_terms": len(p), "terms": out}


# ====================================================================== comparison
class Cmp:
    """Compares library blocks with the exact reference; one ctx.check per compared array."""

    def __init__(self, ctx, op, exact, wit, K=K_TOL, abs_tol=0.0, prefix="R"):
        self.ctx, self.op, self.exact, self.wit, self.K, self.abs_tol, self.prefix = ctx, op, exact, wit, K, abs_tol, prefix
        self.ok = True

    def clause(self):
        if self.exact:
            return f"{self.prefix}:{self.op} == exact integer arithmetic"
        return f"{self.prefix}:{self.op} within {self.K:g}*eps*sum|terms| of the exact result"

    def block(self, got, ref, maj, d, what=""):
        """got: numpy array from the library; ref/maj: refpoly dicts (only degree-d parts are used)."""
        ctx = self.ctx
        got = np.asarray(got)
        n = math.comb(d + 5, 5)
        if got.ndim != 1 or got.shape[0] != n:
            self.ok = False
            return ctx.check(False, f"{self.prefix}:{self.op} result block has C(d+5,5) slots",
                             lambda: {**self.wit(), "what": what, "d": d, "shape": got.shape, "expected": n})
        exp = R.to_block(ref, d)
        return self.array(got, exp, R.to_block(maj, d, np.float64) if not self.exact else None, d, what)

    def array(self, got, exp, majarr, d=None, what=""):
        ctx = self.ctx
        got = np.asarray(got).astype(np.complex128)
        exp = np.asarray(exp).astype(np.complex128)
        if got.shape != exp.shape:
            self.ok = False
            return ctx.check(False, f"{self.prefix}:{self.op} result shape", lambda: {**self.wit(), "what": what, "got": got.shape,
                                                                                   "expected": exp.shape})
        if self.exact:
            bad = ~(got == exp)
        else:
            err = np.abs(got - exp)
            tol = self.K * EPS * majarr + self.abs_tol
            bad = ~(err <= tol)
            pos = majarr > 0
            if pos.any():
                with np.errstate(invalid="ignore", divide="ignore"):
                    ratio = np.where(pos, np.maximum(err - self.abs_tol, 0.0) / (EPS * np.where(pos, majarr, 1.0)), 0.0)
                ctx.stat(f"err/(eps*sum|terms|) [{self.op}] (tol {self.K:g})", float(np.nanmax(ratio)))
        ok = not bad.any()
        if not ok:
            self.ok = False

        def w():
            idx = np.nonzero(bad)[0][:4]
            ex = R.layout(d)[0] if d is not None else None
            mm = [{"slot": int(i), "exps": (list(ex[int(i)]) if ex else None), "lib": complex(got[i]), "ref": complex(exp[i]),
                   "sum_abs_terms": (float(majarr[i]) if majarr is not None else None)} for i in idx]
            return {**self.wit(), "what": what, "degree_of_block": d, "n_mismatching_slots": int(bad.sum()), "first_mismatches": mm}
        return ctx.check(ok, self.clause(), w)

    def scalar(self, got, ref, maj, what=""):
        return self.array(np.array([got]), np.array([complex(ref)]), None if self.exact else np.array([float(maj)]), None, what)

    def poly_list(self, got, ref, maj, n_blocks, what=""):
        """got: library list of blocks; must have exactly n_blocks blocks equal to the parts of ref."""
        ctx = self.ctx
        got = list(got)
        if len(got) != n_blocks:
            self.ok = False
            return ctx.check(False, f"{self.prefix}:{self.op} result list length", lambda: {**self.wit(), "what": what, "len": len(got),
                                                                                         "expected": n_blocks})
        if R.degree(ref) >= n_blocks:
            raise AssertionError("harness: reference has terms above the list length")
        allok = True
        for d in range(n_blocks):
            allok &= bool(self.block(got[d], ref, maj, d, what))
        return allok


def exactness(coef, majorant_l1, divides=False):
    """Exact-equality claim only for integer classes whose every partial sum stays below 2^50."""
    return is_int_class(coef) and not divides and majorant_l1 < EXACT_LIMIT


# ====================================================================== (2) reference-model monitor: one case per call
class Case:
    def __init__(self, ctx, L, rng, op, coef, shape, info, prefix="R"):
        self.ctx, self.L, self.rng, self.op, self.coef, self.shape, self.info, self.prefix = ctx, L, rng, op, coef, shape, info, prefix
        self.inputs = {}

    def wit(self):
        return {"op": self.op, "coef_class": self.coef, "shape_class": self.shape, **self.info,
                "inputs": {k: (small(v) if isinstance(v, dict) else v) for k, v in self.inputs.items()}}

    def call(self, fn, *a):
        try:
            return True, fn(*a)
        except Exception as e:  # a library exception on a valid input is an observation, not a harness error
            if isinstance(e, IndexError):
                clause = "Z:no IndexError (NUMBA_BOUNDSCHECK sanitizer / python indexing)"
            else:
                clause = f"{self.prefix}:{self.op} returns on valid input"
            self.ctx.check(False, clause, lambda: {**self.wit(), "error": f"{type(e).__name__}: {e}"[:400]})
            return False, None

    def cmp(self, exact, K=K_TOL, abs_tol=0.0):
        return Cmp(self.ctx, self.op, exact, self.wit, K, abs_tol, self.prefix)

    def unchanged(self, pairs):
        ok = all(np.array_equal(a, b) for a, b in pairs)
        self.ctx.check(ok, f"{self.prefix}:{self.op} leaves its inputs unchanged", self.wit)

    def register(self, key_extra=None, nontrivial=True):
        self.ctx.case(f"ref:{self.op}", [self.op, self.coef, self.shape, self.info.get("base"), self.info.get("it"), key_extra],
                      nontrivial=nontrivial)
        _CLASSES_SEEN[f"{self.shape}/{self.coef}"] = _CLASSES_SEEN.get(f"{self.shape}/{self.coef}", 0) + 1


_CLASSES_SEEN = {}


def _copies(blocks):
    return [np.array(b, copy=True) for b in blocks]


def _caps(coef, n_other=1):
    """nnz cap so that one case stays cheap for the exact oracle (Fractions are ~10x slower than ints)."""
    budget = 30000 if is_int_class(coef) else 2500
    return max(1, budget // max(1, n_other))


def op_add(c):
    rng, L = c.rng, c.L
    d = int(rng.integers(0, MAX_OP_DEG + 1))
    p, q = gen_block(rng, d, c.shape, c.coef, 400), gen_block(rng, d, "sparse" if c.shape == "zero" else c.shape, c.coef, 400)
    c.inputs.update(d=d, p=p, q=q)
    dt = block_dtype(c.coef)
    pa, qa = R.to_block(p, d, dt), R.to_block(q, d, dt)
    out = np.full(len(pa), 99.0, dtype=dt)
    c.register(d, nontrivial=bool(p) and bool(q))
    ok, _ = c.call(L.alg._poly_add, pa, qa, out)
    if ok:
        c.cmp(is_int_class(c.coef)).block(out, R.add(p, q), R.add(R.absmodel(p), R.absmodel(q)), d)


def op_scale(c):
    rng, L = c.rng, c.L
    d = int(rng.integers(0, MAX_OP_DEG + 1))
    p = gen_block(rng, d, c.shape, c.coef, 400)
    a = gen_scalar(rng, c.coef)
    if c.coef in REAL_DTYPE:
        alpha = int(a) if c.coef == "rint" and rng.random() < 0.5 else float(a)
    else:
        alpha = complex(a)
    c.inputs.update(d=d, p=p, alpha=alpha)
    dt = block_dtype(c.coef)
    pa = R.to_block(p, d, dt)
    out = np.full(len(pa), 99.0, dtype=dt)
    c.register(d, nontrivial=bool(p))
    ok, _ = c.call(L.alg._poly_scale, pa, alpha, out)
    if ok:
        c.cmp(is_int_class(c.coef)).block(out, R.scale(p, a), R.scale(R.absmodel(p), R.absval(a)), d)


def _deg_pair(rng, total_max=MAX_OP_DEG, lo=0):
    dp = int(rng.integers(lo, total_max + 1 - lo))
    dq = int(rng.integers(lo, total_max - dp + 1))
    return (dp, dq) if rng.random() < 0.5 else (dq, dp)


def op_mul(c):
    rng, L = c.rng, c.L
    dp, dq = _deg_pair(rng)
    p = gen_block(rng, dp, c.shape, c.coef, _caps(c.coef, 30))
    q = gen_block(rng, dq, "dense" if c.shape == "zero" and rng.random() < 0.5 else c.shape, c.coef, _caps(c.coef, max(1, len(p))))
    if rng.random() < 0.5:
        p, q, dp, dq = q, p, dq, dp
    c.inputs.update(dp=dp, dq=dq, p=p, q=q)
    dt = block_dtype(c.coef)
    pa, qa = R.to_block(p, dp, dt), R.to_block(q, dq, dt)
    pa0, qa0 = pa.copy(), qa.copy()
    c.register([dp, dq], nontrivial=bool(p) and bool(q))
    ok, r = c.call(L.alg._poly_mul, pa, dp, qa, dq, *L.tables)
    if ok:
        maj = R.mul(R.absmodel(p), R.absmodel(q))
        c.cmp(exactness(c.coef, R.l1(maj))).block(r, R.mul(p, q), maj, dp + dq)
        c.unchanged([(pa, pa0), (qa, qa0)])
        c.ctx.check(r.dtype == np.dtype(dt), "R:kernel result keeps the coefficient dtype", c.wit)


def op_diff(c):
    rng, L = c.rng, c.L
    d = int(rng.integers(0, MAX_OP_DEG + 1))
    v = int(rng.integers(6))
    p = gen_block(rng, d, c.shape, c.coef, 1300)
    c.inputs.update(d=d, var=v, p=p)
    dt = block_dtype(c.coef)
    pa = R.to_block(p, d, dt)
    pa0 = pa.copy()
    c.register([d, v], nontrivial=any(e[v] > 0 for e in p))
    ok, r = c.call(L.alg._poly_diff, pa, v, d, *L.tables)
    if ok:
        ref = R.diff(p, v)
        c.cmp(is_int_class(c.coef)).block(r, ref, R.diff(R.absmodel(p), v), max(d - 1, 0))
        c.unchanged([(pa, pa0)])


def op_integrate(c):
    rng, L = c.rng, c.L
    d = int(rng.integers(0, MAX_OP_DEG))
    v = int(rng.integers(6))
    p = gen_block(rng, d, c.shape, c.coef, 800)
    c.inputs.update(d=d, var=v, p=p)
    dt = block_dtype(c.coef)
    pa = R.to_block(p, d, dt)
    c.register([d, v], nontrivial=bool(p))
    ok, r = c.call(L.alg._poly_integrate, pa, v, d, *L.tables)
    if ok:
        # division: exact only when every divisor divides (checked by the tolerance rule; 1/(k+1) is one rounding)
        c.cmp(False).block(r, R.integrate(p, v), R.integrate(R.absmodel(p), v), d + 1)


def op_poisson(c):
    rng, L = c.rng, c.L
    dp, dq = _deg_pair(rng, MAX_OP_DEG + 2)
    if dp + dq - 2 > MAX_OP_DEG:
        dp = max(0, dp - 1)
    p = gen_block(rng, dp, c.shape, c.coef, _caps(c.coef, 60) // 2)
    q = gen_block(rng, dq, "dense" if c.shape == "zero" and rng.random() < 0.5 else c.shape, c.coef,
                  max(1, _caps(c.coef, max(1, len(p))) // 6))
    c.inputs.update(dp=dp, dq=dq, p=p, q=q)
    dt = block_dtype(c.coef)
    pa, qa = R.to_block(p, dp, dt), R.to_block(q, dq, dt)
    pa0, qa0 = pa.copy(), qa.copy()
    ref = R.poisson(p, q)
    c.register([dp, dq], nontrivial=bool(ref))
    ok, r = c.call(L.alg._poly_poisson, pa, dp, qa, dq, *L.tables)
    if ok:
        maj = poisson_majorant(R.absmodel(p), R.absmodel(q))
        cm = c.cmp(exactness(c.coef, R.l1(maj)))
        if dp == 0 or dq == 0:      # documented: bracket with a constant is the degree-0 zero block
            cm.array(r, np.zeros(1), np.zeros(1), 0, "bracket with a constant")
        else:
            cm.block(r, ref, maj, dp + dq - 2)
        c.unchanged([(pa, pa0), (qa, qa0)])


def gen_point(rng, coef):
    if is_int_class(coef):
        if coef == "gint":
            return [R.Gauss(int(rng.integers(-3, 4)), int(rng.integers(-3, 4))) for _ in range(6)]
        return [int(rng.integers(-3, 4)) for _ in range(6)]
    if coef == "cplx":
        return [R.Gauss(Fraction(float(rng.normal())), Fraction(float(rng.normal()))) for _ in range(6)]
    return [Fraction(float(rng.normal())) for _ in range(6)]


def point_array(x, real=False):
    return np.array([complex(v).real for v in x], dtype=np.float64) if real else np.array([complex(v) for v in x], dtype=np.complex128)


def op_evaluate(c):
    rng, L = c.rng, c.L
    d = int(rng.integers(0, MAX_OP_DEG + 1))
    p = gen_block(rng, d, c.shape, c.coef, 1300 if is_int_class(c.coef) else 150)
    x = gen_point(rng, c.coef)
    if rng.random() < 0.2:
        x[int(rng.integers(6))] = 0
    c.inputs.update(d=d, p=p, point=[complex(v) for v in x])
    dt = block_dtype(c.coef)
    pa = R.to_block(p, d, dt)
    xa = point_array(x, real=(c.coef in REAL_DTYPE and rng.random() < 0.5))
    c.register(d, nontrivial=bool(p))
    ok, r = c.call(L.alg._poly_evaluate, pa, d, xa, L.clmo)
    if ok:
        maj = R.evaluate(R.absmodel(p), [R.absval(v) for v in x])
        c.cmp(exactness(c.coef, maj)).scalar(r, R.evaluate(p, x), maj)


def op_reduced_monomial(c):
    rng, L = c.rng, c.L
    d = int(rng.integers(1, MAX_OP_DEG + 1))
    k = rand_monomial(rng, d)
    vs = [i for i in range(6) if k[i] > 0]
    v = int(rng.choice(vs))
    change = int(rng.choice([-1, 0, 1])) if k[v] >= 1 else 1
    x = gen_point(rng, c.coef)
    if not is_int_class(c.coef):      # the helper treats |x| <= 1e-15 as zero: keep away from that (property silent there)
        x = [xi if abs(complex(xi)) > 1e-3 else (xi + 1) for xi in x]
    c.inputs.update(k=list(k), var=v, exp_change=change, point=[complex(t) for t in x])
    kk = list(k)
    kk[v] += change
    ref = R.evaluate({tuple(kk): 1}, x)
    maj = R.evaluate({tuple(kk): 1}, [R.absval(t) for t in x])
    c.register([k, v, change])
    ok, r = c.call(L.alg._evaluate_reduced_monomial, np.array(k, dtype=np.int64), point_array(x), v, change)
    if ok:
        # complex ** int goes through the polar-form complex pow (observed: (-3+0j)**3 has imaginary part ~1e-14):
        # "up to rounding" => tolerance rule for every coefficient class
        c.cmp(False).scalar(r, ref, maj)


def op_clean(c):
    rng, L = c.rng, c.L
    d = int(rng.integers(0, 6))
    p = gen_block(rng, d, c.shape, c.coef, 300)
    tol = float(rng.choice([0.0, 0.5, 3.0, 7.0, 1e-14, 10.0 ** rng.uniform(-2, 2)]))
    c.inputs.update(d=d, p=p, tol=tol)
    dt = block_dtype(c.coef)
    pa = R.to_block(p, d, dt)
    ref = {e: v for e, v in p.items() if abs(complex(v)) > tol}
    c.register([d, tol], nontrivial=len(ref) != len(p))
    out = np.full(len(pa), 99.0, dtype=dt)
    ok, _ = c.call(L.alg._poly_clean, pa, tol, out)
    if ok:
        cm = Cmp(c.ctx, "_poly_clean", True, c.wit)
        cm.block(out, ref, None, d, "_poly_clean")
    pb = pa.copy()
    ok, _ = c.call(L.alg._poly_clean_inplace, pb, tol)
    if ok:
        Cmp(c.ctx, "_poly_clean_inplace", True, c.wit).block(pb, ref, None, d, "_poly_clean_inplace")
    lst = R.to_typed_list([pa.astype(np.complex128), pa.astype(np.complex128)[:1] * 0])
    ok, r = c.call(L.ops._polynomial_clean, lst, tol)
    if ok:
        Cmp(c.ctx, "_polynomial_clean", True, c.wit).array(np.asarray(r[0]), R.to_block(ref, d), None, d, "_polynomial_clean")
        c.ctx.check(len(r) == 2 and np.array_equal(np.asarray(lst[0]), pa.astype(np.complex128)),
                    "R:_polynomial_clean returns a new list and keeps its input", c.wit)


KERNEL_OPS = {"_poly_add": op_add, "_poly_scale": op_scale, "_poly_mul": op_mul, "_poly_diff": op_diff,
              "_poly_integrate": op_integrate, "_poly_poisson": op_poisson, "_poly_evaluate": op_evaluate,
              "_evaluate_reduced_monomial": op_reduced_monomial, "_poly_clean": op_clean}


# ---------------------------------------------------------------------- list-level operations (complex128 blocks)
def _list_len(rng, max_deg):
    """Length of an input list relative to max_deg+1: mostly equal, sometimes shorter."""
    return max_deg + 1 if rng.random() < 0.75 else int(rng.integers(1, max_deg + 2))


def _lib_poly(p, n_blocks):
    return R.to_typed_list(R.to_packed(R.truncate(p, n_blocks - 1), n_blocks - 1))


def _snapshot(lst):
    return [np.array(b, copy=True) for b in lst]


def _same(lst, snap):
    return len(lst) == len(snap) and all(np.array_equal(np.asarray(a), b) for a, b in zip(lst, snap))


def op_list_multiply(c):
    rng, L = c.rng, c.L
    md = int(rng.integers(0, MAX_OP_DEG + 1))
    np_, nq = _list_len(rng, md), _list_len(rng, md)
    cap = 14 if is_int_class(c.coef) else 6
    p = gen_poly(rng, np_ - 1, c.shape, c.coef, cap if c.shape != "dense" else (60 if is_int_class(c.coef) else 12))
    q = gen_poly(rng, nq - 1, "sparse" if c.shape in ("zero", "dense") else c.shape, c.coef, cap)
    if rng.random() < 0.5:
        p, q, np_, nq = q, p, nq, np_
    c.inputs.update(max_deg=md, len_p=np_, len_q=nq, p=p, q=q)
    P, Q = _lib_poly(p, np_), _lib_poly(q, nq)
    sp, sq = _snapshot(P), _snapshot(Q)
    ref = R.mul(p, q, md)
    c.register([md, np_, nq], nontrivial=bool(ref))
    ok, r = c.call(L.ops._polynomial_multiply, P, Q, md, *L.tables)
    if ok:
        maj = R.mul(R.absmodel(p), R.absmodel(q), md)
        c.cmp(exactness(c.coef, R.l1(R.absmodel(p)) * R.l1(R.absmodel(q)))).poly_list(r, ref, maj, md + 1)
        c.ctx.check(_same(P, sp) and _same(Q, sq), "R:_polynomial_multiply leaves its inputs unchanged", c.wit)


def op_list_power(c):
    rng, L = c.rng, c.L
    md = int(rng.integers(0, MAX_OP_DEG + 1))
    k = int(rng.integers(0, 6))
    base_deg = int(rng.integers(0, max(1, min(3, md)) + 1))
    p = gen_poly(rng, base_deg, c.shape, c.coef, 8 if is_int_class(c.coef) else 4)
    n = base_deg + 1 if rng.random() < 0.3 else max(md + 1, base_deg + 1)
    c.inputs.update(max_deg=md, k=k, p=p, len_p=n)
    P = _lib_poly(p, n)
    sp = _snapshot(P)
    ref = R.power(p, k, md)
    c.register([md, k], nontrivial=bool(p) and k >= 2)
    ok, r = c.call(L.ops._polynomial_power, P, k, md, *L.tables)
    if ok:
        ap = R.absmodel(p)
        c.cmp(exactness(c.coef, max(1, R.l1(ap)) ** max(k, 1))).poly_list(r, ref, R.power(ap, k, md), md + 1)
        c.ctx.check(_same(P, sp), "R:_polynomial_power leaves its input unchanged", c.wit)


def op_list_poisson(c):
    rng, L = c.rng, c.L
    md = int(rng.integers(0, MAX_OP_DEG + 1))
    np_, nq = int(rng.integers(1, MAX_OP_DEG + 2)), int(rng.integers(1, MAX_OP_DEG + 2))
    cap = 10 if is_int_class(c.coef) else 5
    p = gen_poly(rng, np_ - 1, c.shape, c.coef, cap if c.shape != "dense" else (40 if is_int_class(c.coef) else 10))
    q = gen_poly(rng, nq - 1, "sparse" if c.shape in ("zero", "dense") else c.shape, c.coef, cap)
    if rng.random() < 0.5:
        p, q, np_, nq = q, p, nq, np_
    c.inputs.update(max_deg=md, len_p=np_, len_q=nq, p=p, q=q)
    P, Q = _lib_poly(p, np_), _lib_poly(q, nq)
    sp, sq = _snapshot(P), _snapshot(Q)
    ref = R.truncate(R.poisson(p, q), md)
    c.register([md, np_, nq], nontrivial=bool(ref))
    ok, r = c.call(L.ops._polynomial_poisson_bracket, P, Q, md, *L.tables)
    if ok:
        maj = R.truncate(poisson_majorant(R.absmodel(p), R.absmodel(q)), md)
        c.cmp(exactness(c.coef, 64 * 36 * R.l1(R.absmodel(p)) * R.l1(R.absmodel(q)))).poly_list(r, ref, maj, md + 1)
        c.ctx.check(_same(P, sp) and _same(Q, sq), "R:_polynomial_poisson_bracket leaves its inputs unchanged", c.wit)


def op_list_diff_jac(c):
    rng, L = c.rng, c.L
    md = int(rng.integers(0, MAX_OP_DEG + 1))
    n = _list_len(rng, md)
    p = gen_poly(rng, n - 1, c.shape, c.coef, 60)
    v = int(rng.integers(6))
    c.inputs.update(max_deg=md, len_p=n, var=v, p=p)
    P = _lib_poly(p, n)
    sp = _snapshot(P)
    nd = max(md - 1, 0) + 1
    ap = R.absmodel(p)
    c.register([md, n, v], nontrivial=bool(R.diff(p, v)))
    ok, r = c.call(L.ops._polynomial_differentiate, P, v, md, L.psi, L.clmo, L.psi, L.clmo, L.enc)
    if ok:
        lst, dmax = r
        c.ctx.check(int(dmax) == max(md - 1, 0), "R:_polynomial_differentiate reports max_deg-1", lambda: {**c.wit(), "got": int(dmax)})
        cm = Cmp(c.ctx, "_polynomial_differentiate", is_int_class(c.coef), c.wit)
        cm.poly_list(lst, R.diff(p, v), R.diff(ap, v), nd)
    ok, J = c.call(L.ops._polynomial_jacobian, P, md, L.psi, L.clmo, L.enc)
    if ok:
        c.ctx.check(len(J) == 6, "R:_polynomial_jacobian has one entry per variable", lambda: {**c.wit(), "len": len(J)})
        cm = Cmp(c.ctx, "_polynomial_jacobian", is_int_class(c.coef), c.wit)
        for i in range(min(6, len(J))):
            cm.poly_list(J[i], R.diff(p, i), R.diff(ap, i), nd, what=f"d/dx{i} (entry {i} of the list)")
    c.ctx.check(_same(P, sp), "R:differentiate/jacobian leave their input unchanged", c.wit)


def op_list_integrate(c):
    rng, L = c.rng, c.L
    md = int(rng.integers(0, MAX_OP_DEG))
    n = _list_len(rng, md)
    p = gen_poly(rng, n - 1, c.shape, c.coef, 60)
    v = int(rng.integers(6))
    c.inputs.update(max_deg=md, len_p=n, var=v, p=p)
    P = _lib_poly(p, n)
    c.register([md, n, v], nontrivial=bool(p))
    ok, r = c.call(L.ops._polynomial_integrate, P, v, md, L.psi, L.clmo, L.psi, L.clmo, L.enc)
    if ok:
        lst, dmax = r
        c.ctx.check(int(dmax) == md + 1, "R:_polynomial_integrate reports max_deg+1", lambda: {**c.wit(), "got": int(dmax)})
        c.cmp(False).poly_list(lst, R.integrate(p, v), R.integrate(R.absmodel(p), v), md + 2)


def op_list_evaluate(c):
    rng, L = c.rng, c.L
    n = int(rng.integers(1, MAX_OP_DEG + 2))
    p = gen_poly(rng, n - 1, c.shape, c.coef, 200 if is_int_class(c.coef) else 40)
    x = gen_point(rng, c.coef)
    c.inputs.update(len_p=n, p=p, point=[complex(v) for v in x])
    P = _lib_poly(p, n)
    c.register([n], nontrivial=bool(p))
    ok, r = c.call(L.ops._polynomial_evaluate, P, point_array(x), L.clmo)
    if ok:
        maj = R.evaluate(R.absmodel(p), [R.absval(v) for v in x])
        c.cmp(exactness(c.coef, maj)).scalar(r, R.evaluate(p, x), maj)


def op_list_add_inplace(c):
    rng, L = c.rng, c.L
    np_, nq = int(rng.integers(1, MAX_OP_DEG + 2)), int(rng.integers(1, MAX_OP_DEG + 2))
    p = gen_poly(rng, np_ - 1, c.shape, c.coef, 80)
    q = gen_poly(rng, nq - 1, "sparse" if c.shape == "zero" else c.shape, c.coef, 80)
    md = -1 if rng.random() < 0.4 else int(rng.integers(0, MAX_OP_DEG + 2))
    kind = int(rng.integers(4))       # scale 1.0 / -1.0 (special-cased by the library) / real / complex
    if kind == 0:
        s, scale = 1, 1.0
    elif kind == 1:
        s, scale = -1, -1.0
    elif kind == 2:
        s = gen_scalar(rng, "int" if is_int_class(c.coef) else "real")
        scale = float(s)
    else:
        s = gen_scalar(rng, "gint" if is_int_class(c.coef) else "cplx")
        scale = complex(s)
    c.inputs.update(len_p=np_, len_q=nq, max_deg=md, scale=scale, p=p, q=q)
    P, Q = _lib_poly(p, np_), _lib_poly(q, nq)
    sq = _snapshot(Q)
    lim = min(np_, nq) if md == -1 else min(md + 1, np_, nq)
    ref = R.add(p, R.scale(R.truncate(q, lim - 1), s))
    maj = R.add(R.absmodel(p), R.scale(R.absmodel(R.truncate(q, lim - 1)), R.absval(s)))
    c.register([np_, nq, md, kind], nontrivial=bool(q) and lim > 0)
    ok, _ = c.call(L.ops._polynomial_add_inplace, P, Q, scale, md)
    if ok:
        c.cmp(exactness(c.coef, R.l1(maj))).poly_list(P, ref, maj, np_)
        c.ctx.check(_same(Q, sq), "R:_polynomial_add_inplace leaves its second argument unchanged", c.wit)


def op_list_degree(c):
    rng, L = c.rng, c.L
    n = int(rng.integers(1, MAX_OP_DEG + 2))
    p = gen_poly(rng, n - 1, c.shape, c.coef, 20)
    c.inputs.update(len_p=n, p=p)
    P = _lib_poly(p, n)
    c.register([n], nontrivial=bool(p))
    ok, r = c.call(L.ops._polynomial_degree, P)
    if ok:
        c.ctx.check(int(r) == R.degree(p), "R:_polynomial_degree == degree of the polynomial (-1 for zero)", lambda: {**c.wit(), "got": int(r)})
    ok, r = c.call(L.ops._polynomial_total_degree, P, L.psi)
    if ok:
        c.ctx.check(int(r) == R.degree(p), "R:_polynomial_total_degree == degree of the polynomial (-1 for zero)",
                    lambda: {**c.wit(), "got": int(r)})


LIST_OPS = {"_polynomial_multiply": op_list_multiply, "_polynomial_power": op_list_power,
            "_polynomial_poisson_bracket": op_list_poisson, "_polynomial_differentiate+jacobian": op_list_diff_jac,
            "_polynomial_integrate": op_list_integrate, "_polynomial_evaluate": op_list_evaluate,
            "_polynomial_add_inplace": op_list_add_inplace, "_polynomial_degree": op_list_degree}


# ---------------------------------------------------------------------- substitutions
def complexification_matrix(mix=(1, 2)):
    """Independent construction: q_j = (q_j^c + i p_j^c)/sqrt2 , p_j = (i q_j^c + p_j^c)/sqrt2 for j in mix."""
    h = 1.0 / math.sqrt(2.0)
    M = [[(1.0 + 0j) if i == j else 0j for j in range(6)] for i in range(6)]
    for j in mix:
        q, p = j, 3 + j
        for col in range(6):
            M[q][col] = 0j
            M[p][col] = 0j
        M[q][q], M[q][p], M[p][q], M[p][p] = complex(h, 0), complex(0, h), complex(0, h), complex(h, 0)
    return M


MATRIX_CLASSES_INT = ("identity", "perm", "intdense", "gintdense", "singular", "selection")
MATRIX_CLASSES_FLOAT = ("complexification", "complexification_inv", "dense_complex", "dense_real")


def gen_matrix(rng, cls):
    """(exact entries as nested list, numpy complex matrix)."""
    if cls == "identity":
        M = [[int(i == j) for j in range(6)] for i in range(6)]
    elif cls == "perm":
        perm = rng.permutation(6)
        M = [[(int(rng.choice([-1, 1])) if perm[i] == j else 0) for j in range(6)] for i in range(6)]
    elif cls == "selection":
        # every old variable is renamed to one new variable, several onto the SAME one (rows are repeated unit vectors: singular);
        # with shifts this is x_old_i = x_new_sel(i) + s_i
        sel = rng.integers(0, int(rng.integers(1, 5)), 6)
        M = [[int(sel[i] == j) for j in range(6)] for i in range(6)]
    elif cls == "intdense":
        M = [[int(rng.integers(-2, 3)) for _ in range(6)] for _ in range(6)]
    elif cls == "gintdense":
        M = [[R.Gauss(int(rng.integers(-2, 3)), int(rng.integers(-1, 2))) for _ in range(6)] for _ in range(6)]
    elif cls == "singular":
        M = [[int(rng.integers(-2, 3)) for _ in range(6)] for _ in range(6)]
        z = int(rng.integers(6))
        M[z] = [0] * 6
        for i in range(6):
            M[i][(z + 1) % 6] = 0
    elif cls in ("complexification", "complexification_inv"):
        mix = [(1, 2), (0, 1, 2), (2,), ()][int(rng.integers(4))]
        Mc = complexification_matrix(mix)
        if cls.endswith("inv"):
            Mc = [[Mc[j][i].conjugate() for j in range(6)] for i in range(6)]
        M = [[R.Gauss(Fraction(z.real), Fraction(z.imag)) for z in row] for row in Mc]
    elif cls == "dense_complex":
        M = [[R.Gauss(Fraction(float(rng.normal())), Fraction(float(rng.normal()))) for _ in range(6)] for _ in range(6)]
    elif cls == "dense_real":
        M = [[Fraction(float(rng.normal())) for _ in range(6)] for _ in range(6)]
    else:
        raise ValueError(cls)
    A = np.array([[complex(v) for v in row] for row in M], dtype=np.complex128)
    return M, A


def _abs_matrix(M):
    return [[R.absval(v) for v in row] for row in M]


def op_substitute(c, affine=False):
    rng, L = c.rng, c.L
    intc = is_int_class(c.coef)
    mcls = str(rng.choice(MATRIX_CLASSES_INT if (intc and rng.random() < 0.7) else MATRIX_CLASSES_FLOAT))
    dense_m = mcls in ("intdense", "gintdense", "singular", "dense_complex", "dense_real")
    exact_m = mcls in MATRIX_CLASSES_INT
    if dense_m:
        md = int(rng.integers(0, 5 if exact_m else 4))
        nterms = 6 if exact_m else 3
    else:
        md = int(rng.integers(0, MAX_OP_DEG + 1))
        nterms = 8
    shape = c.shape
    if shape == "dense" and not (md <= 2 or (md <= 3 and not dense_m)):
        shape = "sparse"
    p = gen_poly(rng, md, shape, c.coef, nterms if shape != "dense" else 60)
    if len(p) > 90:
        p = dict(list(p.items())[:90])
    M, A = gen_matrix(rng, mcls)
    tol = float(rng.choice([1e-14, 0.0]))
    c.inputs.update(max_deg=md, matrix_class=mcls, tol=tol, p=p, matrix=A)
    P = _lib_poly(p, md + 1)
    sp = _snapshot(P)
    ap, aM = R.absmodel(p), _abs_matrix(M)
    if affine:
        if exact_m and intc:
            s = [gen_scalar(rng, c.coef) if rng.random() < 0.7 else 0 for _ in range(6)]
            s = [(v if abs(complex(v)) <= 3 else (1 if not isinstance(v, R.Gauss) else R.Gauss(1, -1))) for v in s]
        else:
            s = [gen_scalar(rng, "cplx") if rng.random() < 0.7 else 0 for _ in range(6)]
            s = [v if abs(complex(v)) < 3 else 0 for v in s]
        sa = np.array([complex(v) for v in s], dtype=np.complex128)
        c.inputs.update(shifts=sa)
        ref = R.subs_affine(p, M, s, md)
        maj = R.subs_affine(ap, aM, [R.absval(v) for v in s], md)
        args = (P, A, sa, md, *L.tables, tol)
        fn = L.ops._substitute_affine
    else:
        s = None
        ref = R.subs_linear(p, M, md)
        maj = R.subs_linear(ap, aM, md)
        args = (P, A, md, *L.tables, tol)
        fn = L.ops._substitute_linear
    c.register([md, mcls, tol], nontrivial=bool(ref) and md >= 1)
    ok, r = c.call(fn, *args)
    if ok:
        exact = exact_m and intc and exactness(c.coef, R.l1(maj))     # integer matrix, integer shifts, integer coefficients
        c.cmp(exact, K=K_TOL, abs_tol=0.0 if exact else tol).poly_list(r, ref, maj, md + 1)
        c.ctx.check(_same(P, sp), f"R:{c.op} leaves its input unchanged", c.wit)
    # the variable polynomials themselves (L_i = sum_j C[i,j] x_j (+ shift_i))
    if rng.random() < 0.25:
        if affine:
            ok, vp = c.call(L.ops._linear_affine_variable_polys, A, sa, max(md, 1), *L.tables)
        else:
            ok, vp = c.call(L.ops._linear_variable_polys, A, max(md, 1), *L.tables)
        if ok:
            rows = R._rows_to_polys(M, s if affine else None)
            cm = Cmp(c.ctx, "_linear(_affine)_variable_polys", True, c.wit)
            c.ctx.check(len(vp) == 6, "R:variable polys: one per variable", c.wit)
            for i in range(min(6, len(vp))):
                cm.poly_list(vp[i], rows[i], None, max(md, 1) + 1, what=f"row {i}")


def op_substitute_linear(c):
    op_substitute(c, affine=False)


def op_substitute_affine(c):
    op_substitute(c, affine=True)


def op_coordinates(c):
    rng, L = c.rng, c.L
    intc = is_int_class(c.coef)
    mcls = str(rng.choice(MATRIX_CLASSES_INT if intc else MATRIX_CLASSES_FLOAT))
    M, A = gen_matrix(rng, mcls)
    x = gen_point(rng, c.coef)
    xa = point_array(x)
    c.inputs.update(matrix_class=mcls, matrix=A, coords=xa)
    c.register([mcls])
    ok, r = c.call(L.coords._substitute_coordinates, xa, A)
    if ok:
        ref = [sum((M[i][j] * x[j] for j in range(6)), 0) for i in range(6)]
        maj = [float(sum((R.absval(M[i][j]) * R.absval(x[j]) for j in range(6)), 0)) for i in range(6)]
        cm = c.cmp(intc and mcls in MATRIX_CLASSES_INT)
        cm.array(np.asarray(r), np.array([complex(v) for v in ref]), np.array(maj), None, "M @ coords")
    # _clean_coordinates: parts with |part| < tol are zeroed (strict inequality, real and imaginary separately)
    tol = float(rng.choice([1e-30, 0.5, 2.0, 1e-3]))
    z = np.array([complex(v) for v in x]) * float(rng.choice([1.0, 1e-31, 1e-3]))
    ok, r = c.call(L.coords._clean_coordinates, z.copy(), tol)
    if ok:
        ref = np.array([complex(0.0 if abs(v.real) < tol else v.real, 0.0 if abs(v.imag) < tol else v.imag) for v in z])
        Cmp(c.ctx, "_clean_coordinates", True, lambda: {**c.wit(), "tol": tol, "z": z}).array(np.asarray(r), ref, None, None)
    if rng.random() < 0.1:
        try:
            L.coords._substitute_coordinates(xa, A[:5])
            raised = False
        except ValueError:
            raised = True
        c.ctx.check(raised, "R:_substitute_coordinates rejects a non 6x6 matrix (documented ValueError)", c.wit)


SUBST_OPS = {"_substitute_linear": op_substitute_linear, "_substitute_affine": op_substitute_affine,
             "_substitute_coordinates+_clean_coordinates": op_coordinates}


# ---------------------------------------------------------------------- deterministic structure checks
def structure(ctx, L):
    psi, clmo, enc = L.tables
    for d in range(TABLE_DEG + 1):
        n = math.comb(d + 5, 5)
        ctx.check(int(L.alg._get_degree(np.zeros(n, dtype=np.complex128), psi)) == d, "T:_get_degree(size C(d+5,5)) == d", {"d": d})
    for n in (0, 2, 5, 7, 55, 57, 1288):
        ctx.check(int(L.alg._get_degree(np.zeros(n, dtype=np.complex128), psi)) == -1, "T:_get_degree(other size) == -1", {"n": n})
    for md in (0, 1, 3, 8):
        z = L.ops._polynomial_zero_list(md, psi)
        ctx.case("structure:zero_list", [md])
        ctx.check(len(z) == md + 1 and all(len(z[d]) == math.comb(d + 5, 5) and not np.any(z[d]) and z[d].dtype == np.complex128
                                           for d in range(md + 1)), "T:_polynomial_zero_list shape/zeros/complex128", {"max_deg": md})
        vl = L.ops._polynomial_variables_list(md, psi, clmo, enc)
        ctx.check(len(vl) == 6, "T:_polynomial_variables_list has 6 entries", {"max_deg": md})
        for i in range(6):
            v = L.ops._polynomial_variable(i, md, psi, clmo, enc)
            ref = R.var(i) if md >= 1 else {}
            for name, got in (("_polynomial_variable", v), ("_polynomial_variables_list", vl[i])):
                ctx.case(f"structure:{name}", [md, i])
                Cmp(ctx, name, True, lambda: {"max_deg": md, "idx": i}, prefix="T").poly_list(got, ref, None, md + 1)
        mp = L.base._make_poly(md, psi)
        ctx.check(mp.shape == (math.comb(md + 5, 5),) and mp.dtype == np.complex128 and not mp.any(), "T:_make_poly", {"d": md})


def canonical(ctx, L):
    """Sign convention: {q_i, p_j} = delta_ij, {p_j, q_i} = -delta_ij, {q,q} = {p,p} = 0 (kernel and list level)."""
    obs = {}
    for i in range(6):
        for j in range(6):
            a, b = R.to_block(R.var(i), 1), R.to_block(R.var(j), 1)
            r = L.alg._poly_poisson(a, 1, b, 1, *L.tables)
            expect = 1 if (i < 3 and j == i + 3) else (-1 if (j < 3 and i == j + 3) else 0)
            ctx.case("canonical:kernel", [i, j])
            ctx.check(r.shape == (1,) and r[0] == expect, "C:{x_i,x_j} canonical relations, q-p order, {q_i,p_i}=+1 (kernel)",
                      {"i": i, "j": j, "lib": complex(r[0]) if r.shape == (1,) else r.shape, "expected": expect})
            rl = L.ops._polynomial_poisson_bracket(R.to_library(R.var(i), 2), R.to_library(R.var(j), 2), 2, *L.tables)
            ctx.case("canonical:list", [i, j])
            ctx.check(len(rl) == 3 and rl[0][0] == expect and not np.any(rl[1]) and not np.any(rl[2]),
                      "C:{x_i,x_j} canonical relations, q-p order, {q_i,p_i}=+1 (list level)", {"i": i, "j": j, "expected": expect})
            obs[f"{i},{j}"] = int(r[0].real) if r.shape == (1,) else None
    ctx.note("poisson_sign_convention", {"documented": "{F,G} = sum_i dF/dq_i dG/dp_i - dF/dp_i dG/dq_i, variables (q1,q2,q3,p1,p2,p3)",
                                         "observed {x_i,x_j}": obs})
    # harmonic oscillator: {q^2+p^2 , q} = -2p ; {H, p} = 2q  (sign + derivative + product together)
    for i in range(3):
        H = {tuple(2 if k == i else 0 for k in range(6)): 1, tuple(2 if k == i + 3 else 0 for k in range(6)): 1}
        for tgt, ref in ((R.var(i), R.scale(R.var(i + 3), -2)), (R.var(i + 3), R.scale(R.var(i), 2))):
            rl = L.ops._polynomial_poisson_bracket(R.to_library(H, 2), R.to_library(tgt, 2), 2, *L.tables)
            Cmp(ctx, "{q^2+p^2, x} harmonic oscillator", True, lambda: {"i": i}, prefix="C").poly_list(rl, ref, None, 3)


def monomial_pairs(ctx, L, dmax, base):
    """All monomial pairs of degree <= dmax x <= dmax, exhaustively, through _poly_mul and _poly_poisson."""
    monos = [(d, e) for d in range(dmax + 1) for e in R.monomials(d)]
    threads = [n for n in (1, 2, 3, 4) if n <= L.max_threads]
    it = 0
    for (d1, e1) in monos:
        for (d2, e2) in monos:
            it += 1
            if not ctx.mine(it):
                continue
            rng = np.random.default_rng([base, 7, it])
            nthr = L.set_threads(threads[it % len(threads)])
            c1, c2 = gen_coef(rng, "gint"), gen_coef(rng, "gint")
            p, q = {e1: c1}, {e2: c2}
            info = {"it": it, "base": base, "threads": nthr}
            c = Case(ctx, L, rng, "_poly_mul[monomial pair]", "gint", "mono", info, prefix="P")
            c.inputs.update(p=p, q=q)
            pa, qa = R.to_block(p, d1), R.to_block(q, d2)
            ctx.case("pairs:_poly_mul", [e1, e2])
            ok, r = c.call(L.alg._poly_mul, pa, d1, qa, d2, *L.tables)
            if ok:
                c.cmp(True).block(r, R.mul(p, q), None, d1 + d2)
            c = Case(ctx, L, rng, "_poly_poisson[monomial pair]", "gint", "mono", info, prefix="P")
            c.inputs.update(p=p, q=q)
            ref = R.poisson(p, q)
            ctx.case("pairs:_poly_poisson", [e1, e2], nontrivial=bool(ref))
            ok, r = c.call(L.alg._poly_poisson, pa, d1, qa, d2, *L.tables)
            if ok:
                cm = c.cmp(True)
                if d1 == 0 or d2 == 0:
                    cm.array(r, np.zeros(1), None, 0)
                else:
                    cm.block(r, ref, None, d1 + d2 - 2)


# ---------------------------------------------------------------------- driver of the reference-model monitor
ALL_OPS = {**KERNEL_OPS, **LIST_OPS, **SUBST_OPS}
HEAVY_OPS = {"_substitute_linear", "_substitute_affine", "_polynomial_power", "_polynomial_poisson_bracket", "_polynomial_multiply"}
KERNEL_COEFS = ("gint", "int", "rint", "cplx", "rreal", "gint", "cplx")
LIST_COEFS = ("gint", "int", "cplx", "real", "gint")


def refmodel(ctx, L, n_cases, base, ops=None, prefix="R", threads=None, float_real_kernels=True):
    names = list(ops or ALL_OPS)
    thr_all = [n for n in (threads or THREADS_FULL) if n <= L.max_threads] or [1]
    thr_small = [n for n in thr_all if n <= 4] or thr_all[:1]
    used = {}
    for it in range(n_cases):
        if not ctx.mine(it):
            continue
        rng = np.random.default_rng([base, 1, it])
        op = names[it % len(names)]
        rot = it // len(names)
        if op in KERNEL_OPS:
            coefs = KERNEL_COEFS if float_real_kernels else tuple(x for x in KERNEL_COEFS if x not in REAL_DTYPE)
        else:
            coefs = LIST_COEFS
        coef = coefs[rot % len(coefs)]
        shape = SHAPES[(rot // len(coefs) + rot) % len(SHAPES)]
        pool = thr_small if op in HEAVY_OPS else thr_all
        nthr = L.set_threads(pool[(rot + it) % len(pool)])
        used[nthr] = used.get(nthr, 0) + 1
        c = Case(ctx, L, rng, op, coef, shape, {"it": it, "base": base, "threads": nthr, "stream": 1}, prefix=prefix)
        ALL_OPS[op](c)
        if it < 2 * len(names) and it % 5 == 0:
            ctx.sample({"sub_monitor": "refmodel", **c.wit()})
    return used


# ====================================================================== (3) schedule monitor
def _dense_gint(rng, d):
    return gen_block(rng, d, "dense", "gint")


def build_schedule_cases(L, base, thorough):
    """Dense Gaussian-integer cases with their exact results (computed once by refpoly)."""
    rng = np.random.default_rng([base, 3])
    cases = []

    def kernel_mul(dp, dq):
        p, q = _dense_gint(rng, dp), _dense_gint(rng, dq)
        pa, qa = R.to_block(p, dp), R.to_block(q, dq)
        exp = [R.to_block(R.mul(p, q), dp + dq)]
        cases.append({"op": "_poly_mul", "id": f"_poly_mul {dp}x{dq} dense", "kernel": True, "trip": len(pa),
                      "run": lambda: [L.alg._poly_mul(pa, dp, qa, dq, *L.tables)], "expected": exp})

    def kernel_diff(d, v):
        p = _dense_gint(rng, d)
        pa = R.to_block(p, d)
        exp = [R.to_block(R.diff(p, v), d - 1)]
        cases.append({"op": "_poly_diff", "id": f"_poly_diff degree {d} var {v} dense", "kernel": True, "trip": len(pa),
                      "run": lambda: [L.alg._poly_diff(pa, v, d, *L.tables)], "expected": exp})

    def list_case(op, degs_p, degs_q, md):
        p, q = {}, {}
        for d in degs_p:
            p.update(_dense_gint(rng, d))
        for d in degs_q:
            q.update(_dense_gint(rng, d))
        P, Q = R.to_library(p, max(degs_p)), R.to_library(q, max(degs_q))
        if op == "_polynomial_multiply":
            ref = R.mul(p, q, md)
            run = lambda: list(L.ops._polynomial_multiply(P, Q, md, *L.tables))
        else:
            ref = R.truncate(R.poisson(p, q), md)
            run = lambda: list(L.ops._polynomial_poisson_bracket(P, Q, md, *L.tables))
        cases.append({"op": op, "id": f"{op} dense blocks {degs_p} x {degs_q} max_deg {md}", "kernel": False,
                      "trip": math.comb(max(degs_p) + 5, 5), "run": run, "expected": R.to_packed(ref, md)})

    kernel_mul(3, 3)
    kernel_mul(4, 4)
    kernel_mul(2, 2)
    kernel_mul(4, 3)
    kernel_diff(5, int(rng.integers(6)))
    kernel_diff(8, int(rng.integers(6)))
    list_case("_polynomial_multiply", (3, 4), (3, 4), 8)
    list_case("_polynomial_poisson_bracket", (3, 4), (3, 4), 6)
    if thorough:
        kernel_mul(5, 3)
        kernel_mul(1, 7)
        kernel_diff(3, int(rng.integers(6)))
        list_case("_polynomial_multiply", (0, 1, 2, 3, 4), (2, 4), 8)
        list_case("_polynomial_poisson_bracket", (2, 3, 4), (3, 4), 6)
    return cases


def partition_signature(tids):
    """Run-length encoding of the iteration -> thread map."""
    out = []
    for t in tids.tolist():
        if out and out[-1][0] == t:
            out[-1][1] += 1
        else:
            out.append([int(t), 1])
    return out


def schedule(ctx, L, base, threads, reps_kernel, reps_list, tag, thorough=False, hog_label="none"):
    H = harness_kernels()
    cases = build_schedule_cases(L, base, thorough)
    thr = [n for n in threads if n <= L.max_threads]
    if len(thr) < 2:
        ctx.note(f"schedule[{tag}] skipped", f"only thread counts {thr} available (NUMBA_NUM_THREADS={L.max_threads})")
        return
    L.set_threads(thr[0])
    cases[0]["run"]()                      # make sure the threading layer is initialised before asking for its name
    layer = L.numba.threading_layer()
    seen = {}
    partitions = {}
    sigs = set()
    for n in thr:
        L.set_threads(n)
        # harness probe: same trip counts as the library loops (prange over p.shape[0])
        pr = {}
        for trip in sorted({c["trip"] for c in cases}):
            maps = set()
            maxtid = 0
            for _ in range(3):
                tids, nT = H["partition_probe"](trip)
                maps.add(json.dumps(partition_signature(tids)))
                maxtid = max(maxtid, int(tids.max()))
            first = json.loads(sorted(maps)[0])
            pr[str(trip)] = {"get_num_threads": int(nT), "distinct_threads_used": len({t for t, _ in first}), "max_thread_id": maxtid,
                             "distinct_maps_in_3_runs": len(maps), "map_rle(thread,count)": first if len(first) <= 40 else first[:40] + ["..."]}
            if trip == 126:
                sigs.add(sorted(maps)[0])
        partitions[str(n)] = pr
        for c in cases:
            reps = reps_kernel if c["kernel"] else reps_list
            for rep in range(reps):
                got = c["run"]()
                ctx.case(f"sched[{tag}]:{c['op']}", [tag, c["id"], n, rep], nontrivial=True)
                seen[f"{layer}|hog={hog_label}|threads={n}"] = seen.get(f"{layer}|hog={hog_label}|threads={n}", 0) + 1
                ok = len(got) == len(c["expected"]) and all(g.shape == e.shape and np.array_equal(g, e) for g, e in zip(got, c["expected"]))

                def w(c=c, got=got, n=n, rep=rep):
                    mm = []
                    for d, (g, e) in enumerate(zip(got, c["expected"])):
                        if g.shape != e.shape:
                            mm.append({"block": d, "shape": g.shape, "expected_shape": e.shape})
                            continue
                        for i in np.nonzero(g != e)[0][:3]:
                            mm.append({"block": d, "slot": int(i), "lib": complex(g[i]), "exact": complex(e[i])})
                    return {"case": c["id"], "threads": n, "repetition": rep, "layer": layer, "hog": hog_label, "tag": tag, "base": base,
                            "n_wrong_slots": int(sum(int((g != e).sum()) for g, e in zip(got, c["expected"]) if g.shape == e.shape)),
                            "first_mismatches": mm[:6]}
                ctx.check(ok, f"S:{c['op']} equals exact integer arithmetic for every thread count and repetition", w)
    ctx.note(f"schedules_seen[{tag}]", {"layer": layer, "hog": hog_label, "wait_policy": os.environ.get("OMP_WAIT_POLICY", "default"),
                                        "executions": seen, "repetitions": {"kernel": reps_kernel, "list": reps_list}})
    ctx.note(f"partition_probe[{tag}]", partitions)
    ctx.count(f"S:distinct iteration->thread partitions over thread counts (trip 126) [{tag}]", len(sigs))
    return len(sigs)


# ====================================================================== sub-process workers
def _spawn_hogs(n, lifetime_s):
    # spinners die with their parent (re-parented => exit) or after lifetime_s, whichever comes first
    code = (f"import os, time\nt=time.time()+{float(lifetime_s)}\npp=os.getppid()\n"
            "while time.time()<t and os.getppid()==pp:\n    for _ in range(200000):\n        pass\n")
    return [subprocess.Popen([sys.executable, "-c", code], stdout=subprocess.DEVNULL, stderr=subprocess.DEVNULL) for _ in range(n)]


def _kill(procs):
    for p in procs:
        try:
            p.kill()
            p.wait(timeout=10)
        except Exception:
            pass


def worker_main(spec_path):
    with open(spec_path) as f:
        spec = json.load(f)
    ctx = Ctx("C06", spec["tier"], spec["seed"], (0, 1))
    ctx.rng = np.random.default_rng([spec["seed"], spec["stream"], 606])
    base = int(ctx.rng.integers(2 ** 62))
    tag = spec["tag"]
    thorough = spec["tier"] != "quick"
    try:
        L = Lib()
        if spec["mode"] == "schedule":
            hogs = []
            try:
                if spec.get("hogs"):
                    hogs = _spawn_hogs(int(spec["hogs"]), spec.get("hog_lifetime_s", 3600))
                guarded(ctx, f"schedule[{tag}]", schedule, ctx, L, base, spec["threads"], spec["reps_kernel"], spec["reps_list"], tag,
                        thorough, f"{len(hogs)} spinners" if hogs else "none")
            finally:
                _kill(hogs)
        elif spec["mode"] == "refmodel":
            used = guarded(ctx, f"refmodel[{tag}]", refmodel, ctx, L, spec["n_cases"], base, None, "R", spec["threads"], True)
            ctx.note(f"refmodel_thread_counts_used[{tag}]", {"layer": L.numba.threading_layer() if used else None, "threads": used})
        elif spec["mode"] == "sanitizer":
            nb = L.numba
            live = False
            if int(nb.config.BOUNDSCHECK or 0) == 1:
                try:
                    harness_kernels()["oob_probe"](np.zeros(3), 5)
                except IndexError:
                    live = True
            if not live:
                ctx.mark_inconclusive("sanitizer: NUMBA_BOUNDSCHECK not active in the worker (probe read past the end without IndexError)")
            else:
                ctx.count("Z:bounds sanitizer live (harness out-of-range probe raised IndexError)")
                guarded(ctx, "sanitizer:bijection", bijection, ctx, L)
                guarded(ctx, "sanitizer:structure", structure, ctx, L)
                guarded(ctx, "sanitizer:canonical", canonical, ctx, L)
                guarded(ctx, "sanitizer:refmodel", refmodel, ctx, L, spec["n_cases"], base, None, "R", spec["threads"], spec.get("real_kernels", False))
                guarded(ctx, "sanitizer:schedule", schedule, ctx, L, base, spec["threads"], spec["reps_kernel"], spec["reps_list"], tag, False)
                ctx.count("Z:library executions under NUMBA_BOUNDSCHECK=1", int(sum(ctx.cases.values())))
        else:
            raise ValueError(spec["mode"])
    except Exception as e:  # harness failure inside the worker
        import traceback
        traceback.print_exc()
        ctx.mark_inconclusive(f"worker {tag}: harness exception {type(e).__name__}: {e}")
    d = ctx.dump()
    d["cases"] = {(k if k.startswith("sched[") else f"{tag}/{k}"): v for k, v in d["cases"].items()}
    d["samples"] = []
    d["notes"] = {(k if "[" in k else f"{k}[{tag}]"): v for k, v in d["notes"].items() if k != "rule"}
    d["wall_s"] = round(time.time() - ctx.t0, 1)
    with open(spec["out"], "w") as f:
        json.dump(d, f)
    return 0


class Job:
    def __init__(self, spec, env_over, timeout):
        self.spec, self.env_over, self.timeout = spec, env_over, timeout
        self.result = None
        self.error = None
        self.thread = None

    def _run(self, tmpdir):
        spec_path = os.path.join(tmpdir, f"spec_{self.spec['tag']}.json")
        self.spec["out"] = os.path.join(tmpdir, f"out_{self.spec['tag']}.json")
        with open(spec_path, "w") as f:
            json.dump(self.spec, f)
        env = dict(os.environ)
        for k, v in self.env_over.items():
            if v is None:
                env.pop(k, None)
            else:
                env[k] = str(v)
        t0 = time.time()
        try:
            cp = subprocess.run([sys.executable, "-X", "faulthandler", "-m", "hmon.monitors.c06", "--worker", spec_path], env=env,
                                timeout=self.timeout, stdout=subprocess.PIPE, stderr=subprocess.PIPE, text=True)
        except subprocess.TimeoutExpired:
            self.error = f"timeout after {self.timeout} s (inconclusive)"
            return
        except Exception as e:
            self.error = f"could not launch: {type(e).__name__}: {e}"
            return
        if cp.returncode != 0 or not os.path.exists(self.spec["out"]):
            tail = "\n".join([ln for ln in (cp.stderr or "").splitlines() if "condarc" not in ln][-8:])
            self.error = f"worker exit status {cp.returncode}: {tail[-600:]}"
            return
        with open(self.spec["out"]) as f:
            self.result = json.load(f)
        self.result["launch_to_exit_s"] = round(time.time() - t0, 1)

    def start(self, tmpdir):
        self.thread = threading.Thread(target=self._run, args=(tmpdir,), daemon=True)
        self.thread.start()


def plan_jobs(ctx):
    q = ctx.quick
    nthr = max(16, max(THREADS_FULL))
    common = {"tier": ctx.tier, "seed": ctx.seed}
    timeout = 1200 if q else 9000
    jobs = []

    def sched(tag, layer, hogs, policy, threads, rk, rl, stream):
        jobs.append(Job({**common, "mode": "schedule", "tag": tag, "threads": list(threads), "reps_kernel": rk, "reps_list": rl,
                         "hogs": hogs, "hog_lifetime_s": timeout, "stream": stream},
                        {"NUMBA_THREADING_LAYER": layer, "NUMBA_NUM_THREADS": nthr, "OMP_WAIT_POLICY": policy, "NUMBA_BOUNDSCHECK": None},
                        timeout))
    if q:
        sched("workqueue", "workqueue", 0, "PASSIVE", THREADS_QUICK, 40, 8, 11)
        jobs.append(Job({**common, "mode": "sanitizer", "tag": "boundscheck", "threads": [1, 2, 4], "reps_kernel": 3, "reps_list": 1,
                         "n_cases": 600, "real_kernels": False, "stream": 12},
                        {"NUMBA_BOUNDSCHECK": "1", "NUMBA_NUM_THREADS": nthr, "OMP_WAIT_POLICY": "PASSIVE"}, timeout))
    else:
        sched("omp", "omp", 0, "PASSIVE", THREADS_FULL, 40, 10, 21)
        sched("workqueue", "workqueue", 0, "PASSIVE", THREADS_FULL, 40, 10, 22)
        sched("omp+hogs", "omp", N_HOGS, "PASSIVE", THREADS_FULL, 15, 5, 23)
        sched("workqueue+hogs", "workqueue", N_HOGS, "PASSIVE", THREADS_FULL, 15, 5, 24)
        sched("omp-default-wait-policy", "omp", 0, None, THREADS_FULL, 5, 1, 25)
        jobs.append(Job({**common, "mode": "sanitizer", "tag": "boundscheck", "threads": [1, 2, 3, 4, 7, 16], "reps_kernel": 5, "reps_list": 2,
                         "n_cases": 3000, "real_kernels": True, "stream": 26},
                        {"NUMBA_BOUNDSCHECK": "1", "NUMBA_NUM_THREADS": nthr, "OMP_WAIT_POLICY": "PASSIVE"}, timeout))
        for tag, layer, stream in (("refmodel-omp", "omp", 28), ("refmodel-workqueue", "workqueue", 29)):
            # the sharded main processes run with a small thread pool: the full thread sweep of the reference-model cases is here
            jobs.append(Job({**common, "mode": "refmodel", "tag": tag, "threads": list(THREADS_FULL), "n_cases": 8000, "stream": stream},
                            {"NUMBA_THREADING_LAYER": layer, "NUMBA_NUM_THREADS": nthr, "OMP_WAIT_POLICY": "PASSIVE", "NUMBA_BOUNDSCHECK": None},
                            timeout))
        jobs.append(Job({**common, "mode": "sanitizer", "tag": "boundscheck-workqueue", "threads": [1, 2, 5, 16], "reps_kernel": 3,
                         "reps_list": 1, "n_cases": 600, "real_kernels": False, "stream": 27},
                        {"NUMBA_BOUNDSCHECK": "1", "NUMBA_NUM_THREADS": nthr, "NUMBA_THREADING_LAYER": "workqueue"}, timeout))
    return [j for i, j in enumerate(jobs) if ctx.mine(i)]


def fold_jobs(ctx, jobs):
    for j in jobs:
        j.thread.join()
        tag = j.spec["tag"]
        if j.error:
            ctx.mark_inconclusive(f"sub-process {tag}: {j.error}")
            continue
        d = j.result
        ctx.note(f"worker_wall_s[{tag}]", {"worker": d.get("wall_s"), "launch_to_exit": d.get("launch_to_exit_s")})
        ctx.merge(d)
        ctx.count(f"W:sub-process {tag} completed")


# ====================================================================== entry point
def run(ctx):
    # Passive OpenMP waiting: with the default (spinning) policy one 16-thread parallel region costs ~0.3 s on an
    # oversubscribed box (measured), 6 ms when passive.  Must be set before numba loads libgomp (first parallel call).
    os.environ.setdefault("OMP_WAIT_POLICY", "PASSIVE")
    ctx.note("rule", "case = one execution of a library kernel/list operation on a generated input (op x coefficient class "
                     "{gint,int,rint exact; cplx,real,rreal dyadic floats} x shape {dense,sparse,zero,mono,highmono} x degrees<=8 x thread "
                     "count), one exhaustive table scan, one monomial pair, or one (case, layer, hog, thread count, repetition) "
                     "schedule execution; non-trivial = operands non-zero / result non-zero as flagged per op; distinct by input hash")
    tmpdir = tempfile.mkdtemp(prefix="hmon_c06_")
    jobs = []
    try:
        jobs = plan_jobs(ctx)
        for j in jobs:
            j.start(tmpdir)
        base = int(ctx.rng.integers(2 ** 62))
        ctx.note("generator_base", base)
        L = guarded(ctx, "import", Lib)
        if L is not None:
            ctx.note("numba", {"NUM_THREADS": L.max_threads, "layer_requested": str(L.numba.config.THREADING_LAYER),
                               "OMP_WAIT_POLICY": os.environ.get("OMP_WAIT_POLICY")})
            if ctx.mine(0):
                guarded(ctx, "bijection", bijection, ctx, L)
                guarded(ctx, "structure", structure, ctx, L)
                guarded(ctx, "canonical", canonical, ctx, L)
            guarded(ctx, "monomial_pairs", monomial_pairs, ctx, L, ctx.pick(2, 3), base)
            used = guarded(ctx, "refmodel", refmodel, ctx, L, ctx.pick(5000, 200000), base, None, "R",
                           ctx.pick(THREADS_QUICK + (1, 3), THREADS_FULL))
            ctx.note("refmodel_thread_counts_used", used)
            ctx.note("input_classes_seen(shape/coef)", dict(sorted(_CLASSES_SEEN.items())))
            if ctx.mine(1 % ctx.nshards):
                guarded(ctx, "schedule[in-process]", schedule, ctx, L, base, ctx.pick(THREADS_QUICK, THREADS_FULL),
                        ctx.pick(40, 30), ctx.pick(8, 6), "in-process", not ctx.quick)
            L.set_threads(L.max_threads)
        fold_jobs(ctx, jobs)
    finally:
        for j in jobs:
            if j.thread is not None:
                j.thread.join()
        shutil.rmtree(tmpdir, ignore_errors=True)

    # ---- minimum observation counts (else INCONCLUSIVE)
    one = ctx.nshards == 1
    ctx.require("B:slot count == C(d+5,5)", 31)
    ctx.require("B:encode(decode(pos))==pos, sum==d, 0<=k<=63 holds for every slot of every degree <= 30", 2)
    ctx.require("B:independent enumeration <-> slots bijective holds for every slot of every degree <= 30", 2)
    ctx.require("B:itertools enumeration (d<=8) <-> slots bijective via python calls", 9)
    ctx.require("C:{x_i,x_j} canonical relations, q-p order, {q_i,p_i}=+1 (kernel)", 36)
    ctx.require("pairs:_poly_mul", 28 * 28 if ctx.quick else 84 * 84)
    m = 8 if ctx.quick else 100
    for op in ALL_OPS:
        ctx.require(f"ref:{op}", 10 * m)
    for op in ("_poly_mul", "_poly_diff", "_poly_poisson", "_polynomial_multiply", "_polynomial_poisson_bracket", "_polynomial_power",
               "_substitute_linear", "_substitute_affine", "_poly_add", "_poly_scale", "_poly_evaluate"):
        ctx.require(f"R:{op} == exact integer arithmetic", 3 * m)
    for op in ("_poly_mul", "_poly_integrate", "_poly_poisson", "_polynomial_multiply", "_substitute_linear", "_polynomial_integrate"):
        ctx.require(f"R:{op} within {K_TOL:g}*eps*sum|terms| of the exact result", 2 * m)
    for op in ("_poly_mul", "_poly_diff", "_polynomial_multiply", "_polynomial_poisson_bracket"):
        ctx.require(f"S:{op} equals exact integer arithmetic for every thread count and repetition", 40 if ctx.quick else 400)
    ctx.require("W:sub-process workqueue completed", 1)
    ctx.require("W:sub-process boundscheck completed", 1)
    ctx.require("Z:bounds sanitizer live (harness out-of-range probe raised IndexError)", 1)
    ctx.require("Z:library executions under NUMBA_BOUNDSCHECK=1", 100)
    ctx.require("S:distinct iteration->thread partitions over thread counts (trip 126) [workqueue]", 2)
    if not ctx.quick:
        for tag in ("omp", "omp+hogs", "workqueue+hogs", "omp-default-wait-policy", "boundscheck-workqueue", "refmodel-omp",
                    "refmodel-workqueue"):
            ctx.require(f"W:sub-process {tag} completed", 1)
        ctx.require("S:distinct iteration->thread partitions over thread counts (trip 126) [omp]", 2)
    elif one:
        ctx.require("S:distinct iteration->thread partitions over thread counts (trip 126) [in-process]", 2)


if __name__ == "__main__":
    if len(sys.argv) >= 3 and sys.argv[1] == "--worker":
        sys.exit(worker_main(sys.argv[2]))
    print("usage: python -m hmon.monitors.c06 --worker SPEC.json   (normally launched by ./check C06 <tier>)")
    sys.exit(2)
