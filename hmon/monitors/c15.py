"""C15 — synodic section detection finds every crossing once, on the plane, in order.

Events: _SynodicDetectionBackend.detect_on_trajectory(times, states, normal=, offset=, ...) -> hits.
Oracle: naive per-segment sign-change model on the same samples (refsection) + exact crossing times of
analytic curves (brentq on the analytic section function).
"""
from __future__ import annotations

import numpy as np
from scipy.optimize import brentq

from ..core import guarded

COORDS = ["x", "y", "z", "vx", "vy", "vz"]
MECH_CUBIC = "cubic-hermite-derivative-wrong"


# ----------------------------------------------------------------------------- sample-level model
def model_linear(times, states, g, direction, tol, plane_idx, dedup_t, dedup_p, max_hits):
    """Expected hits for *linear* interpolation, following the documented rule.

    Returns (expected list of dict(time,state,kind,required), forbidden sample indices).
    kind: 'cross' (strict sign change), 'on' (sample on the surface).
    required: True / False (optional: outcome not fixed by the statement).
    """
    N = len(g)
    on = np.abs(g) < tol
    cand = []
    for k in range(N):
        if on[k]:
            prev = g[k - 1] if k > 0 and not on[k - 1] else None
            nxt = g[k + 1] if k < N - 1 and not on[k + 1] else None
            if k == N - 1:
                req = None                      # last sample: not fixed
            elif direction is None:
                req = True
            else:
                d = direction
                if prev is not None and nxt is not None and prev * d < 0 and nxt * d > 0:
                    req = True                  # genuine through-crossing in the requested direction
                elif prev is not None and nxt is not None and prev * d > 0 and nxt * d < 0:
                    req = False                 # genuine crossing in the filtered-out direction: forbidden
                else:
                    req = None                  # tangency / start on surface: statement does not fix it
            cand.append({"seg": k - 0.25, "time": float(times[k]), "state": states[k].copy(), "kind": "on", "required": req, "k": k})
        if k < N - 1 and not on[k] and not on[k + 1] and g[k] * g[k + 1] < 0:
            if direction is None or np.sign(g[k + 1]) == direction:
                a = g[k] / (g[k] - g[k + 1])
                cand.append({"seg": k, "time": float((1 - a) * times[k] + a * times[k + 1]),
                             "state": states[k] + a * (states[k + 1] - states[k]), "kind": "cross", "required": True, "k": k})
    cand.sort(key=lambda c: c["seg"])
    return cand


def match_hits(ctx, tag, times, states, g, direction, hits, cand, dedup_t, dedup_p, max_hits, plane_idx, linear, wit):
    """Compare the library's hits with the model; tolerant exactly where the statement is silent."""
    N = len(g)
    ht = np.array([h.time for h in hits], dtype=float)
    # (3) order
    ctx.check(np.all(np.diff(ht) >= 0), f"{tag}:hits in time order", wit)
    truncated = max_hits is not None and len(hits) >= max_hits
    if max_hits is not None:
        ctx.check(len(hits) <= max_hits, f"{tag}:max_hits respected", wit)
    used = np.zeros(len(hits), dtype=bool)
    last_time = ht[-1] if len(ht) else -np.inf
    prev_kept = None
    for c in cand:
        # bracket of the candidate
        if c["kind"] == "on":
            lo = hi = float(times[c["k"]])
        else:
            lo, hi = float(times[c["k"]]), float(times[c["k"] + 1])
        eps = 1e-12 * (1 + abs(hi))
        idx = [i for i in range(len(hits)) if not used[i] and lo - eps <= ht[i] <= hi + eps]
        if c["required"] is False:
            # forbidden: a hit exactly at this on-surface sample (and nowhere else accounted for)
            bad = [i for i in idx if abs(ht[i] - lo) <= eps]
            ctx.check(not bad, f"{tag}:no hit for filtered-direction crossing at on-surface sample",
                      lambda: {**wit(), "sample": c["k"]})
            continue
        if idx:
            i = idx[0]
            used[i] = True
            prev_kept = hits[i]
            if linear and c["kind"] == "cross":
                ctx.check(abs(ht[i] - c["time"]) <= 1e-9 * (1 + abs(hi - lo)) and
                          np.abs(hits[i].state - c["state"]).max() <= 1e-9 * (1 + np.abs(c["state"]).max()),
                          f"{tag}:hit == linear interpolation of its bracket",
                          lambda: {**wit(), "segment": c["k"], "lib_time": ht[i], "model_time": c["time"]})
            continue
        if c["required"] is None:
            continue
        # missing: acceptable only by the documented dedup rule or truncation
        if truncated and c["time"] >= last_time - eps:
            continue
        ok = False
        if prev_kept is not None:
            if abs(c["time"] - prev_kept.time) <= dedup_t + eps or (hi - lo) > 0 and not linear and \
                    (lo - dedup_t - eps <= prev_kept.time <= hi + dedup_t + eps):
                ok = True
            p = np.array([c["state"][plane_idx[0]], c["state"][plane_idx[1]]])
            if np.hypot(*(p - np.asarray(prev_kept.point2d))) <= dedup_p + 1e-15:
                ok = True
        ctx.check(ok, f"{tag}:every admissible crossing reported once",
                  lambda: {**wit(), "missing": {"kind": c["kind"], "segment": c["k"], "model_time": c["time"]},
                           "lib_times": ht.tolist()[:40]})
    extra = [i for i in range(len(hits)) if not used[i]]
    # an unmatched hit is acceptable only when it duplicates nothing: it must sit on an optional location
    opt_times = [c["time"] for c in cand if c["required"] is None]
    real_extra = [i for i in extra if not any(abs(ht[i] - t) <= 1e-12 * (1 + abs(t)) for t in opt_times)]
    return real_extra


def plane_names(rng):
    i, j = rng.choice(6, size=2, replace=False)
    return (COORDS[i], COORDS[j]), (int(i), int(j))


def run_detector(be, times, states, **kw):
    return be.detect_on_trajectory(times, states, **kw)


# ----------------------------------------------------------------------------- T1: sample-level semantics
def sample_level(ctx, n_cases):
    from hiten.algorithms.poincare.synodic.backend import _SynodicDetectionBackend
    be = _SynodicDetectionBackend()
    rng = ctx.rng
    for it in range(n_cases):
        if not ctx.mine(it):
            continue
        N = int(rng.integers(2, 60))
        cls = ["generic", "axis_zeros", "flat", "zero_len", "first_last"][it % 5]
        uniform = rng.random() < 0.5
        times = np.linspace(0, 1, N) if uniform else np.sort(np.concatenate([[0.0], rng.uniform(0, 1, N - 1)]))
        if len(np.unique(times)) < N and cls != "zero_len":
            times = np.linspace(0, 1, N)
        # smooth-ish random curve
        K = int(rng.integers(1, 5))
        A = rng.normal(size=(K, 6))
        B = rng.normal(size=(K, 6))
        w = rng.uniform(1, 25, K)
        states = sum(np.outer(np.sin(w[i] * times), A[i]) + np.outer(np.cos(w[i] * times), B[i]) for i in range(K))
        direction = [None, 1, -1][int(rng.integers(3))]
        tol = 1e-12
        if cls == "generic":
            normal = rng.normal(size=6)
            offset = float(rng.normal() * 0.3)
        else:
            ax = int(rng.integers(6))
            normal = np.zeros(6)
            normal[ax] = 1.0
            offset = float(np.round(rng.normal() * 0.3, 3))
            if cls == "axis_zeros":
                for k in rng.choice(N, size=min(N, int(rng.integers(1, 4))), replace=False):
                    states[k, ax] = offset            # exact zero of g at a sample
            elif cls == "flat":
                k0 = int(rng.integers(0, max(1, N - 3)))
                states[k0:k0 + int(rng.integers(2, 4)), ax] = offset   # consecutive on-surface samples
            elif cls == "zero_len" and N > 3:
                k0 = int(rng.integers(1, N - 1))
                times[k0] = times[k0 - 1]
                states[k0] = states[k0 - 1]
            elif cls == "first_last":
                states[0, ax] = offset if rng.random() < 0.7 else states[0, ax]
                states[-1, ax] = offset if rng.random() < 0.4 else states[-1, ax]
        g = states @ normal - offset
        # keep non-planted samples clearly off the surface so the model is unambiguous
        near = (np.abs(g) < 1e-7) & (g != 0.0)
        if near.any():
            ctx.skip("generated sample ambiguous (|g|<1e-7 but not 0)")
            continue
        names, pidx = plane_names(rng)
        refine = int([0, 0, 1, 3, 10][int(rng.integers(5))])
        # de-duplication tolerances: none, the defaults, and sizeable ones (point distance in the section plane / time) so that the
        # documented exception is actually exercised: a crossing may be missing only if it is within them of the previously kept hit
        dd = [(0.0, 0.0), (1e-9, 1e-12), (0.0, float(10.0 ** rng.uniform(-2, -0.5))), (float(10.0 ** rng.uniform(-2.5, -1)), 0.0)][int(rng.integers(4))]
        if dd[0] > 1e-6 or dd[1] > 1e-6:
            ctx.count("T1:cases with sizeable de-duplication tolerances")
        max_hits = None if rng.random() < 0.8 else int(rng.integers(1, 4))
        kw = dict(normal=normal, offset=offset, plane_coords=names, interp_kind="linear", segment_refine=refine,
                  tol_on_surface=tol, dedup_time_tol=dd[0], dedup_point_tol=dd[1], max_hits_per_traj=max_hits,
                  direction=direction, trajectory_index=int(it % 7))
        nz = int(np.sum(g == 0.0))
        nx = int(np.sum(g[:-1] * g[1:] < 0))
        ctx.case(f"samples:{cls}", [it, ctx.seed, N, refine, str(direction)], nontrivial=(nx + nz) > 0)

        def wit():
            return {"class": cls, "N": N, "times": times, "g": g, "direction": direction, "refine": refine,
                    "dedup": dd, "max_hits": max_hits, "normal": normal, "offset": offset}
        if it < 3:
            ctx.sample({"class": cls, "N": N, "direction": direction, "refine": refine, "g_head": g[:8], "n_sign_changes": nx, "n_exact_zero": nz})
        try:
            hits = run_detector(be, times.copy(), states.copy(), **kw)
        except Exception as exc:
            ctx.check(False, "T1:detector returns (no exception on valid input)", lambda: {**wit(), "error": repr(exc)[:300]})
            continue
        cand = model_linear(times, states, g, direction, tol, pidx, dd[0], dd[1], max_hits)
        tag = "T1"
        real_extra = match_hits(ctx, tag, times, states, g, direction, hits, cand, dd[0], dd[1], max_hits, pidx, True, wit)
        ctx.check(not real_extra, "T1:no hit without a sign change or on-surface sample",
                  lambda: {**wit(), "extra_times": [hits[i].time for i in real_extra], "lib_times": [h.time for h in hits]})
        # locality (metamorphic): a hit is determined by the samples around its own bracket, so mirroring the LAST sample across the
        # plane must not change any hit that lies before the last three segments
        if N >= 6 and it % 2 == 0:
            nn = float(normal @ normal)
            st2 = states.copy()
            st2[-1] = states[-1] - 2.0 * g[-1] * normal / nn
            if abs(float(st2[-1] @ normal - offset)) >= 1e-7 or g[-1] == 0.0:
                try:
                    hits2 = run_detector(be, times.copy(), st2, **kw)
                    tcut = times[N - 4]
                    a1 = [(h.time, tuple(np.round(h.state, 12))) for h in hits if h.time < tcut]
                    a2 = [(h.time, tuple(np.round(h.state, 12))) for h in hits2 if h.time < tcut]
                    if max_hits is None:
                        ctx.check(a1 == a2, "T1:hits do not depend on samples far from their bracket (last sample mirrored)",
                                  lambda: {**wit(), "hits": [x[0] for x in a1], "hits_after_mirroring_last_sample": [x[0] for x in a2]})
                except Exception as exc:
                    ctx.check(False, "T1:detector returns (no exception on valid input)", lambda: {**wit(), "error": repr(exc)[:300]})
        for h in hits:
            ctx.check(h.trajectory_index == kw["trajectory_index"], "T1:trajectory index carried", wit)
            gv = float(np.dot(h.state, normal) - offset)
            ctx.check(abs(gv) <= 1e-11 * (1 + np.abs(h.state).max() * np.abs(normal).max() * 6 + abs(offset)),
                      "T1:g(hit)==0 for affine g with linear interpolation", lambda: {**wit(), "g_hit": gv, "t": h.time})
            ctx.check(np.allclose(np.asarray(h.point2d), [h.state[pidx[0]], h.state[pidx[1]]], rtol=0, atol=0),
                      "T1:point2d is the named projection of the state", wit)
            ctx.check(times[0] - 1e-15 <= h.time <= times[-1] + 1e-15, "T1:hit time inside the sampled span", wit)


# ----------------------------------------------------------------------------- T2: accuracy on analytic curves
class Curve:
    def __init__(self, rng):
        K = int(rng.integers(1, 4))
        self.A = rng.normal(size=(K, 6))
        self.B = rng.normal(size=(K, 6))
        self.w = rng.uniform(0.5, 4.0, K)
        self.D = rng.normal(size=6) * 0.3
        self.E = rng.normal(size=6) * 0.3

    def x(self, t):
        t = np.atleast_1d(t)
        out = np.outer(t, self.D) + self.E
        for i in range(len(self.w)):
            out = out + np.outer(np.sin(self.w[i] * t), self.A[i]) + np.outer(np.cos(self.w[i] * t), self.B[i])
        return out

    def dx(self, t, order=1):
        t = np.atleast_1d(t)
        out = np.outer(np.ones_like(t), self.D) if order == 1 else np.zeros((t.size, 6))
        for i in range(len(self.w)):
            w = self.w[i]
            if order == 1:
                out = out + w * (np.outer(np.cos(w * t), self.A[i]) - np.outer(np.sin(w * t), self.B[i]))
            else:
                out = out - w * w * (np.outer(np.sin(w * t), self.A[i]) + np.outer(np.cos(w * t), self.B[i]))
        return out


def exact_roots(curve, normal, offset, T, nfine=20000):
    tt = np.linspace(0, T, nfine + 1)
    gg = curve.x(tt) @ normal - offset
    roots = []
    for k in np.nonzero(gg[:-1] * gg[1:] < 0)[0]:
        r = brentq(lambda t: float(curve.x(t)[0] @ normal - offset), tt[k], tt[k + 1], xtol=1e-15, rtol=1e-15)
        roots.append((r, np.sign(gg[k + 1])))
    return roots


def accuracy(ctx, n_curves):
    from hiten.algorithms.poincare.synodic.backend import _SynodicDetectionBackend
    be = _SynodicDetectionBackend()
    rng = ctx.rng
    ratios = {"linear": [], "cubic": []}
    ratios_by = {}                      # (kind, refine) -> ratios: the two cubic code paths (with / without segment refinement) judged apart
    for it in range(n_curves):
        if not ctx.mine(it):
            continue
        cv = Curve(rng)
        T = float(rng.uniform(2, 6))
        normal = rng.normal(size=6)
        normal /= np.linalg.norm(normal)
        offset = float(rng.normal() * 0.2)
        roots = exact_roots(cv, normal, offset, T)
        if not roots:
            ctx.skip("analytic curve has no crossing")
            continue
        rt = np.array([r for r, _ in roots])
        n0 = int(rng.choice([100, 150, 200]))
        dt0 = T / n0
        # well separated and transversal crossings only (two crossings in one interval are invisible to any sampler)
        gd = np.array([float(cv.dx(r)[0] @ normal) for r in rt])
        M2 = np.abs(cv.dx(np.linspace(0, T, 2001), order=2) @ normal).max()
        if (len(rt) > 1 and np.min(np.diff(rt)) < 6 * dt0) or np.min(np.abs(gd)) < 6 * M2 * dt0 or rt[0] < 3 * dt0 or rt[-1] > T - 3 * dt0:
            ctx.skip("analytic crossings too close / too tangential for the grid")
            continue
        direction = [None, 1, -1][it % 3]
        want = [(r, s) for r, s in roots if direction is None or s == direction]
        names, pidx = plane_names(rng)
        for kind in ("linear", "cubic"):
            for refine in (0, 2):
                errs = []
                for n in (n0, 2 * n0, 4 * n0):
                    times = np.linspace(0, T, n + 1)
                    states = cv.x(times)
                    hits = run_detector(be, times, states, normal=normal, offset=offset, plane_coords=names, interp_kind=kind,
                                        segment_refine=refine, direction=direction, dedup_time_tol=0.0, dedup_point_tol=0.0)
                    ht = np.array([h.time for h in hits])
                    dt = T / n
                    ctx.case(f"analytic:{kind}:refine{refine}", [it, ctx.seed, n, kind, refine], nontrivial=len(want) > 0)

                    def wit():
                        return {"T": T, "n": n, "kind": kind, "refine": refine, "direction": direction, "normal": normal,
                                "offset": offset, "w": cv.w, "exact": [r for r, _ in want], "lib": ht.tolist()}
                    ctx.check(len(hits) == len(want), "T2:one hit per admissible exact crossing", wit)
                    if len(hits) != len(want):
                        errs = None
                        break
                    emax = []
                    for (r, s), h in zip(want, hits):
                        k = min(int(r / dt), n - 1)
                        ctx.check(times[k] - 1e-12 <= h.time <= times[k + 1] + 1e-12, "T2:hit inside its bracketing interval", wit)
                        et = abs(h.time - r)
                        ex = np.abs(h.state - cv.x(r)[0]).max()
                        gdot = abs(float(cv.dx(r)[0] @ normal))
                        bound_t = 0.5 * M2 * dt * dt / gdot * 1.5 + 1e-13
                        M2x = np.abs(cv.dx(np.linspace(0, T, 801), order=2)).max()
                        vmax = np.abs(cv.dx(r)[0]).max()
                        bound_x = 0.5 * M2x * dt * dt + vmax * bound_t * 1.5 + 1e-13
                        ctx.stat(f"time_err/linear_bound[{kind}]", et / bound_t)
                        ctx.check(et <= bound_t and ex <= bound_x, "T2:error <= linear-interpolation error of the interval",
                                  lambda: {**wit(), "t_err": et, "bound_t": bound_t, "x_err": ex, "bound_x": bound_x})
                        emax.append(max(et, ex))
                    errs.append(emax)
                # T5: the same samples with DECREASING time stamps (t -> -t; what a stable manifold, integrated backward, hands to the
                # detector).  Completeness must not depend on the sign of dt.  Which orientation "direction" refers to for such input
                # (sample order or increasing time) is not fixed by the statement: either reading is accepted, a mixture is not.
                n = n0
                times = np.linspace(0, T, n + 1)
                states = cv.x(times)
                dt = T / n
                try:
                    hneg = run_detector(be, -times, states, normal=normal, offset=offset, plane_coords=names, interp_kind=kind,
                                        segment_refine=refine, direction=direction, dedup_time_tol=0.0, dedup_point_tol=0.0)
                except Exception as exc:
                    ctx.check(False, "T5:detector accepts strictly decreasing time stamps", {"T": T, "n": n, "kind": kind, "error": repr(exc)[:300]})
                    hneg = None
                if hneg is not None:
                    htn = np.array([h.time for h in hneg])
                    bt = 0.5 * M2 * dt * dt / float(np.min(np.abs(gd))) * 1.5 + 1e-13
                    classes = [roots] if direction is None else [[q for q in roots if q[1] == direction], [q for q in roots if q[1] == -direction]]
                    ok = any(len(htn) == len(c) and (len(c) == 0 or np.max(np.abs(np.sort(htn) - np.sort([-r for r, _ in c]))) <= bt) for c in classes)
                    ctx.case(f"analytic-decreasing-times:{kind}:refine{refine}", [it, ctx.seed, n, kind, refine], nontrivial=len(roots) > 0)
                    witn = {"T": T, "n": n, "kind": kind, "refine": refine, "direction": direction, "normal": normal, "offset": offset, "w": cv.w,
                            "exact_crossings(-t, orientation)": [(-r, sg) for r, sg in roots], "lib": htn.tolist(), "bound_t": bt}
                    ctx.check(ok, "T5:one hit per admissible exact crossing for decreasing time stamps", witn)
                    dmon = np.diff(htn)
                    ctx.check(htn.size < 2 or np.all(dmon > 0) or np.all(dmon < 0), "T5:hits of a decreasing-time trajectory are reported in monotone order", witn)
                if errs is None:
                    continue
                for ea, eb in zip(errs[:-1], errs[1:]):
                    for a, b in zip(ea, eb):
                        if a > 1e-9 and b > 1e-11:
                            ratios[kind].append(a / b)
                            ratios_by.setdefault((kind, refine), []).append(a / b)
                            ctx.count(f"T2:conclusive refinement ratio[{kind}]")
    nonuniform_accuracy(ctx, be, max(4, n_curves // 4))
    edge_segments(ctx, be, max(16, n_curves // 2))
    for kind, thr in (("linear", 3.0), ("cubic", 5.5)):
        r = np.array(ratios[kind])
        if r.size >= 30:
            gm = float(np.exp(np.mean(np.log(r))))
            frac_growing = float(np.mean(r < 1.0))
            ctx.stat(f"geomean_refinement_ratio[{kind}]", gm)
            ctx.stat(f"fraction_of_errors_growing_under_refinement[{kind}]", frac_growing)
            ctx.note(f"refinement_ratio_percentiles[{kind}]", np.percentile(r, [5, 25, 50, 75, 95]).tolist())
            mech = MECH_CUBIC if kind == "cubic" else None
            ctx.check(gm >= thr and frac_growing <= 0.10,
                      f"T2:error shrinks at the documented rate under grid refinement[{kind}]",
                      {"geomean_ratio": gm, "fraction_growing": frac_growing, "n": int(r.size), "threshold": thr,
                       "percentiles": np.percentile(r, [5, 25, 50, 75, 95]).tolist()}, mech)
        elif ctx.nshards == 1:
            ctx.mark_inconclusive(f"too few conclusive refinement ratios for {kind}: {r.size}")
    for (kind, refine), rr in sorted(ratios_by.items()):
        r = np.array(rr)
        if r.size >= 20:
            gm = float(np.exp(np.mean(np.log(r))))
            ctx.stat(f"geomean_refinement_ratio[{kind}:refine{refine}]", gm)
            # per code path: second order (ratio 4) for linear, faster for cubic; looser than the pooled bound because fewer samples
            thr = 3.0 if kind == "linear" else 5.0
            ctx.check(gm >= thr, f"T2:error shrinks at the documented rate under grid refinement[{kind}, segment_refine={'0' if refine == 0 else '>0'}]",
                      {"geomean_ratio": gm, "n": int(r.size), "threshold": thr, "percentiles": np.percentile(r, [5, 25, 50, 75, 95]).tolist()})
    ctx.note("n_ratios_linear", len(ratios["linear"]))
    ctx.note("n_ratios_cubic", len(ratios["cubic"]))


def nonuniform_accuracy(ctx, be, n_curves):
    """Non-uniform grids (jittered and graded): every hit inside its bracket, on the plane (affine section), and within the
    linear-interpolation error of that interval — for linear and cubic interpolation, with and without segment refinement.
    (The faster-than-second-order clause is stated for uniform grids only and is not asserted here.)"""
    rng = ctx.rng
    for it in range(n_curves):
        if not ctx.mine(it):
            continue
        cv = Curve(rng)
        T = float(rng.uniform(2, 5))
        normal = rng.normal(size=6)
        normal /= np.linalg.norm(normal)
        offset = float(rng.normal() * 0.2)
        roots = exact_roots(cv, normal, offset, T)
        if not roots:
            continue
        # fine grids as well: an error that is only first order in the spacing stays inside the (second-order) linear bound on a
        # coarse grid and leaves it on a fine one
        n = int(rng.choice([200, 400, 1600, 3200]))
        u = np.linspace(0, 1, n + 1)
        if it % 2 == 0:
            jitter = rng.uniform(-0.35, 0.35, n + 1) / n
            jitter[0] = jitter[-1] = 0.0
            times = T * np.sort(u + jitter)
            gname = "jittered"
        else:
            times = T * u ** float(rng.uniform(1.2, 1.6))
            gname = "graded"
        if len(np.unique(times)) < len(times):
            continue
        dts = np.diff(times)
        rt = np.array([r for r, _ in roots])
        gd = np.array([float(cv.dx(r)[0] @ normal) for r in rt])
        M2 = np.abs(cv.dx(np.linspace(0, T, 2001), order=2) @ normal).max()
        M2x = np.abs(cv.dx(np.linspace(0, T, 801), order=2)).max()
        hmax = dts.max()
        if (len(rt) > 1 and np.min(np.diff(rt)) < 6 * hmax) or np.min(np.abs(gd)) < 6 * M2 * hmax or rt[0] < times[3] or rt[-1] > times[-4]:
            ctx.skip("analytic crossings too close / too tangential for the non-uniform grid")
            continue
        states = cv.x(times)
        names, pidx = plane_names(rng)
        direction = [None, 1, -1][it % 3]
        want = [(r, s_) for r, s_ in roots if direction is None or s_ == direction]
        for kind in ("linear", "cubic"):
            for refine in (0, 3):
                hits = run_detector(be, times, states, normal=normal, offset=offset, plane_coords=names, interp_kind=kind,
                                    segment_refine=refine, direction=direction, dedup_time_tol=0.0, dedup_point_tol=0.0)
                ctx.case(f"nonuniform:{gname}:{kind}:refine{refine}", [it, ctx.seed, n, gname, kind, refine], nontrivial=len(want) > 0)

                def wit():
                    return {"grid": gname, "n": n, "T": T, "kind": kind, "refine": refine, "direction": direction, "normal": normal, "offset": offset,
                            "exact": [r for r, _ in want], "lib": [h.time for h in hits]}
                if not ctx.check(len(hits) == len(want), "T4:one hit per admissible exact crossing (non-uniform grid)", wit):
                    continue
                for (r, s_), h in zip(want, hits):
                    k = int(np.searchsorted(times, r) - 1)
                    dt = times[k + 1] - times[k]
                    ctx.check(times[k] - 1e-12 <= h.time <= times[k + 1] + 1e-12, "T4:hit inside its bracketing interval (non-uniform grid)", wit)
                    gdot = abs(float(cv.dx(r)[0] @ normal))
                    bound_t = 0.5 * M2 * dt * dt / gdot * 1.5 + 1e-13
                    vmax = np.abs(cv.dx(r)[0]).max()
                    # neighbour slopes of the cubic span up to three intervals: allow the largest of them in the bound
                    dloc = dts[max(0, k - 1):k + 2].max()
                    bound_x = 0.5 * M2x * dloc * dloc + vmax * bound_t * 1.5 + 1e-13
                    et, ex = abs(h.time - r), np.abs(h.state - cv.x(r)[0]).max()
                    gres = abs(float(h.state @ normal - offset))
                    ctx.stat(f"T4:state_err/linear_bound[{kind}:refine{refine}]", ex / bound_x)
                    ctx.check(et <= bound_t * (dloc / dt) ** 2 and ex <= bound_x, "T4:error <= linear-interpolation error of the interval (non-uniform grid)",
                              lambda: {**wit(), "t_err": et, "bound_t": bound_t, "x_err": ex, "bound_x": bound_x})
                    # on the plane: exact for linear interpolation; for cubic the plane residual is bounded by the same interpolation error
                    ctx.check(gres <= (1e-11 if kind == "linear" else bound_x * 6) * (1 + np.abs(h.state).max()),
                              "T4:hit lies on the section within the interpolation error (non-uniform grid)", lambda: {**wit(), "g_hit": gres})


def edge_segments(ctx, be, n_curves):
    """T6: crossings in the FIRST, second, second-last and LAST sample interval of a trajectory (where a cubic interpolant has only
    one-sided slope information): one hit, inside its bracket, within the linear-interpolation error of that interval; an IndexError
    from the interpolation code is an internal error (clause X)."""
    rng = ctx.rng
    for it in range(n_curves):
        if not ctx.mine(it):
            continue
        cv = Curve(rng)
        T = float(rng.uniform(2, 5))
        normal = rng.normal(size=6)
        normal /= np.linalg.norm(normal)
        offset = float(rng.normal() * 0.2)
        roots = exact_roots(cv, normal, offset, T)
        if not roots:
            continue
        r, sg = roots[int(rng.integers(len(roots)))]
        n = int(rng.choice([40, 120, 400]))
        dt = float(rng.uniform(0.5, 1.0)) * T / 400
        M2 = np.abs(cv.dx(np.linspace(-1, T + 1, 2001), order=2) @ normal).max()
        M2x = np.abs(cv.dx(np.linspace(-1, T + 1, 801), order=2)).max()
        gdot = abs(float(cv.dx(r)[0] @ normal))
        if gdot < 6 * M2 * dt:
            ctx.skip("edge crossing too tangential for the grid")
            continue
        where = ["first", "second", "second_last", "last"][it % 4]
        theta = float(rng.uniform(0.15, 0.85))
        kseg = {"first": 0, "second": 1, "second_last": n - 2, "last": n - 1}[where]
        t0 = r - (kseg + theta) * dt
        times = t0 + dt * np.arange(n + 1)
        gg = cv.x(times) @ normal - offset
        sign_changes = np.nonzero(gg[:-1] * gg[1:] < 0)[0]
        if kseg not in sign_changes.tolist():
            ctx.skip("edge crossing not bracketed by the constructed grid")
            continue
        # keep only the edge crossing in view: the other crossings of the window are judged by T2/T4
        states = cv.x(times)
        names, pidx = plane_names(rng)
        for kind in ("linear", "cubic"):
            for refine in (0, 3):
                wit = lambda: {"where": where, "segment": kseg, "n": n, "dt": dt, "t0": t0, "kind": kind, "refine": refine, "normal": normal, "offset": offset,
                               "w": cv.w, "exact_crossing": r}
                try:
                    hits = run_detector(be, times, states, normal=normal, offset=offset, plane_coords=names, interp_kind=kind,
                                        segment_refine=refine, direction=None, dedup_time_tol=0.0, dedup_point_tol=0.0)
                except (IndexError, KeyError) as exc:
                    ctx.check(False, "X:library operation completes on a legitimate input (no internal IndexError/KeyError)", {**wit(), "error": repr(exc)[:300]})
                    continue
                ctx.case(f"edge:{where}:{kind}:refine{refine}", [it, ctx.seed, where, n, kind, refine], nontrivial=True)
                mine = [h for h in hits if times[kseg] - 1e-12 <= h.time <= times[kseg + 1] + 1e-12]
                if not ctx.check(len(mine) == 1, "T6:exactly one hit for a crossing in an edge interval of the trajectory", lambda: {**wit(), "lib": [h.time for h in hits]}):
                    continue
                h = mine[0]
                et, ex = abs(h.time - r), np.abs(h.state - cv.x(r)[0]).max()
                bound_t = 0.5 * M2 * dt * dt / gdot * 1.5 + 1e-13
                vmax = np.abs(cv.dx(r)[0]).max()
                bound_x = 0.5 * M2x * dt * dt + vmax * bound_t * 1.5 + 1e-13
                ctx.stat(f"T6:time_err/linear_bound[{kind}:{where}]", et / bound_t)
                ctx.stat(f"T6:state_err/linear_bound[{kind}:{where}]", ex / bound_x)
                ctx.check(et <= bound_t and ex <= bound_x, "T6:error <= linear-interpolation error of the interval (crossing in an edge interval)",
                          lambda: {**wit(), "t_err": et, "bound_t": bound_t, "x_err": ex, "bound_x": bound_x})


def hermite_units(ctx):
    """Invariant on the Hermite helpers used by cubic refinement: derivative consistent with the value function."""
    from hiten.algorithms.poincare.utils import _hermite_der, _hermite_scalar
    rng = ctx.rng
    for _ in range(ctx.pick(200, 2000)):
        y0, y1, d0, d1 = rng.normal(size=4)
        dt = float(rng.uniform(0.01, 2))
        s = float(rng.uniform(0, 1))
        h = 1e-5
        fd = (_hermite_scalar(s + h, y0, y1, d0, d1, dt) - _hermite_scalar(s - h, y0, y1, d0, d1, dt)) / (2 * h)
        an = _hermite_der(s, y0, y1, d0, d1, dt)
        ctx.check(abs(fd - an) <= 1e-6 * (1 + abs(fd)), "T3:_hermite_der == d/ds _hermite_scalar",
                  {"s": s, "y0": y0, "y1": y1, "d0": d0, "d1": d1, "dt": dt, "finite_diff": fd, "lib": an}, MECH_CUBIC)
        ctx.check(abs(_hermite_scalar(0.0, y0, y1, d0, d1, dt) - y0) < 1e-14 and abs(_hermite_scalar(1.0, y0, y1, d0, d1, dt) - y1) < 1e-13,
                  "T3:hermite interpolates end values", {"y0": y0, "y1": y1})


def synodic_map_end_to_end(ctx):
    """SynodicMap.compute on a propagated periodic orbit: hits against exact plane crossings of the reference flow (SciPy events)."""
    from scipy.integrate import solve_ivp
    from hiten import System
    from hiten.system import LyapunovOrbit, SynodicMap
    from ..oracles import cr3bp as ref
    if not ctx.mine(0):
        return
    sysm = System.from_bodies("earth", "moon")
    mu = float(sysm.mu)
    pt = sysm.get_libration_point(1)
    for amp, steps in ((0.03, 400), (0.05, 800)) if ctx.quick else ((0.02, 300), (0.03, 400), (0.05, 800), (0.08, 1600)):
        orb = pt.create_orbit(LyapunovOrbit, amplitude_x=amp)
        try:
            orb.correct()
        except Exception:
            ctx.skip("Lyapunov correction failed — C05's concern")
            continue
        x0 = np.asarray(orb.initial_state, dtype=float)
        T = float(orb.period)
        orb.propagate(steps=steps)
        # section x = const through the orbit's interior (the orbit crosses it twice per period, away from the sampled end points)
        xs = np.asarray(orb.trajectory.states)[:, 0]
        off = float(0.5 * (xs.min() + xs.max()) + 0.13 * (xs.max() - xs.min()))

        def ev(t, y):
            return y[0] - off
        sol = solve_ivp(lambda t, y: ref.field(y, mu), (0.0, T), x0, method="DOP853", rtol=1e-13, atol=1e-13, events=ev)
        exact = sorted((float(t), np.sign(ref.field(y, mu)[0]), y) for t, y in zip(sol.t_events[0], sol.y_events[0]) if 1e-3 < t < T - 1e-3)
        dt = T / (steps - 1)
        for direction in (None, 1, -1):
            smap = SynodicMap(orb)
            res = smap.compute(section_axis="x", section_offset=off, plane_coords=("y", "vy"), direction=direction)
            want = [e for e in exact if direction is None or e[1] == direction]
            st = np.asarray(res.states, dtype=float).reshape(-1, 6)
            pts = np.asarray(res.points, dtype=float).reshape(-1, 2)
            ctx.case("SynodicMap:lyapunov", [amp, steps, str(direction)], nontrivial=len(want) > 0)
            wit = {"amplitude_x": amp, "steps": steps, "direction": direction, "offset": off, "exact_times": [e[0] for e in want], "n_hits": len(st)}
            ok = ctx.check(len(st) == len(want), "E2E:SynodicMap reports one hit per admissible exact crossing", wit)
            if not ok:
                continue
            # match by nearest exact crossing state
            for h, p2 in zip(st, pts):
                d = [np.abs(h - e[2]).max() for e in want]
                j = int(np.argmin(d))
                acc = np.abs(sol.sol(want[j][0]) - want[j][2]).max() if sol.sol is not None else 0.0
                M2 = 30.0   # generous bound on |x''| along a small Lyapunov orbit (order of the local accelerations' derivatives)
                bound = 0.5 * M2 * dt * dt + 1e-9
                ctx.stat("E2E:state_err/linear_bound", d[j] / bound)
                ctx.check(d[j] <= bound, "E2E:hit state within the linear-interpolation error of the exact crossing", {**wit, "err": d[j], "bound": bound})
                ctx.check(abs(h[0] - off) <= 1e-12, "E2E:hit lies on the section plane", {**wit, "x": h[0]})
                ctx.check(np.array_equal(p2, h[[1, 4]]), "E2E:points are the named plane coordinates of the states", {**wit, "point": p2, "state": h})


def run(ctx):
    ctx.note("rule", "case = one (sampled curve, section, direction, interpolation, refinement) detection call; non-trivial = "
                     "the samples contain >=1 sign change or on-surface sample; distinct by generator index+seed")
    guarded(ctx, "sample_level", sample_level, ctx, ctx.pick(3000, 200000))
    guarded(ctx, "accuracy", accuracy, ctx, ctx.pick(60, 1600))
    guarded(ctx, "hermite", hermite_units, ctx)
    guarded(ctx, "synodic_map", synodic_map_end_to_end, ctx)
    ctx.require("T1:every admissible crossing reported once", 0)
    ctx.require("T1:hits in time order", 200 if ctx.nshards == 1 else 20)
    ctx.require("T2:one hit per admissible exact crossing", 50 if ctx.nshards == 1 else 5)
    ctx.require("T5:one hit per admissible exact crossing for decreasing time stamps", 20 if ctx.nshards == 1 else 2)
    ctx.require("T6:error <= linear-interpolation error of the interval (crossing in an edge interval)", 40 if ctx.nshards == 1 else 4)
