"""C11 — event detection returns the first admissible crossing, on the trajectory.

Events : Integrator.integrate(system, y0, t_vals, event_fn=g, event_cfg=EventConfig(direction, terminal),
         event_options=EventOptions(xtol, gtol)) -> times[-1], states[-1] for the event drivers
         fixed-step RK4/6/8, RK45, DOP853 (generic rhs and polynomial-Hamiltonian twins), extended symplectic,
         and _SingleHitBackend._cross_event_driven on CR3BP trajectories.
Oracle : exact first admissible zero t* of G(t) = g(t, phi(t)) on the span, phi = closed-form flow (oscillators with
         drift / forcing / action-dependent frequencies) or SciPy DOP853 at 1e-13 (non-integrable quartics, CR3BP):
         hmon/oracles/eventref.py.  E_int = error of the SAME integrator on the SAME problem without event.
Not asserted : outcome for an exact zero at a step end in the filtered-out direction; cases with two zeros closer
         than 4 steps, nearly tangential zeros/extrema or a zero within the error bound of the span end are
         rejected by the generator (counted under "skipped").
"""
from __future__ import annotations

import time

import numpy as np

from ..core import guarded, Inconclusive
from ..oracles import eventref as er

# layout of the 25-dim generic state: x(6) | w(3) | D(6) | f, nu | a(6) | a_t | c
DIM_G = 25
IW, ID, IF, INU, IA, IAT, IC = 6, 9, 15, 16, 17, 23, 24
HAMB_C0, HAMB_CT = 0.05, 0.02
THETA_TIME = 10.0           # sentinel: Hamiltonian parametric event becomes g = t - c

MECH_FWD = "singlehit-event-leg-ignores-forward"

_J = {}


def _jit():
    """The small fixed set of numba functions (every new dispatcher re-specialises the integrator kernels)."""
    if _J:
        return _J
    from numba import njit, types
    SIG = types.float64(types.float64, types.float64[:])

    @njit(cache=False)
    def rhs_lin(t, y):
        out = np.zeros(y.size)
        if y[16] < 0.0:                     # Kepler mode: gm = y[15]
            r2 = y[0] * y[0] + y[1] * y[1] + y[2] * y[2]
            r3 = r2 * np.sqrt(r2)
            for i in range(3):
                out[i] = y[3 + i]
                out[3 + i] = -y[15] * y[i] / r3
            return out
        for i in range(3):
            w = y[6 + i]
            out[i] = w * y[3 + i] + y[9 + i]
            out[3 + i] = -w * y[i] + y[12 + i]
        out[0] += y[15] * np.cos(y[16] * t)
        return out

    @njit(SIG, cache=False)
    def g_aff(t, y):
        s = y[23] * t - y[24]
        for j in range(6):
            s += y[17 + j] * y[j]
        return s

    @njit(SIG, cache=False)
    def g_quad(t, y):
        s = y[23] * y[0] * y[4] - y[24]
        for j in range(6):
            s += y[17 + j] * y[j] * y[j]
        return s

    @njit(SIG, cache=False)
    def g_hamA(t, y):
        th = y[5]
        c = y[2]
        if th > 9.0 and th < 15.0:
            return t - c
        # steepness of the event function encoded in theta: theta + 20 m, m = 0, 1, 2 -> scale 1, 1e3, 1e-3 (c carries the scale)
        sc = 1.0
        if th >= 35.0:
            sc = 1e-3
            th = th - 40.0
        elif th >= 15.0:
            sc = 1e3
            th = th - 20.0
        return sc * (np.cos(th) * y[0] + np.sin(th) * y[3] + 0.5 * np.sin(th) * y[1]) - c

    @njit(SIG, cache=False)
    def g_hamB(t, y):
        return y[0] * y[4] + 0.5 * y[2] * y[2] - 0.05 - 0.02 * t

    _J.update(rhs_lin=rhs_lin, g_aff=g_aff, g_quad=g_quad, g_hamA=g_hamA, g_hamB=g_hamB)
    return _J


# ----------------------------------------------------------------------------- python twins of the event functions
def py_aff(a, at, c):
    a = np.asarray(a, dtype=float)
    return (lambda t, X: X @ a + at * t - c), (lambda t, X: np.full(len(t), np.linalg.norm(a)))


def py_quad(a, at, c):
    a = np.asarray(a, dtype=float)

    def g(t, X):
        return (X * X) @ a + at * X[:, 0] * X[:, 4] - c

    def gn(t, X):
        G = 2 * X * a[None, :]
        G[:, 0] += at * X[:, 4]
        G[:, 4] += at * X[:, 0]
        return np.linalg.norm(G, axis=1)
    return g, gn


def py_hamA(th, c):
    if 9.0 < th < 15.0:
        return (lambda t, X: t - c), (lambda t, X: np.zeros(len(t)))
    sc = 1.0
    if th >= 35.0:
        sc, th = 1e-3, th - 40.0
    elif th >= 15.0:
        sc, th = 1e3, th - 20.0
    ct, st = np.cos(th), np.sin(th)
    return (lambda t, X: sc * (ct * X[:, 0] + st * X[:, 3] + 0.5 * st * X[:, 1]) - c), \
           (lambda t, X: np.full(len(t), sc * np.sqrt(ct * ct + 1.25 * st * st)))


def py_hamB():
    def g(t, X):
        return X[:, 0] * X[:, 4] + 0.5 * X[:, 2] * X[:, 2] - HAMB_C0 - HAMB_CT * t

    def gn(t, X):
        return np.sqrt(X[:, 4] ** 2 + X[:, 0] ** 2 + X[:, 2] ** 2)
    return g, gn


# ----------------------------------------------------------------------------- library handles
class Lib:
    def __init__(self):
        from hiten.algorithms.dynamics.hamiltonian import create_hamiltonian_system
        from hiten.algorithms.dynamics.rhs import create_rhs_system
        from hiten.algorithms.integrators import AdaptiveRK, RungeKutta
        from hiten.algorithms.integrators.symplectic import ExtendedSymplectic
        from hiten.algorithms.polynomial.base import (_create_encode_dict_from_clmo, _encode_multiindex,
                                                      _init_index_tables, _make_poly)
        from hiten.algorithms.types.configs import EventConfig
        from hiten.algorithms.types.options import EventOptions
        self.J = _jit()
        self.EventConfig, self.EventOptions = EventConfig, EventOptions
        self.RungeKutta, self.AdaptiveRK, self.ExtendedSymplectic = RungeKutta, AdaptiveRK, ExtendedSymplectic
        self.sysg = create_rhs_system(self.J["rhs_lin"], dim=DIM_G, name="c11-linear")
        self._mk = create_hamiltonian_system
        self.deg = 4
        self.psi, self.clmo = _init_index_tables(self.deg)
        self.enc = _create_encode_dict_from_clmo(self.clmo)
        self._make_poly, self._encode = _make_poly, _encode_multiindex

    def ham_system(self, terms):
        H = [self._make_poly(d, self.psi) for d in range(self.deg + 1)]
        for k, c in terms.items():
            d = int(sum(k))
            idx = int(self._encode(np.asarray(k, dtype=np.int64), d, self.enc))
            if idx < 0:
                raise Inconclusive(f"monomial {k} not encodable")
            H[d][idx] = c
        return self._mk(H, self.deg, self.psi, self.clmo, self.enc, n_dof=3, name="c11-poly")

    def integrator(self, spec):
        kind = spec["kind"]
        if kind == "fixed":
            return self.RungeKutta(order=spec["order"])
        if kind == "adaptive":
            kw = dict(rtol=spec["rtol"], atol=spec["atol"])
            if spec.get("max_step") is not None:
                kw["max_step"] = spec["max_step"]
            if spec.get("min_step") is not None:
                kw["min_step"] = spec["min_step"]
            return self.AdaptiveRK(order=spec["order"], **kw)
        if kind == "symplectic":
            return self.ExtendedSymplectic(order=spec["order"])
        raise ValueError(kind)


DRIVERS_GEN = ["rk4", "rk6", "rk8", "rk45", "dop853"]
DRIVERS_HAM = ["rk4_ham", "rk6_ham", "rk8_ham", "rk45_ham", "dop853_ham", "symplectic"]


def calibrate_kappa():
    """h*wmax of the largest accepted step of SciPy's twin method at the tolerances used with the default max_step
    (only used to translate 'zeros closer than 4 steps' for adaptive runs without an explicit max_step)."""
    from scipy.integrate import solve_ivp
    w = np.array([1.0, 0.6, 0.8])

    def f(t, y):
        return np.concatenate([w * y[3:], -w * y[:3]])
    out = {}
    for meth, rtols in (("RK45", (1e-9, 1e-11)), ("DOP853", (1e-11, 1e-13))):
        for rtol in rtols:
            sol = solve_ivp(f, (0, 30.0), np.array([0.7, -0.4, 0.5, 0.2, 0.6, -0.3]), method=meth, rtol=rtol, atol=rtol * 1e-2)
            out[(meth, rtol)] = float(np.max(np.diff(sol.t)[:-1]) * 1.0)
    return out


# ----------------------------------------------------------------------------- generators
def gen_grid(rng, drv_kind, order, t0, T, wmax, kappa):
    """Integrator spec + time grid + the step length used by the 'closer than 4 steps' rule."""
    span = T - t0
    if drv_kind in ("fixed", "symplectic"):
        if drv_kind == "fixed":
            hw = float(np.exp(rng.uniform(np.log(0.01), np.log(0.3))))
            n = int(np.clip(np.ceil(span * wmax / hw), 8, 2500))
        else:                               # symplectic steps are ~100x dearer
            hw = float(np.exp(rng.uniform(np.log(0.02), np.log(0.12))))
            n = int(np.clip(np.ceil(span * wmax / hw), 8, 500))
        if rng.random() < 0.2 and n >= 16:
            d = rng.uniform(0.5, 1.5, n)
            tv = t0 + np.concatenate([[0.0], np.cumsum(d)]) * (span / d.sum())
            tv[-1] = T
        else:
            tv = np.linspace(t0, T, n + 1)
        spec = {"kind": drv_kind, "order": order if order else int(rng.choice([4, 6, 8]))}
        return spec, tv, float(np.max(np.diff(tv)))
    meth = "RK45" if order == 5 else "DOP853"
    rt = (1e-7, 1e-9, 1e-11) if order == 5 else (1e-9, 1e-11, 1e-13)
    if rng.random() < 0.3:
        rtol = rt[1 + int(rng.integers(2))]
        spec = {"kind": "adaptive", "order": order, "rtol": rtol, "atol": rtol * 1e-2, "max_step": None}
        hstep = 1.5 * kappa[(meth, rtol)] * 1.0 / wmax
    else:
        rtol = rt[int(rng.integers(3))]
        ms = float(rng.choice([0.03, 0.06, 0.125, 0.25]))
        spec = {"kind": "adaptive", "order": order, "rtol": rtol, "atol": rtol * 1e-2, "max_step": ms}
        hstep = ms
    return spec, np.array([t0, T]), hstep


def drv_parts(drv):
    base = drv.replace("_ham", "")
    if base == "symplectic":
        return "symplectic", None
    if base in ("rk4", "rk6", "rk8"):
        return "fixed", int(base[2])
    return "adaptive", 5 if base == "rk45" else 8


def pick_level(rng, G0, g0_exact, mode):
    """Offset c such that g = G0 - c has (cross) a zero at a random time, (none) no zero, (surface) g(t0) == 0 exactly,
    (near) |g(t0)| tiny."""
    lo, hi = float(G0.min()), float(G0.max())
    rngG = max(hi - lo, 1e-9)
    if mode in ("cross", "late"):            # value of G0 at a random (non-grid) time: linear interpolation of the sample
        # "late": the zero lies in the last 0.05 % - 1.5 % of the span, i.e. inside the final step, which every driver clips to the
        # end of the span (the refinement must then use the clipped step, not the controller's natural one)
        u = float(rng.uniform(0.05, 1.0) if mode == "cross" else 1.0 - 10.0 ** rng.uniform(-3.3, -1.8)) * (len(G0) - 1)
        k = min(int(u), len(G0) - 2)
        return float(G0[k] + (u - k) * (G0[k + 1] - G0[k]))
    if mode == "none":
        return float(hi + rngG * rng.uniform(0.05, 0.5)) if rng.random() < 0.5 else float(lo - rngG * rng.uniform(0.05, 0.5))
    if mode == "surface":
        return float(g0_exact)
    delta = float(rng.choice([1e-13, 1e-11, 1e-9])) * (1 if rng.random() < 0.5 else -1)
    return float(g0_exact + delta)


def gen_generic(rng, drv, lib, kappa, it):
    kind, order = drv_parts(drv)
    w = rng.uniform(0.4, 3.0, 3)
    x0 = rng.normal(0, 0.6, 6)
    D = np.zeros(6)
    f = nu = 0.0
    pcls = ["rot", "rot", "drift", "forced", "kepler"][int(rng.integers(5))]
    if pcls == "kepler":                    # flag nu = -1, gm in the f slot; w, D unused
        w = np.zeros(3)
        f, nu = float(rng.uniform(0.5, 2.0)), -1.0
        rr = float(rng.uniform(0.6, 1.4))
        u = rng.normal(size=3)
        u /= np.linalg.norm(u)
        tdir = np.cross(u, rng.normal(size=3))
        tdir /= np.linalg.norm(tdir)
        vc = np.sqrt(f / rr)
        x0 = np.concatenate([rr * u, vc * (rng.uniform(0.8, 1.15) * tdir + rng.uniform(-0.25, 0.25) * u)])
    elif pcls == "drift":
        D = rng.normal(0, 0.3, 6)
        if rng.random() < 0.4:
            w[2] = 0.0
    elif pcls == "forced":
        f = float(rng.uniform(0.2, 1.0))
        for _ in range(50):
            nu = float(rng.uniform(0.3, 3.5))
            if abs(nu - w[0]) > 0.3:
                break
    t0 = 0.0 if rng.random() < 0.5 else float(rng.uniform(-3, 3))
    T = t0 + float(np.exp(rng.uniform(np.log(0.4), np.log(12.0))))
    if pcls == "kepler":
        flow = er.KeplerFlow(x0, f, t0=t0)
    else:
        flow = er.OscFlow(x0, w, t0=t0, D=D[:3] + 1j * D[3:], f=f, nu=nu)
    wmax = max(flow.wmax(), 0.4)
    spec, tv, hstep = gen_grid(rng, kind, order, t0, T, wmax, kappa)
    # event
    ek = ["aff-coord", "aff-coord", "aff-rand", "aff-time", "quad"][int(rng.integers(5))]
    tt = np.linspace(t0, T, 400)
    X = flow(tt)
    a = np.zeros(6)
    at = 0.0
    if ek == "aff-coord":
        i = int(rng.integers(6))
        a[i] = 1.0
    elif ek in ("aff-rand", "aff-time"):
        a = rng.normal(size=6)
        a /= np.linalg.norm(a)
        if ek == "aff-time":
            at = float(rng.uniform(0.05, 0.4) * (1 if rng.random() < 0.5 else -1))
    else:
        a = rng.normal(size=6) * (rng.random(6) < 0.6)
        at = float(rng.normal()) if rng.random() < 0.6 else 0.0
        if not a.any() and at == 0.0:
            a[0] = 1.0
    mk = py_quad if ek == "quad" else py_aff
    g_nc, _ = mk(a, at, 0.0)
    G0 = g_nc(tt, X)
    if ek == "aff-coord":
        mode = ["cross", "cross", "late", "none", "surface", "near"][int(rng.integers(6))]
        g0_exact = float(x0[i])
    else:
        mode = ["cross", "cross", "late", "none"][int(rng.integers(4))]
        g0_exact = float(G0[0])
    c = pick_level(rng, G0, g0_exact, mode)
    # steepness: the same event written with a slope far from 1 (g -> 1e3 g, 1e-3 g): the two location tolerances (time bracket,
    # event-function value) then bind at very different accuracies
    steep = 1.0
    if mode in ("cross", "late", "none") and rng.random() < 0.45:
        steep = 1e3 if rng.random() < 0.5 else 1e-3
        a, at, c = a * steep, at * steep, c * steep
    gpy, gnorm = mk(a, at, c)
    y0 = np.zeros(DIM_G)
    y0[:6] = x0
    y0[IW:IW + 3] = w
    y0[ID:ID + 6] = D
    y0[IF], y0[INU] = f, nu
    y0[IA:IA + 6] = a
    y0[IAT], y0[IC] = at, c
    g_start = float(x0[i] - c) if (ek == "aff-coord" and steep == 1.0) else float(gpy(np.array([t0]), x0[None, :])[0])
    return dict(drv=drv, fam="gen", system=lib.sysg, y0=y0, t0=t0, T=T, tv=tv, hstep=hstep, spec=spec,
                event=lib.J["g_quad" if ek == "quad" else "g_aff"], gpy=gpy, gnorm=gnorm, flow=flow, wmax=wmax,
                g_start=g_start, exact_start=(mode == "surface"), mode=mode, ekind=ek, pcls=pcls,
                meta={"w": w, "D": D, "f": f, "nu": nu, "x0": x0, "a": a, "a_t": at, "c": c, "steepness": steep})


class HamPool:
    """create_hamiltonian_system costs ~1 s per call, so polynomial Hamiltonians come from a small pool; the cases vary
    the initial state (hence, for action-dependent frequencies, the frequencies), span, grid and event parameters."""

    def __init__(self, lib, rng, n_frozen, n_full):
        self.lib = lib
        self.frozen = [self._make(rng, ["harm", "action", "nonint", "action"][i % 4], True) for i in range(n_frozen)]
        self.full = [self._make(rng, ["harm", "action", "nonint"][i % 3], False) for i in range(n_full)]
        self.drift = {}
        for sgn in (1.0, -1.0):
            terms = er.PolyHam.action_terms(np.zeros(3), None, lin=[0, 0, 0, sgn, 0, 0])       # H = +-p1 : q1' = +-1
            self.drift[sgn] = {"terms": terms, "system": lib.ham_system(terms)}

    def _make(self, rng, pcls, frozen):
        w = rng.uniform(0.4, 3.0, 3)
        B = np.zeros((3, 3))
        if pcls == "action":
            M = rng.normal(0, 0.35, (3, 3))
            B = 0.5 * (M + M.T)
        if frozen:                         # third degree of freedom frozen: q3 = c, p3 = theta carry the event parameters
            w[2] = 0.0
            B[2, :] = 0.0
            B[:, 2] = 0.0
        terms = er.PolyHam.action_terms(w, B)
        if pcls == "nonint":
            eps = float(rng.uniform(0.05, 0.25))
            terms[(2, 1, 0, 0, 0, 0)] = terms.get((2, 1, 0, 0, 0, 0), 0.0) + eps          # Henon-Heiles cubic
            terms[(0, 3, 0, 0, 0, 0)] = terms.get((0, 3, 0, 0, 0, 0), 0.0) - eps / 3.0
            terms[(2, 0, 0, 0, 2, 0)] = terms.get((2, 0, 0, 0, 2, 0), 0.0) + 0.5 * eps    # q1^2 p2^2 coupling
        return {"pcls": pcls, "w": w, "B": B, "terms": terms, "ham": er.PolyHam(terms), "system": self.lib.ham_system(terms)}


def gen_ham(rng, drv, lib, kappa, it):
    kind, order = drv_parts(drv)
    ek = "hamA" if rng.random() < 0.6 else "hamB"
    pool = lib.pool.frozen if ek == "hamA" else lib.pool.full
    P = pool[int(rng.integers(len(pool)))]
    pcls, w, B, terms, ham = P["pcls"], P["w"], P["B"], P["terms"], P["ham"]
    x0 = rng.normal(0, 0.45, 6)
    t0 = 0.0 if rng.random() < 0.5 else float(rng.uniform(-3, 3))
    T = t0 + float(np.exp(rng.uniform(np.log(0.4), np.log(10.0))))
    th = c = None
    if ek == "hamA":
        th = 0.0 if rng.random() < 0.45 else float(rng.uniform(0, 2 * np.pi))
        x0[5] = th
        x0[2] = 0.0
    if pcls == "nonint":
        x0[[0, 1, 3, 4]] *= 0.6

    def mkflow(x0_):
        if pcls == "nonint":
            return er.NumFlow(ham.field, x0_, t0, T)
        return er.OscFlow(x0_, w, t0=t0, B=B)
    if pcls == "harm":
        wmax = float(max(np.max(np.abs(w)), 0.4))
    elif pcls == "action":
        wmax = float(max(np.max(np.abs(er.OscFlow(x0, w, t0=t0, B=B).W)), 0.4))
    else:
        wmax = 1.5 * float(max(np.max(np.abs(w)), 0.4))
    spec, tv, hstep = gen_grid(rng, kind, order, t0, T, wmax, kappa)
    if ek == "hamA":
        tt = np.linspace(t0, T, 400)
        X = mkflow(x0)(tt)
        g_nc, _ = py_hamA(th, 0.0)
        G0 = g_nc(tt, X)
        if th == 0.0:
            mode = ["cross", "late", "none", "surface", "near"][int(rng.integers(5))]
            g0_exact = float(x0[0])
        else:
            mode = ["cross", "cross", "late", "none"][int(rng.integers(4))]
            g0_exact = float(G0[0])
        c = pick_level(rng, G0, g0_exact, mode)
        steep_h = 1.0
        if mode in ("cross", "late", "none") and rng.random() < 0.45:
            m_ = 1 if rng.random() < 0.5 else 2
            steep_h = 1e3 if m_ == 1 else 1e-3
            th = th + 20.0 * m_
            x0[5] = th
            c = c * steep_h
        x0[2] = c
        gpy, gnorm = py_hamA(th, c)
        g_start = float(x0[0] - c) if (th == 0.0) else float(gpy(np.array([t0]), x0[None, :])[0])
        event = lib.J["g_hamA"]
    else:
        mode = "free"
        gpy, gnorm = py_hamB()
        g_start = float(gpy(np.array([t0]), x0[None, :])[0])
        event = lib.J["g_hamB"]
    flow = mkflow(x0)
    return dict(drv=drv, fam="ham", system=P["system"], y0=x0.copy(), t0=t0, T=T, tv=tv, hstep=hstep, spec=spec,
                event=event, gpy=gpy, gnorm=gnorm, flow=flow, wmax=wmax, g_start=g_start,
                exact_start=(mode == "surface"), mode=mode, ekind=ek, pcls=pcls, ham=ham,
                meta={"terms": {str(k): v for k, v in terms.items()}, "x0": x0.copy(), "theta": th, "c": c})


def gen_exact(rng, drv, lib, it):
    """y' = +-1 (or g = +-(t - c)) with dyadic steps: g is exactly 0.0 at the end of step k."""
    kind, order = drv_parts(drv)
    ham = drv in DRIVERS_HAM
    h = float(2.0 ** -int(rng.integers(3, 7)))
    n = int(rng.integers(6, 40))
    k = int(rng.integers(1, n + 1)) if rng.random() < 0.85 else n          # sometimes the zero is the end of the span
    t0 = float(rng.choice([0.0, 0.5, -1.0, 2.0]))
    q0 = float(rng.choice([0.0, 0.25, -0.5]))
    tbased = rng.random() < 0.5
    sgn = 1.0 if rng.random() < 0.6 else -1.0
    T = t0 + n * h
    if kind in ("fixed", "symplectic"):
        tv = t0 + h * np.arange(n + 1)
        spec = {"kind": kind, "order": order if order else int(rng.choice([4, 6]))}
    else:
        tv = np.array([t0, T])
        spec = {"kind": "adaptive", "order": order, "rtol": 1e-10, "atol": 1e-12, "max_step": h, "min_step": h}
    x0 = np.zeros(6)
    x0[0] = q0
    if ham:
        if tbased:
            sgn = 1.0                                   # g = t - c only
            th, c = THETA_TIME, t0 + k * h
        else:
            th, c = 0.0, q0 + sgn * k * h
        x0[2], x0[5] = c, th
        P = lib.pool.drift[sgn if not tbased else 1.0]
        terms, system = P["terms"], P["system"]
        y0 = x0.copy()
        gpy, gnorm = py_hamA(th, c)
        event = lib.J["g_hamA"]
        vel = sgn if not tbased else 1.0
        meta = {"terms": {str(kk): v for kk, v in terms.items()}, "x0": x0.copy(), "theta": th, "c": c}
    else:
        a = np.zeros(6)
        if tbased:
            at, c = sgn, sgn * (t0 + k * h)
            vel = 1.0
        else:
            a[0], at, c = 1.0, 0.0, q0 + sgn * k * h
            vel = sgn
        y0 = np.zeros(DIM_G)
        y0[0] = q0
        y0[ID] = vel
        y0[IA:IA + 6] = a
        y0[IAT], y0[IC] = at, c
        system = lib.sysg
        gpy, gnorm = py_aff(a, at, c)
        event = lib.J["g_aff"]
        meta = {"x0": x0.copy(), "vel": vel, "a": a, "a_t": at, "c": c}
    Dz = np.zeros(3, dtype=complex)
    Dz[0] = vel
    flow = er.OscFlow(x0, np.zeros(3), t0=t0, D=Dz)
    return dict(drv=drv, fam="ham" if ham else "gen", system=system, y0=y0, t0=t0, T=T, tv=tv, hstep=h, spec=spec,
                event=event, gpy=gpy, gnorm=gnorm, flow=flow, wmax=0.0, g_start=None, exact_start=False,
                mode="exact-zero", ekind="t-based" if tbased else "y-based", pcls="unit-drift",
                exact={"t_zero": t0 + k * h, "slope": sgn, "at_end": k == n}, meta=meta)


# ----------------------------------------------------------------------------- the judge
def run_lib(lib, c, with_event, direction=None, xtol=None, gtol=None, cfg_default=False):
    integ = lib.integrator(c["spec"])
    if not with_event:
        tv = c["tv"] if c["spec"]["kind"] != "adaptive" else np.linspace(c["t0"], c["T"], 257)
        return integ.integrate(c["system"], c["y0"].copy(), tv)
    if cfg_default:
        return integ.integrate(c["system"], c["y0"].copy(), c["tv"].copy(), event_fn=c["event"])
    return integ.integrate(c["system"], c["y0"].copy(), c["tv"].copy(), event_fn=c["event"],
                           event_cfg=lib.EventConfig(direction=direction, terminal=True),
                           event_options=lib.EventOptions(xtol=xtol, gtol=gtol))


def judge(ctx, lib, c, it):
    rng = ctx.rng
    drv, t0, T = c["drv"], c["t0"], c["T"]
    direction = int(rng.integers(-1, 2))
    xtol = float(10.0 ** -int(rng.choice([14, 12, 12, 10, 8, 6])))
    gtol = float(10.0 ** -int(rng.choice([14, 12, 12, 10, 8, 6])))
    cfg_default = direction == 0 and rng.random() < 0.15
    if cfg_default:
        xtol = gtol = 1e-12
    flow, gpy = c["flow"], c["gpy"]
    kind = c["spec"]["kind"]

    # ---- E_int: the same integrator on the same problem without event
    sol0 = run_lib(lib, c, False)
    ts0 = np.asarray(sol0.times, dtype=float)
    ref0 = flow(ts0)
    E_meas = float(np.max(np.linalg.norm(np.asarray(sol0.states)[:, :6] - ref0, axis=1)))
    moving = np.ptp(ref0, axis=0) > 0                      # frozen components only carry event parameters
    scale = 1.0 + (float(np.max(np.linalg.norm(ref0[:, moving], axis=1))) if moving.any() else 0.0)
    if not np.isfinite(E_meas) or E_meas > 1e-2 * scale:
        ctx.skip("integrator too inaccurate on this problem for a decisive comparison (E_int > 1e-2)")
        return
    E = E_meas + 1e-13 * scale
    h = c["hstep"]
    if kind == "adaptive":
        A = 5.0 * (c["spec"]["rtol"] * scale + c["spec"]["atol"])
    else:
        A = (h ** 4 / 384.0) * 2.0 * (c["wmax"] ** 4) * scale          # cubic Hermite interpolation of one step
    ctx.stat(f"E_int[{drv}]", E_meas)

    # ---- oracle: zeros of G on the exact flow
    def G(t):
        t = np.atleast_1d(np.asarray(t, dtype=float))
        return gpy(t, flow(t))
    dt_s = min(h / 6.0, 0.02 / max(c["wmax"], 0.1), (T - t0) / 300.0)
    exact = c.get("exact")
    sc = er.Scan(G, t0, T, dt_s, g_start=c["g_start"])
    Xg = flow(sc.t)
    gn_max = float(np.max(c["gnorm"](sc.t, Xg)))
    g_amp = float(np.max(np.abs(sc.g))) + 1e-300
    err_g = gn_max * (E + A) + gtol
    gdot = sc.gdot_max
    gdd = float(np.max(np.abs(np.diff(sc.g, 2))) / sc.dt ** 2) if sc.g.size > 2 else 0.0

    if exact is None:
        # generator rejections (counted): not part of the property / not decidable from outside
        if c["g_start"] is not None and not c["exact_start"] and abs(c["g_start"]) < 1e-14 * (1 + g_amp) and c["mode"] != "near":
            ctx.skip("rejected: g(t0) indistinguishable from 0 for a non-exact start")
            return
        if c["exact_start"] or c["mode"] == "near":
            # also for a start within 1e-13 of the surface: with a small slope at t0, g can cross and come back inside the first
            # scan cell (thorough sweep, seed 3: Kepler, g = vy - c, extremum 5e-6 above the level 3e-3 after the start) — two zeros
            # closer than any sampling resolves, which the statement excludes
            s0 = sc.slope(t0 + 1e-6)
            if abs(s0) < 0.05 * gdot or np.sign(sc.g[1]) != np.sign(s0):
                ctx.skip("rejected: tangential start on / next to the surface")
                return
        if sc.ext_min < max(50 * err_g, 2 * gdd * sc.dt ** 2, 1e-5 * g_amp):
            ctx.skip("rejected: nearly tangential extremum of g")
            return
        rt = [sc.root_time(k) for k, _ in sc.roots]
        marks = ([t0] if (c["exact_start"] or c["mode"] == "near") else []) + rt
        if len(marks) > 1 and np.min(np.diff(marks)) < 4.0 * h:
            # a 'near' start moving towards the surface has its zero within ~1e-9 of t0: that pair is one zero
            d = np.diff(marks)
            if not (c["mode"] == "near" and len(rt) and rt[0] - t0 < 1e-6 and (len(d) < 2 or np.min(d[1:]) >= 4.0 * h)):
                ctx.skip("rejected: consecutive zeros closer than 4 steps")
                return
        for k, s in sc.roots:
            if abs(sc.g[k + 1] - sc.g[k]) / sc.dt < 0.05 * gdot:
                ctx.skip("rejected: nearly tangential zero")
                return
        if abs(sc.g_end) < 50 * err_g + 20 * gdot * xtol + 1e-12 * g_amp:
            ctx.skip("rejected: zero within the error bound of the span end")
            return
        adm = [(k, s) for k, s in sc.roots if direction == 0 or s == direction]
        if kind != "adaptive" and direction != 0:
            # a filtered-direction zero sitting on a step node may be seen as g == 0.0 exactly: outcome not fixed
            nodes = np.asarray(c["tv"], dtype=float)
            for k, s in sc.roots:
                if s == direction or (adm and k > adm[0][0]):
                    continue
                sl_k = abs(sc.g[k + 1] - sc.g[k]) / sc.dt
                tr = sc.root_time(k)
                j = int(np.clip(np.searchsorted(nodes, tr), 1, len(nodes) - 1))
                near = [nodes[i] for i in (j - 1, j) if i >= 1]          # node 0 is the start: g(t0) is known exactly
                dist = min(abs(tr - tn) for tn in near)
                if dist <= 10 * gdd * sc.dt ** 2 / sl_k + 1e-6 * h + 1e-9:
                    tr = sc.refine(k)
                    dist = min(abs(tr - tn) for tn in near)
                    if dist <= 1e-6 * h + 1e-9:      # g == 0.0 exactly needs a coincidence to rounding level
                        ctx.skip("rejected: filtered-direction zero on a step node (outcome not fixed by the statement)")
                        return
        n_filtered = 0
        if adm:
            n_filtered = sum(1 for k, s in sc.roots if k < adm[0][0])
            t_star = sc.refine(adm[0][0])
            slope = sc.slope(t_star)
        else:
            n_filtered = len(sc.roots)
            t_star, slope = None, None
        expect = ("hit" if not n_filtered else "hit-after-filtered") if adm else ("nohit-nocross" if not sc.roots else "nohit-filtered")
        if c["mode"] in ("surface", "near"):
            expect = c["mode"] + "-start:" + expect
        optional_zero = None
    else:
        t_star, slope = exact["t_zero"], exact["slope"]
        compatible = direction == 0 or direction == int(np.sign(slope))
        optional_zero = None if compatible else t_star      # filtered-direction exact zero: outcome not fixed
        adm = [1] if compatible else []
        expect = "exact-zero:" + ("compatible" if compatible else "filtered(optional)") + (":span-end" if exact["at_end"] else "")
        n_filtered = 0

    # ---- the real code
    sol = run_lib(lib, c, True, direction, xtol, gtol, cfg_default)
    t_end = float(sol.times[-1])
    y_end = np.asarray(sol.states[-1], dtype=float)
    lib_hit = t_end < T
    key = [drv, ctx.seed, it, c["mode"], c["ekind"], direction]
    ctx.case(f"{drv}|{expect}", key, nontrivial=(expect != "nohit-nocross"))

    def wit():
        return {"driver": drv, "integrator": c["spec"], "problem": c["pcls"], "event": c["ekind"], "mode": c["mode"],
                "direction": direction, "xtol": xtol, "gtol": gtol, "default_cfg": cfg_default, "t0": t0, "T": T,
                "n_nodes": int(len(c["tv"])), "hstep": h, "params": c["meta"], "E_int": E_meas, "interp_allow": A,
                "zeros(grid)": [[sc.root_time(k), s] for k, s in sc.roots][:12], "expected": expect, "t_star": t_star,
                "lib_t_end": t_end, "lib_y_end": y_end[:6], "lib_hit": lib_hit}
    if ctx.cases[f"{drv}|{expect}"] <= 1 and len(ctx.samples) < 12:
        ctx.sample({k: v for k, v in wit().items() if k not in ("params",)})

    x_tol = 10 * E + 10 * A + 1e-13 * scale

    def near_miss(name, ratio, extra):
        if 0.2 < ratio <= 1.0:
            ctx.count("near-miss (> 0.2 of a tolerance)")
            if f"near_miss[{name}:{drv}]" not in ctx.notes:
                ctx.note(f"near_miss[{name}:{drv}]", {**wit(), **extra, "ratio": ratio})

    def check_on_traj(tag):
        ex = float(np.linalg.norm(y_end[:6] - flow(np.array([t_end]))[0]))
        ctx.stat(f"state_err/tol[{drv}]", ex / x_tol)
        near_miss("state", ex / x_tol, {"state_err": ex, "tol": x_tol})
        ctx.check(ex <= x_tol, f"{tag}: reported state on the exact trajectory at the reported time",
                  lambda: {**wit(), "state_err": ex, "tol": x_tol})

    if exact is not None and (exact["at_end"] or optional_zero is not None):
        # zero exactly at the end of the span (hit at T and 'no hit, final time T' coincide) or filtered exact zero
        if lib_hit:
            ok_t = abs(t_end - t_star) <= 10 * xtol + 10 * gtol + 1e-13
            ctx.check(ok_t, "exact zero: a reported hit sits at the zero", lambda: {**wit()})
            ctx.count("exact zero in filtered direction reported as hit (not asserted)" if optional_zero is not None
                      else "exact zero at span end reported as hit")
        else:
            ctx.check(t_end == T, "no hit: final time equals the end of the span", wit)
        check_on_traj("exact zero")
        return

    ctx.check(lib_hit == bool(adm), "hit iff an admissible crossing exists in the span",
              lambda: {**wit(), "n_filtered_before": n_filtered})
    if c["mode"] in ("surface", "near") and exact is None:
        far = t_star is None or (t_star - t0) > 4 * h         # the first admissible zero is not at the start
        immediate = lib_hit and (t_end - t0) <= 2 * h
        ctx.check(not (far and immediate), "start on/near the surface moving away: no immediate hit", wit)
    if exact is not None:
        ctx.check(lib_hit, "exact zero at a step end counts as a hit (direction 0 or compatible)", wit)
    if lib_hit != bool(adm):
        return
    if not lib_hit:
        ctx.check(t_end == T, "no hit: final time equals the end of the span", wit)
        ex = float(np.linalg.norm(y_end[:6] - flow(np.array([T]))[0]))
        ctx.stat(f"final_err/tol[{drv}]", ex / (10 * E))
        ctx.check(ex <= 10 * E, "no hit: final state equals the flow at the end of the span (within 10 E_int)",
                  lambda: {**wit(), "state_err": ex, "tol": 10 * E})
        if n_filtered:
            ctx.count(f"filtered crossings ignored[{drv}]", n_filtered)
        return
    # hit
    aslope = abs(slope)
    t_tol = 10 * err_g / aslope + 10 * xtol + 1e-14 * (1 + abs(t_star))
    dt_err = abs(t_end - t_star)
    ctx.stat(f"t_err/tol[{drv}]", dt_err / t_tol)
    near_miss("time", dt_err / t_tol, {"t_err": dt_err, "tol": t_tol})
    ctx.check(dt_err <= t_tol, "t_hit equals the first admissible crossing time",
              lambda: {**wit(), "t_err": dt_err, "tol": t_tol, "slope": slope, "n_filtered_before": n_filtered})
    check_on_traj("hit")
    g_hit = float(gpy(np.array([t_end]), y_end[None, :6])[0])
    g_tol = 10 * (gtol + gdot * xtol) + 1e-13 * (1 + g_amp)
    ctx.stat(f"g_hit/tol[{drv}]", abs(g_hit) / g_tol)
    ctx.check(abs(g_hit) <= g_tol, "event function at the hit is zero within the location tolerances",
              lambda: {**wit(), "g_hit": g_hit, "tol": g_tol})
    if n_filtered:
        ctx.count(f"filtered crossings ignored[{drv}]", n_filtered)
    if exact is not None:
        ctx.count(f"exact zero located[{drv}]")


def integrator_cases(ctx, lib, kappa, n_per_driver, n_exact):
    rng = ctx.rng
    work = []
    for d in DRIVERS_GEN:
        work += [("gen", d)] * n_per_driver + [("exact", d)] * n_exact
    for d in DRIVERS_HAM:
        work += [("ham", d)] * n_per_driver + [("exact", d)] * n_exact
    # self-check of the oracle flows (a wrong closed form would silently inflate E_int)
    for it, (fam, drv) in enumerate(work):
        if not ctx.mine(it):
            continue
        try:
            if fam == "gen":
                c = gen_generic(rng, drv, lib, kappa, it)
            elif fam == "ham":
                c = gen_ham(rng, drv, lib, kappa, it)
            else:
                c = gen_exact(rng, drv, lib, it)
        except ValueError as e:
            ctx.skip(f"generator: {e}")
            continue
        if it % 23 == 0 and isinstance(c["flow"], (er.OscFlow, er.KeplerFlow)):
            tm = 0.5 * (c["t0"] + c["T"])
            fld = c["ham"].field if (fam == "ham" and "ham" in c) else c["flow"].field
            r = er.selfcheck_flow(c["flow"], fld, tm)
            ctx.stat("oracle selfcheck |phi' - f(phi)|", r)
            if r > 1e-6:
                raise Inconclusive(f"oracle closed form inconsistent with its ODE ({r:.2e})")
        judge(ctx, lib, c, it)


# ----------------------------------------------------------------------------- plane-crossing wrapper on CR3BP
def wrapper_cases(ctx, n):
    from hiten import System
    from hiten.algorithms.dynamics.base import _propagate_dynsys
    from hiten.algorithms.poincare.core.events import _PlaneEvent
    from hiten.algorithms.poincare.singlehit.backend import _SingleHitBackend
    from ..oracles import cr3bp as ref
    rng = ctx.rng
    mu = 0.012150585609624
    dyn = System.from_mu(mu).dynsys
    field = lambda y: ref.field(y, mu)
    planes = [("y", 1, 0.0), ("x", 0, 0.2)]
    xtol = gtol = 1e-12
    for it in range(n):
        if not ctx.mine(it):
            continue
        r = float(rng.uniform(0.3, 0.6))
        on_plane = rng.random() < 0.15
        th = 0.0 if on_plane else float(rng.uniform(0, 2 * np.pi))
        v = (np.sqrt((1 - mu) / r) - r) * float(rng.uniform(0.92, 1.08))
        y0 = np.array([-mu + r * np.cos(th), r * np.sin(th), float(rng.normal() * 0.03),
                       -v * np.sin(th), v * np.cos(th), float(rng.normal() * 0.03)])
        coord, idx, off = planes[0] if (on_plane or rng.random() < 0.65) else planes[1]
        forward = -1 if rng.random() < 0.15 else 1
        direction = None if forward == -1 else [None, 1, -1][int(rng.integers(3))]
        t0w = 0.0 if (on_plane or rng.random() < 0.2) else float(rng.uniform(0.05, 1.2))
        tmax = t0w + float(rng.uniform(0.3, 2.6))
        t_start = t0w if t0w > 0 else 1e-12
        te, sl, dense = er.cr3bp_plane_roots(field, y0, tmax, idx, off, sign=forward)
        keep = te > 1e-9
        te, sl = te[keep], sl[keep]
        if np.any(np.abs(te - t_start) < 1e-5) or np.any(np.abs(te - tmax) < 1e-5) or np.any(np.abs(sl) < 1e-2) or \
                (te.size > 1 and np.min(np.diff(te)) < 0.2):
            ctx.skip("rejected (wrapper): crossing at a window edge / tangential / too close")
            continue
        inwin = [(t, s) for t, s in zip(te, sl) if t_start < t < tmax and (direction is None or np.sign(s) == direction)]
        # E_int of the same scheme without event
        sol0 = _propagate_dynsys(dyn, y0, 0.0, tmax, forward=forward, steps=65, method="adaptive", order=8)
        E = float(np.max(np.linalg.norm(np.asarray(sol0.states) - dense(np.abs(np.asarray(sol0.times))).T, axis=1))) + 1e-12
        ctx.stat("E_int[wrapper]", E)
        hit = _SingleHitBackend()._cross_event_driven(y0.copy(), dynsys=dyn, surface=_PlaneEvent(coord=coord, value=off, direction=direction),
                                                      t0=t0w, tmax=tmax, forward=forward)
        expect = ("hit" if inwin else "nohit") + ("" if forward == 1 else ":backward") + (":start-on-plane" if on_plane else "")
        ctx.case(f"wrapper|{expect}", [ctx.seed, it, coord, direction, forward], nontrivial=te.size > 0)

        def wit():
            return {"driver": "_cross_event_driven", "mu": mu, "state0": y0, "plane": [coord, off], "direction": direction,
                    "forward": forward, "t0": t0w, "tmax": tmax, "ref_crossings": te, "ref_slopes": sl, "E_int": E,
                    "expected_first": inwin[0] if inwin else None,
                    "lib": None if hit is None else {"time": hit.time, "state": hit.state}}
        mech = None
        if forward == -1:
            mech = classify_forward(ref, mu, y0, idx, off, t_start, tmax, hit, inwin)
        tag = "wrapper" if forward == 1 else "wrapper[forward=-1]"
        ok = ctx.check((hit is not None) == bool(inwin), f"{tag}: hit iff an admissible crossing exists in the window", wit, mech)
        if not ok or hit is None:
            continue
        s_hit = abs(float(hit.time))
        t_star, slope = inwin[0]
        # dense-output allowance of the 1e-12 DOP853 legs + accuracy floor of the SciPy 1e-13 reference
        A = 5.0 * (1e-12 * (1.0 + float(np.linalg.norm(hit.state))) + 1e-12)
        x_tol = 10 * E + 10 * A + 1e-10
        t_tol = (10 * (E + A + gtol) + 1e-10) / abs(slope) + 10 * xtol
        ctx.stat(f"t_err/tol[{tag}]", abs(s_hit - t_star) / t_tol)
        ok = ctx.check(abs(s_hit - t_star) <= t_tol, f"{tag}: hit time equals the first admissible crossing time",
                       lambda: {**wit(), "t_err": abs(s_hit - t_star), "tol": t_tol}, mech)
        ex = float(np.linalg.norm(np.asarray(hit.state) - dense(min(s_hit, tmax))))
        ctx.stat(f"state_err/tol[{tag}]", ex / x_tol)
        ctx.check(ex <= x_tol, f"{tag}: reported state on the reference trajectory at the reported time",
                  lambda: {**wit(), "state_err": ex, "tol": x_tol}, mech)
        gh = float(hit.state[idx] - off)
        ctx.check(abs(gh) <= 10 * (gtol + abs(slope) * xtol) + 1e-14, f"{tag}: plane function at the hit is zero within tolerances",
                  lambda: {**wit(), "g_hit": gh})
        ctx.check(np.array_equal(np.asarray(hit.point2d), np.asarray(hit.state[:2])), "wrapper: point2d is the leading projection", wit)


def classify_forward(ref, mu, y0, idx, off, t_start, tmax, hit, inwin):
    """Recognise 'alignment leg integrates backward, event leg integrates forward': the library's output must equal
    the prediction of that model (first zero of y[idx]-off along phi(s - t_start), s in (0, tmax - t_start))."""
    try:
        span = tmax - t_start
        field = lambda y: ref.field(y, mu)
        cands = []
        if t_start > 1e-9:
            tb, _, _ = er.cr3bp_plane_roots(field, y0, t_start, idx, off, sign=-1)     # backward times tau in (0, t_start)
            cands += [t_start - t for t in tb if 1e-9 < t < t_start - 1e-9]
        if span - t_start > 1e-9:
            tf, _, _ = er.cr3bp_plane_roots(field, y0, span - t_start, idx, off, sign=+1)
            cands += [t_start + t for t in tf if t > 1e-9]
        cands = sorted(s for s in cands if 0 < s < span)
        if hit is None:
            return MECH_FWD if (not cands and inwin) else None
        if not cands:
            return None
        s_model = cands[0]
        if abs((float(hit.time) - t_start) - s_model) > 1e-7:
            return None
        tsig = s_model - t_start
        x_model = y0 if abs(tsig) < 1e-11 else ref.flow(y0, mu, [tsig])[-1]
        return MECH_FWD if np.linalg.norm(np.asarray(hit.state) - x_model) < 1e-7 else None
    except Exception:
        return None


# ----------------------------------------------------------------------------- entry point
def run(ctx):
    ctx.note("rule", "case = one integrate(...) call with an event on a generated (system, initial state, span, grid/tolerance, "
                     "event function, direction, xtol, gtol); class = driver|expected outcome from the exact flow; non-trivial = "
                     "the exact G(t) has >= 1 zero in the span, or the start is on/near the surface, or an exact zero sits at a "
                     "step end; distinct by seed+generator index+driver+event kind+direction. Rejected by the generator "
                     "(see skipped): zeros closer than 4 steps, nearly tangential zeros/extrema, zero within the error bound "
                     "of the span end")
    ctx.note("assumptions", [
        "CPython, numpy, scipy and the closed-form / SciPy-1e-13 reference flows in hmon/oracles/eventref.py are trusted",
        "E_int is the same integrator's error on the same problem without event (max over its output nodes)",
        "adaptive runs without explicit max_step: step length for the 4-step rule estimated from SciPy's twin method x1.5",
        "verdict covers only the executions observed in this run"])
    tw = {"start": time.time()}
    lib = Lib()
    lib.pool = HamPool(lib, ctx.rng, ctx.pick(4, 12), ctx.pick(3, 9))
    kappa = calibrate_kappa()
    tw["setup"] = time.time()
    ctx.note("kappa_scipy_max_step", {f"{k[0]}@{k[1]:g}": v for k, v in kappa.items()})
    guarded(ctx, "integrators", integrator_cases, ctx, lib, kappa, ctx.pick(150, 4000), ctx.pick(24, 500))
    tw["integrators"] = time.time()
    guarded(ctx, "wrapper", wrapper_cases, ctx, ctx.pick(70, 1500))
    tw["wrapper"] = time.time()
    ctx.note("wall_s_sections", {"setup": tw["setup"] - tw["start"], "integrators": tw["integrators"] - tw["setup"],
                                 "wrapper": tw["wrapper"] - tw["integrators"]})
    one = ctx.nshards == 1
    ctx.require("hit iff an admissible crossing exists in the span", 400 if one else 40)
    ctx.require("t_hit equals the first admissible crossing time", 200 if one else 20)
    ctx.require("no hit: final state equals the flow at the end of the span (within 10 E_int)", 60 if one else 6)
    ctx.require("exact zero at a step end counts as a hit (direction 0 or compatible)", 40 if one else 4)
    ctx.require("wrapper: hit iff an admissible crossing exists in the window", 15 if one else 2)
    if one:
        for d in DRIVERS_GEN + DRIVERS_HAM:
            got = sum(v for k, v in ctx.cases.items() if k.startswith(d + "|") and ("hit" in k.split("|")[1][:3] or "-start:hit" in k))
            if got < 8:
                ctx.mark_inconclusive(f"driver {d}: only {got} cases with an expected hit")
