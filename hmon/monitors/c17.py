"""C17 — Hamiltonian fast paths agree with the generic integration path.

Events: hamsys.rhs(t,y), hamsys.dH_dQ/dH_dP; for every program variant (fixed 4/6/8, RK45, DOP853) x (no event, event with each
direction) the pair integrate(hamsys, ...) vs integrate(create_rhs_system(f_gen), ...), where f_gen is source generated
independently from the same coefficient dictionary; the centre-manifold copy _integrate_rk_ham vs the fixed-step integrator.
Oracle: twin comparison (translation-validation style) + independent gradient of the dictionary.
"""
from __future__ import annotations

import numpy as np

from ..core import guarded
from .. import polyutil as pu

MECH_RHS = "hamiltonian-system-generic-rhs-not-compilable"


def random_H(rng, degree, n_terms):
    H = {}
    for i in range(3):
        k = [0] * 6
        k[i] = 2
        H[tuple(k)] = 0.5 * rng.uniform(0.5, 2.5)
        k = [0] * 6
        k[3 + i] = 2
        H[tuple(k)] = 0.5 * rng.uniform(0.5, 1.5)
    H[(0, 1, 0, 1, 0, 0)] = rng.uniform(-0.6, 0.6)
    H[(1, 0, 0, 0, 1, 0)] = rng.uniform(-0.6, 0.6)
    for _ in range(n_terms):
        d = int(rng.integers(3, degree + 1))
        k = [0] * 6
        for v in rng.integers(0, 6, size=d):
            k[int(v)] += 1
        H[tuple(k)] = H.get(tuple(k), 0.0) + rng.uniform(-0.4, 0.4)
    return H


def duffing_H(rng, coupled=True):
    """Confining, strongly nonlinear Hamiltonian (Duffing oscillators): at amplitude 1-3 and tolerances 1e-4..1e-8 the adaptive
    controllers reject steps, which exercises the bookkeeping of accepted/rejected stages in both twins.  The uncoupled variant is
    integrable (no chaotic amplification of rounding-level differences between the twins), so it can be driven at amplitude 3 over
    T up to 24 with loose tolerances — the regime in which the fifth-order controller is observed to reject."""
    H = {}
    for i in range(3):
        k = [0] * 6
        k[3 + i] = 2
        H[tuple(k)] = 0.5
        k = [0] * 6
        k[i] = 2
        H[tuple(k)] = 0.5 * rng.uniform(0.5, 2.0)
        k = [0] * 6
        k[i] = 4
        H[tuple(k)] = 0.25 * rng.uniform(0.5, 2.0)
    if coupled:
        H[(2, 2, 0, 0, 0, 0)] = rng.uniform(0.1, 0.6)
        H[(0, 2, 2, 0, 0, 0)] = rng.uniform(0.1, 0.6)
    return H


def rhs_checks(ctx, hs, H, rng, n_pts, label):
    for _ in range(n_pts):
        y = rng.uniform(-0.8, 0.8, 6)
        want = pu.ham_field(H, y)
        scale = 1.0 + sum(abs(c) * np.prod(np.abs(y) ** np.array(k)) * sum(k) for k, c in H.items())
        try:
            got = np.asarray(hs.rhs(0.3, y))
        except Exception as exc:
            msg = type(exc).__name__ + repr(exc)
            mech = MECH_RHS if ("NumbaNotImplemented" in msg or "ListType" in msg) else None
            ctx.check(False, "R:hamsys.rhs(t,y) can be evaluated", {"H": label, "error": msg[:300]}, mech)
            return False
        e = np.abs(got - want).max()
        ctx.stat("rhs_err/scale", e / scale)
        ctx.check(e <= 1e-13 * scale, "R:rhs == (dH/dP, -dH/dQ) of the polynomial", lambda: {"H": label, "y": y, "lib": got, "ref": want})
        dq = np.asarray(hs.dH_dQ(y[:3], y[3:]))
        dp = np.asarray(hs.dH_dP(y[:3], y[3:]))
        ctx.check(np.abs(dp - got[:3]).max() <= 1e-14 * scale and np.abs(-dq - got[3:]).max() <= 1e-14 * scale,
                  "R:dH_dQ / dH_dP evaluators agree with rhs", lambda: {"H": label, "y": y, "dH_dQ": dq, "dH_dP": dp, "rhs": got})
    return True


def make_events():
    import numba

    @numba.njit(cache=False)
    def g_q1(t, y):
        return y[0]

    @numba.njit(cache=False)
    def g_mix(t, y):
        return y[1] + 0.5 * y[4] - 0.02

    @numba.njit(cache=False)
    def g_time(t, y):
        return y[2] - 0.05 * np.cos(1.3 * t)
    return {"q1": g_q1, "affine": g_mix, "time_dependent": g_time}


def compare_solutions(ctx, tag, a, b, tol, wit, check_derivs=True):
    ta, tb = np.asarray(a.times), np.asarray(b.times)
    sa, sb = np.asarray(a.states), np.asarray(b.states)
    ok = ctx.check(ta.shape == tb.shape and sa.shape == sb.shape, f"T:same shape of results[{tag}]", lambda: {**wit(), "shapes": [ta.shape, tb.shape]})
    if not ok:
        return
    scale = 1.0 + np.abs(sb).max()
    et = np.abs(ta - tb).max()
    es = np.abs(sa - sb).max() / scale
    ctx.stat(f"twin_state_diff[{tag}]", es)
    ctx.check(et <= tol * (1 + np.abs(tb).max()) and es <= tol, f"T:trajectory of the Hamiltonian path == generic path[{tag}]",
              lambda: {**wit(), "time_diff": et, "state_diff": es, "tol": tol})
    if check_derivs and (a.derivatives is not None or b.derivatives is not None):
        okd = ctx.check(a.derivatives is not None and b.derivatives is not None, f"T:both paths return derivatives[{tag}]", wit)
        if okd:
            ed = np.abs(np.asarray(a.derivatives) - np.asarray(b.derivatives)).max() / (1.0 + np.abs(np.asarray(b.derivatives)).max())
            ctx.stat(f"twin_deriv_diff[{tag}]", ed)
            ctx.check(ed <= 10 * tol, f"T:derivatives of the Hamiltonian path == generic path[{tag}]", lambda: {**wit(), "deriv_diff": ed})


def twins(ctx, n_ham, reps):
    from hiten.algorithms.dynamics.rhs import create_rhs_system
    from hiten.algorithms.integrators.rk import AdaptiveRK, RungeKutta
    from hiten.algorithms.types.configs import EventConfig
    from hiten.algorithms.types.options import EventOptions
    rng = ctx.rng
    events = make_events()
    for ih in range(n_ham):
        if not ctx.mine(ih):
            continue
        # consecutive systems deliberately share name and degree (a memo keyed by anything less than the coefficients would alias them)
        degree = 4 if ih % 3 < 2 else int(rng.integers(3, ctx.pick(6, 9)))
        stiff = (ih % 3 == 1)
        uncoupled = stiff and (ih // 3) % 2 == 1
        H = duffing_H(rng, coupled=not uncoupled) if stiff else random_H(rng, degree, int(rng.integers(3, 10)))
        label = {str(k): round(float(v), 6) for k, v in H.items()}
        hs = pu.hamiltonian_system(H, degree)
        ctx.case("hamiltonian", [ih, ctx.seed, degree, len(H)], nontrivial=True)
        if ih < 2:
            ctx.sample({"degree": degree, "H": label})
        if not rhs_checks(ctx, hs, H, rng, 20, label):
            continue
        gen = create_rhs_system(pu.gen_rhs(H), 6, f"gen{ih}")
        # the generated generic field itself must be the same function (oracle self-check, not a library check)
        y = rng.uniform(-0.5, 0.5, 6)
        if np.abs(np.asarray(gen.rhs(0.0, y)) - pu.ham_field(H, y)).max() > 1e-12:
            raise RuntimeError("generated rhs disagrees with the dictionary gradient (harness bug)")
        variants = [("fixed", 4), ("fixed", 6), ("fixed", 8), ("adaptive_locked", 5), ("adaptive_locked", 8), ("adaptive_free", 5), ("adaptive_free", 8)]
        for (mode, order) in variants:
            for rep in range(reps):
                big = uncoupled and mode == "adaptive_free"
                y0 = rng.uniform(-0.25, 0.25, 6) * (12.0 if big else 6.0 if (stiff and mode != "fixed") else 1.0)
                T = float(rng.uniform(0.5, 3.0)) * (8.0 if big else 2.0 if (stiff and mode != "fixed") else 1.0)
                if mode == "fixed":
                    integ = RungeKutta(order=order)
                    ng = int(rng.choice([50, 200, 600]))
                    if rep % 2 == 0:
                        grid = np.linspace(0, T, ng)
                    else:                  # strictly increasing, non-uniform nodes (graded or jittered): every step has its own length
                        u = np.linspace(0, 1, ng)
                        if rng.random() < 0.5:
                            grid = T * u ** float(rng.uniform(1.2, 1.8))
                        else:
                            jit = rng.uniform(-0.3, 0.3, ng) / (ng - 1)
                            jit[0] = jit[-1] = 0.0
                            grid = T * np.sort(u + jit)
                        ctx.count("T:fixed-step twins on a non-uniform grid")
                    tol = 1e-12
                elif mode == "adaptive_locked":
                    # loose tolerance + small max_step: both twins take the identical step sequence, only kernel arithmetic differs
                    integ = AdaptiveRK(order=order, rtol=1e-3, atol=1e-3, max_step=0.02)
                    grid = np.sort(np.concatenate([[0.0, T], rng.uniform(0, T, int(rng.choice([0, 5, 80])))]))
                    tol = 1e-11
                else:
                    rt = float(10.0 ** (rng.uniform(-6, -4) if big else rng.uniform(-8, -5) if stiff else rng.uniform(-11, -6)))
                    integ = AdaptiveRK(order=order, rtol=rt, atol=rt)
                    grid = np.sort(np.concatenate([[0.0, T], rng.uniform(0, T, int(rng.choice([0, 5, 80]) if not stiff else 300))]))
                    tol = 200 * rt
                if len(np.unique(grid)) < len(grid):
                    continue
                tag = f"{mode}{order}"

                def wit():
                    return {"H": label, "degree": degree, "mode": mode, "order": order, "y0": y0, "T": T, "n_grid": len(grid)}
                ctx.case(f"twin:{tag}", [ih, ctx.seed, mode, order, rep], nontrivial=True)
                try:
                    a = integ.integrate(hs, y0.copy(), grid.copy())
                    b = integ.integrate(gen, y0.copy(), grid.copy())
                except Exception as exc:
                    ctx.check(False, f"T:both paths integrate[{tag}]", lambda: {**wit(), "error": (type(exc).__name__ + str(exc))[:300]})
                    continue
                compare_solutions(ctx, tag, a, b, tol, wit)
                # events
                for ename, g in events.items():
                    for direction in (-1, 0, 1):
                        if rep > 0 and direction != [-1, 0, 1][(rep + ih) % 3]:
                            continue
                        cfg = EventConfig(direction=direction, terminal=True)
                        # location tolerances: equal, or many decades apart in either order (both twins must apply them the same way)
                        # (only where the twins take identical steps: in free mode a 1e-10 difference between the twins legitimately ends
                        # the bisection one iteration apart, i.e. up to gtol/slope apart in time)
                        xt, gt = [(1e-12, 1e-12), (1e-12, 1e-5), (1e-5, 1e-13)][int(rng.integers(3)) if mode != "adaptive_free" else 0]
                        eo = EventOptions(xtol=xt, gtol=gt)
                        span = np.array([0.0, T]) if mode != "fixed" else grid
                        try:
                            ea = integ.integrate(hs, y0.copy(), span.copy(), event_fn=g, event_cfg=cfg, event_options=eo)
                            eb = integ.integrate(gen, y0.copy(), span.copy(), event_fn=g, event_cfg=cfg, event_options=eo)
                        except Exception as exc:
                            ctx.check(False, f"E:both paths integrate with an event[{tag}]",
                                      lambda: {**wit(), "event": ename, "direction": direction, "error": (type(exc).__name__ + str(exc))[:300]})
                            continue
                        ta, tb = float(np.asarray(ea.times)[-1]), float(np.asarray(eb.times)[-1])
                        ya, yb = np.asarray(ea.states)[-1], np.asarray(eb.states)[-1]
                        hit_a, hit_b = ta < T - 1e-12, tb < T - 1e-12
                        ctx.case(f"twin-event:{tag}:{ename}:{direction}", [ih, ctx.seed, mode, order, rep, ename, direction], nontrivial=hit_b)
                        etol = tol if mode != "adaptive_free" else max(tol, 1e-7)
                        near_end = abs(ta - T) < 1e-6 or abs(tb - T) < 1e-6
                        if hit_a != hit_b and near_end:
                            ctx.skip("event within 1e-6 of the end of the span: hit/no-hit decision ill-conditioned")
                            continue
                        okh = ctx.check(hit_a == hit_b, f"E:same hit / no-hit decision[{tag}]",
                                        lambda: {**wit(), "event": ename, "direction": direction, "t_ham": ta, "t_gen": tb})
                        if okh:
                            dt_ = abs(ta - tb)
                            dy_ = np.abs(ya - yb).max()
                            ctx.stat(f"twin_event_time_diff[{tag}]", dt_)
                            ctx.check(dt_ <= etol * (1 + T) and dy_ <= etol * (1 + np.abs(yb).max()), f"E:same event time and state[{tag}]",
                                      lambda: {**wit(), "event": ename, "direction": direction, "t_ham": ta, "t_gen": tb, "dy": dy_, "tol": etol,
                                               "xtol": xt, "gtol": gt})
        # centre-manifold copy of the fixed-step stepping vs the integrator class on the same input
        from hiten.algorithms.poincare.centermanifold.backend import _get_rk_coefficients, _integrate_rk_ham
        for order in (4, 6, 8):
            y0 = rng.uniform(-0.25, 0.25, 6)
            grid = np.linspace(0, float(rng.uniform(0.3, 2.0)), int(rng.choice([20, 100])))
            A, B, C = _get_rk_coefficients(order)
            tr = np.asarray(_integrate_rk_ham(y0.copy(), grid, A, B, C, hs.jac_H, hs.clmo_H))
            refsol = RungeKutta(order=order).integrate(gen, y0.copy(), grid)
            e = np.abs(tr - np.asarray(refsol.states)).max()
            ctx.case(f"cm-copy:order{order}", [ih, ctx.seed, order], nontrivial=True)
            ctx.stat(f"cm_copy_diff[order{order}]", e)
            ctx.check(e <= 1e-12, "C:centre-manifold stepping copy == fixed-step integrator on the generic field",
                      {"H": label, "order": order, "y0": y0, "n": len(grid), "diff": e})


def run(ctx):
    ctx.note("rule", "case = one polynomial Hamiltonian (degree<=5 quick / <=8 thorough, random terms incl. q.p coupling) or one twin execution "
                     "(program variant x initial state x grid/tolerance x event x direction); event cases non-trivial when the event is hit")
    guarded(ctx, "twins", twins, ctx, ctx.pick(5, 40), ctx.pick(2, 4))
    variants = sorted({c.split(":", 1)[1] for c in ctx.cases if c.startswith("twin:") or c.startswith("twin-event:") or c.startswith("cm-copy:")})
    ctx.note("coverage_extra", {"programs": len(variants),
                                "disagreements_checked": int(sum(n for c, n in ctx.evals.items() if c[:2] in ("T:", "E:", "C:"))),
                                "program_variants": variants[:80]})
    ctx.require("R:rhs == (dH/dP, -dH/dQ) of the polynomial", 20 if ctx.nshards == 1 else 5)
    for tag in ("fixed4", "fixed6", "fixed8", "adaptive_locked5", "adaptive_locked8"):
        ctx.require(f"T:trajectory of the Hamiltonian path == generic path[{tag}]", 2 if ctx.nshards == 1 else 1)
        ctx.require(f"E:same hit / no-hit decision[{tag}]", 2 if ctx.nshards == 1 else 1)
    ctx.require("C:centre-manifold stepping copy == fixed-step integrator on the generic field", 3 if ctx.nshards == 1 else 1)
