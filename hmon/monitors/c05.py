"""C05 — a successful differential correction yields a genuinely periodic orbit; the solver never returns unconverged.

Events: PeriodicOrbit.correct() -> result, orbit.initial_state / .period; _NewtonBackend.run(request=CorrectorInput(...))
with the backend's own on_iteration hook recording every iterate.
Oracle: independent reference flow (sympy field + SciPy DOP853 + SciPy events); re-evaluation of the residual by the monitor.
"""
from __future__ import annotations

import numpy as np
from scipy.integrate import solve_ivp

from ..core import guarded
from ..oracles import cr3bp as ref


# ------------------------------------------------------------------------------------------- solver monitor
class _Raise(Exception):
    pass

MECH_VERT = "vertical-amplitude-seed-half-arc-not-a-period"


def make_residual(rng, n, m, kind):
    """Random smooth maps R^n -> R^m with controllable pathologies (deterministic functions of x)."""
    A = rng.normal(size=(m, n))
    Q = rng.normal(size=(m, n, n)) * rng.uniform(0, 0.6)
    C = rng.normal(size=(m, n)) * rng.uniform(0, 0.3)
    xstar = rng.normal(size=n)
    b = np.zeros(m)
    has_root = kind not in ("no_root",)

    def core(x):
        d = x - xstar
        return A @ d + np.einsum("ijk,j,k->i", Q, d, d) + C @ (d ** 3) + b
    if kind == "no_root":
        # make |R| >= 0.3 everywhere: append-like shift on a squared component
        def core(x, _c=core):  # noqa: F811
            r = _c(x)
            r = r.copy()
            r[0] = r[0] ** 2 + 0.3
            return r
    if kind == "singular_start":
        A[:, 0] = 0.0
    hole_c = xstar + rng.normal(size=n) * 0.7
    hole_r = rng.uniform(0.1, 0.4)

    def R(x):
        x = np.asarray(x, dtype=float)
        if kind == "raises_in_region" and np.linalg.norm(x - hole_c) < hole_r:
            raise _Raise("residual undefined here")
        r = core(x)
        if kind == "nan_in_region" and np.linalg.norm(x - hole_c) < hole_r:
            r = r * np.nan
        return r

    def Jf(x):
        d = np.asarray(x, dtype=float) - xstar
        J = A + np.einsum("ijk,k->ij", Q, d) + np.einsum("ijk,j->ik", Q, d) + 3 * C * (d ** 2)[None, :]
        if kind == "no_root":
            r0 = (A @ d + np.einsum("ijk,j,k->i", Q, d, d) + C @ (d ** 3))[0]
            J = J.copy()
            J[0] = 2 * r0 * J[0]
        return J
    return R, Jf, xstar, has_root


def solver_monitor(ctx, n_problems):
    from hiten.algorithms.corrector.backends.newton import _NewtonBackend
    from hiten.algorithms.corrector.stepping import make_armijo_stepper, make_plain_stepper
    from hiten.algorithms.corrector.types import CorrectorInput

    class Recording(_NewtonBackend):
        def __init__(self, **kw):
            super().__init__(**kw)
            self.trace = []

        def on_iteration(self, k, x, r_norm):
            self.trace.append((int(k), np.array(x, dtype=float, copy=True), float(r_norm)))

    rng = ctx.rng
    kinds = ["regular", "regular", "no_root", "singular_start", "raises_in_region", "nan_in_region", "rectangular"]
    n_ret = n_raise = 0
    for it in range(n_problems):
        if not ctx.mine(it):
            continue
        kind = kinds[it % len(kinds)]
        n = int(rng.integers(1, 5))
        m = n if kind != "rectangular" else int(rng.integers(1, 5))
        R, Jf, xstar, has_root = make_residual(rng, n, m, kind if kind != "rectangular" else "regular")
        x0 = xstar + rng.normal(size=n) * rng.choice([1e-3, 0.1, 0.5, 2.0])
        tol = float(10.0 ** rng.uniform(-14, -3))
        max_attempts = int(rng.choice([0, 1, 2, 5, 50]))
        max_delta = [1e-6, 1e-2, 0.3, np.inf, None][int(rng.integers(5))]
        armijo = bool(rng.integers(2))
        analytic = bool(rng.integers(2))
        use_inf_norm = bool(rng.integers(2))
        norm_fn = (lambda r: float(np.linalg.norm(r, ord=np.inf))) if use_inf_norm else None
        normc = norm_fn or (lambda r: float(np.linalg.norm(r)))
        factory = make_armijo_stepper(alpha_reduction=float(rng.choice([0.5, 0.3])), min_alpha=float(rng.choice([1e-4, 1e-2])),
                                      armijo_c=float(rng.choice([0.1, 1e-3]))) if armijo else make_plain_stepper()
        be = Recording(stepper_factory=factory)
        req = CorrectorInput(initial_guess=x0.copy(), residual_fn=R, jacobian_fn=Jf if analytic else None, norm_fn=norm_fn,
                             max_attempts=max_attempts, tol=tol, max_delta=max_delta, fd_step=1e-7)
        ctx.case(f"solver:{kind}:{'armijo' if armijo else 'plain'}", [it, ctx.seed], nontrivial=True)

        def wit():
            return {"kind": kind, "n": n, "m": m, "tol": tol, "max_attempts": max_attempts, "max_delta": max_delta, "armijo": armijo,
                    "analytic_jacobian": analytic, "inf_norm": use_inf_norm, "x0": x0, "index": it, "seed": ctx.seed,
                    "trace_norms": [t[2] for t in be.trace][:60]}
        if it < 3:
            ctx.sample({k: v for k, v in wit().items() if k != "trace_norms"})
        out = None
        try:
            out = be.run(request=req)
        except Exception as exc:
            n_raise += 1
            ctx.count("S:raised (accepted outcome when tolerance not met)")
            err = exc
        tr = be.trace
        if out is not None:
            n_ret += 1
            x_out = np.asarray(out.x_corrected, dtype=float)
            try:
                rn = normc(R(x_out))
            except Exception:
                rn = np.inf
            ctx.stat("returned_residual/tol", rn / tol)
            ctx.check(rn < tol, "S:a returned state meets the tolerance (re-evaluated by the monitor)", lambda: {**wit(), "residual_norm": rn, "x_out": x_out})
            ctx.check(np.isfinite(x_out).all(), "S:returned state is finite", wit)
            ctx.check(abs(float(out.residual_norm) - rn) <= 1e-9 * (1 + rn), "S:reported residual norm == actual", lambda: {**wit(), "reported": out.residual_norm, "actual": rn})
        else:
            # it raised: if the iteration budget was generous and the start was already converged it should not have raised
            try:
                r0 = normc(R(x0))
            except Exception:
                r0 = np.inf
            ctx.check(not (r0 < tol), "S:an already converged start is accepted, not rejected", lambda: {**wit(), "r0": r0, "error": repr(err)[:200]})
        # iterate monitors (from the backend's own hook)
        norms = [t[2] for t in tr]
        xs = [t[1] for t in tr]
        if out is not None:
            xs = xs + [np.asarray(out.x_corrected, dtype=float)]
        if armijo and len(norms) >= 2:
            inc = [(a, b) for a, b in zip(norms[:-1], norms[1:]) if not (b <= a)]
            ctx.check(not inc, "S:with line search the residual norm never increases between iterates", lambda: {**wit(), "increases": inc[:5]})
        if max_delta is not None and np.isfinite(max_delta) and len(xs) >= 2:
            steps = [float(np.abs(b - a).max()) for a, b in zip(xs[:-1], xs[1:])]
            if not np.all(np.isfinite(steps)):
                ctx.count("S:non-finite update (NaN residual) — statement silent, run must still end in an error")
                steps = [v for v in steps if np.isfinite(v)] or [0.0]
            ctx.stat("max_step/max_delta", max(steps) / max_delta)
            ctx.check(max(steps) <= max_delta * (1 + 1e-9), "S:no update exceeds the configured step cap", lambda: {**wit(), "steps": steps[:20]})
        ctx.check(len(tr) <= max_attempts, "S:iteration cap respected", lambda: {**wit(), "iterations": len(tr)})
    ctx.note("n_solver_returns", n_ret)
    ctx.note("n_solver_raises", n_raise)


# ------------------------------------------------------------------------------------------- orbit monitor
def _first_crossing(x0, mu, coord, tmax):
    """First crossing of coord=0 after leaving the start (SciPy events on the reference field)."""
    def ev(t, y):
        return y[coord]
    ev.terminal = False
    sol = solve_ivp(lambda t, y: ref.field(y, mu), (0.0, tmax), x0, method="DOP853", rtol=1e-13, atol=1e-13, events=ev)
    ts = [t for t in sol.t_events[0] if t > 1e-6]
    ys = [y for t, y in zip(sol.t_events[0], sol.y_events[0]) if t > 1e-6]
    return (ts[0], ys[0]) if ts else (None, None)


def orbit_monitor(ctx, specs):
    from hiten import System
    from hiten.system import HaloOrbit, LyapunovOrbit, VerticalOrbit
    fam_cls = {"halo": HaloOrbit, "lyapunov": LyapunovOrbit, "vertical": VerticalOrbit}
    systems = {}
    n_ok = n_fail = 0
    for k, (name, L, fam, kw) in enumerate(specs):
        if not ctx.mine(k):
            continue
        if name.startswith("mu="):
            sysm = systems.setdefault(name, System.from_mu(float(name[3:])))
        else:
            p, s = name.split("-")
            sysm = systems.setdefault(name, System.from_bodies(p, s))
        mu = float(sysm.mu)
        pt = sysm.get_libration_point(L)
        try:
            if fam == "vertical-analytic":
                # the documented constructor path: analytic (Richardson) seed generated from amplitude_z, placed at maximum |z|
                orb = pt.create_orbit(VerticalOrbit, amplitude_z=kw["amplitude_z"])
            elif fam == "vertical":
                # in-domain seed for the vertical family: centre-manifold point on the q3 = 0 section (z0 = 0)
                cm = pt.get_center_manifold(degree=kw.get("degree", 6))
                cm.compute()
                ic = cm.to_synodic([0.0, 0.0], kw["energy"], "q3")
                orb = pt.create_orbit(VerticalOrbit, initial_state=ic)
            else:
                orb = pt.create_orbit(fam_cls[fam], **kw)
            x_seed = np.array(orb.initial_state, dtype=float, copy=True)
            p_seed = orb.period
        except Exception as exc:
            ctx.skip(f"seed construction failed ({type(exc).__name__})")
            continue
        label = f"{name}:L{L}:{fam}:{kw}"
        # warm start (every third case): pre-set the period to that of a neighbouring, already corrected family member — the pattern
        # used when walking a family; the corrected orbit must still carry ITS OWN period afterwards
        if fam in ("halo", "lyapunov") and k % 3 == 1:
            try:
                key = "amplitude_z" if fam == "halo" else "amplitude_x"
                kw2 = dict(kw)
                kw2[key] = kw[key] * (1 + 2e-4)
                nb = pt.create_orbit(fam_cls[fam], **kw2)
                nb.correct()
                orb.period = float(nb.period)
                p_seed = orb.period
                label += ":warm-start"
                ctx.count("O:warm-started corrections (period pre-set from a neighbouring member)")
            except Exception:
                pass
        ctx.case(f"orbit:{fam}:L{L}", [name, L, fam, sorted(kw.items()), label.endswith("warm-start")], nontrivial=True)
        try:
            res = orb.correct()
        except Exception as exc:
            n_fail += 1
            ctx.count("O:correction raised (accepted outcome)")
            same = np.array_equal(np.asarray(orb.initial_state, dtype=float), x_seed) and (orb.period == p_seed or (orb.period is None and p_seed is None))
            ctx.check(same, "O:a failed correction leaves initial state and period unchanged",
                      {"orbit": label, "seed": x_seed, "now": orb.initial_state, "period_seed": p_seed, "period_now": orb.period, "error": repr(exc)[:200]})
            continue
        n_ok += 1
        x0 = np.asarray(orb.initial_state, dtype=float)
        T = float(orb.period)
        cfg = orb.correction_config
        opts = orb.correction_options
        tol = float(opts.base.convergence.tol)
        if n_ok <= 3:
            ctx.sample({"orbit": label, "x0": x0, "period": T, "tol": tol})

        def wit():
            return {"orbit": label, "mu": mu, "x0": x0, "period": T, "tol": tol}
        xT, M = ref.flow_stm(x0, mu, T)
        nM = np.linalg.norm(M, 2)
        clos = np.linalg.norm(xT - x0)
        ctx.stat("closure/(tol*|M|)", clos / (tol * nM))
        mech = None
        if fam == "vertical-analytic" and clos > 20 * tol * nM + 1e-10 and abs(x_seed[2]) > 1e-6:
            # recorded finding: the family's scheme (controls vz, vy; residual vx = y = 0 at the first z = 0 crossing; period = 2 x
            # crossing time) makes the arc symmetric about that crossing — x(T) = R x(0), R = diag(1,-1,-1,-1,1,1) — which is a
            # period only when the seed lies on the x axis; a seed at maximum |z| is handed back as "converged" without being periodic
            R = np.array([1.0, -1.0, -1.0, -1.0, 1.0, 1.0])
            if np.linalg.norm(xT - R * x0) <= 1e-6 * max(1.0, nM * 1e-3):
                mech = MECH_VERT
        ctx.check(clos <= 20 * tol * nM + 1e-10, "O:propagating one period with an independent integrator returns to the start",
                  lambda: {**wit(), "closure": clos, "normM": nM, "x(T)": xT}, mech)
        coord = {"_y_plane_crossing": 1, "_z_plane_crossing": 2, "_x_plane_crossing": 0}.get(getattr(cfg.event_func, "__name__", ""), None)
        # event_func objects are closures named _section_crossing: identify the plane from the family's documented symmetry
        if coord is None:
            coord = 2 if fam.startswith("vertical") else 1
        tc, yc = _first_crossing(x0, mu, coord, 0.75 * T)
        ok = ctx.check(tc is not None, "O:an admissible plane crossing exists within the period", wit)
        if ok:
            ctx.stat("|T - 2 t_cross|", abs(T - 2 * tc))
            ctx.check(abs(T - 2 * tc) <= 1e-8 * max(1.0, nM * 1e-3), "O:period == 2 x first plane crossing time (independently located)",
                      lambda: {**wit(), "t_cross": tc})
            resid = np.array([yc[int(i)] - t for i, t in zip(cfg.residual_indices, cfg.target)])
            ctx.stat("half_period_residual/tol", np.abs(resid).max() / tol)
            ctx.check(np.abs(resid).max() <= 10 * tol + 1e-10, "O:constraint residual at the half period below tolerance (reference flow)",
                      lambda: {**wit(), "residual": resid, "indices": cfg.residual_indices})
        ctrl = set(int(i) for i in cfg.control_indices)
        fixed = [i for i in range(6) if i not in ctrl]
        ctx.check(np.array_equal(x0[fixed], x_seed[fixed]), "O:components that are not controls are untouched by the correction",
                  lambda: {**wit(), "seed": x_seed, "fixed": fixed})
        ctx.check(bool(getattr(res, "converged", True)), "O:result reports convergence", wit)
        xr = np.asarray(getattr(res, "x_corrected", x0), dtype=float)
        ctx.check(np.array_equal(xr, x0) and abs(2 * float(res.half_period) - T) <= 1e-14 * T, "O:result object agrees with the orbit's state and period", wit)
    ctx.note("n_orbits_corrected", n_ok)
    ctx.note("n_orbits_failed", n_fail)


def run(ctx):
    ctx.note("rule", "solver case = generated residual map (regular / no root / singular start / raising / NaN / rectangular) x stepper x tolerances x caps; "
                     "orbit case = (system, point, family, amplitude); every case non-trivial; distinct by generator index or spec")
    guarded(ctx, "solver", solver_monitor, ctx, ctx.pick(600, 40000))
    q = [("earth-moon", 1, "halo", dict(amplitude_z=0.2, zenith="southern")),
         ("earth-moon", 1, "lyapunov", dict(amplitude_x=0.05)),
         ("earth-moon", 2, "halo", dict(amplitude_z=0.1, zenith="northern")),
         ("earth-moon", 2, "lyapunov", dict(amplitude_x=0.03)),
         ("sun-earth", 1, "halo", dict(amplitude_z=0.1, zenith="northern")),
         ("earth-moon", 1, "halo", dict(amplitude_z=0.6, zenith="northern")),
         ("mu=0.04", 1, "lyapunov", dict(amplitude_x=0.02)),
         ("earth-moon", 2, "lyapunov", dict(amplitude_x=0.02)),
         ("earth-moon", 1, "vertical", dict(energy=0.6)),
         ("earth-moon", 2, "vertical-analytic", dict(amplitude_z=0.05)),
         ("earth-moon", 1, "vertical-analytic", dict(amplitude_z=0.02))]
    t = list(q)
    if not ctx.quick:
        rng = np.random.default_rng(ctx.seed + 5)
        for name in ("earth-moon", "sun-earth", "mu=0.04", "sun-jupiter", "mu=0.001"):
            for L in (1, 2):
                for a in (0.01, 0.03, 0.06, 0.1, 0.15, 0.2, 0.3, 0.45):
                    t.append((name, L, "halo", dict(amplitude_z=float(a * rng.uniform(0.8, 1.2)), zenith=["northern", "southern"][int(rng.integers(2))])))
                    t.append((name, L, "lyapunov", dict(amplitude_x=float(0.5 * a * rng.uniform(0.8, 1.2)))))
        for L in (1, 2):
            for e in (0.2, 0.4, 0.8):
                t.append(("earth-moon", L, "vertical", dict(energy=e)))
            for nm_ in ("earth-moon", "sun-earth"):
                for a in (0.01, 0.1, 0.2):
                    t.append((nm_, L, "vertical-analytic", dict(amplitude_z=float(a * rng.uniform(0.8, 1.2)) * (1.0 if nm_ == "earth-moon" else 0.02))))
    guarded(ctx, "orbits", orbit_monitor, ctx, q if ctx.quick else t)
    m = 1 if ctx.nshards > 1 else 1
    ctx.require("S:a returned state meets the tolerance (re-evaluated by the monitor)", 30 if ctx.nshards == 1 else 5)
    ctx.require("S:with line search the residual norm never increases between iterates", 30 if ctx.nshards == 1 else 5)
    ctx.require("S:no update exceeds the configured step cap", 30 if ctx.nshards == 1 else 5)
    ctx.require("O:propagating one period with an independent integrator returns to the start", 3 if ctx.nshards == 1 else 1)
