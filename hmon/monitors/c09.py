"""C09 — centre-manifold points map to synodic states consistently in position and energy.

Events: CenterManifold.to_synodic(pt4), to_synodic(pt2, energy, section_coord), to_cm(state6), hamiltonian(N)(coords);
optional observability: the map service's lift _to_real_4d_cm.
Oracle: reference CR3BP energy (sympy) relative to the libration point, decay-rate analysis over radii, section/energy identities.
"""
from __future__ import annotations

import numpy as np

from ..core import INTERNAL_ERRORS, guarded
from ..oracles import cr3bp as ref

SECTIONS = {"q2": (0, (2, 3)), "p2": (1, (2, 3)), "q3": (2, (0, 1)), "p3": (3, (0, 1))}   # index in (q2,p2,q3,p3), plane indices


def H_cm(cm, N, pt4):
    ham = cm.hamiltonian(N)
    c = np.array([0.0, pt4[0], pt4[2], 0.0, pt4[1], pt4[3]])
    v = ham(c)
    return float(np.real(v))


def check_cm(ctx, label, sysm, L, N, n_dirs, n_sec, redegree=False):
    rng = ctx.rng
    mu = float(sysm.mu)
    pt = sysm.get_libration_point(L)
    gam = float(pt.dynamics.gamma)
    EL = ref.energy(np.concatenate([np.asarray(pt.position, dtype=float), np.zeros(3)]), mu)
    from hiten.system.center import CenterManifold
    cm = CenterManifold(pt, N)          # a fresh object (the point's own memo of centre manifolds is C20's subject)
    cm.compute()
    ctx.case("center_manifold", [label, N], nontrivial=True)
    radii = [0.32, 0.16, 0.08, 0.04]
    e_rt, e_en = [], []
    for _ in range(n_dirs):
        d = rng.normal(size=4)
        d /= np.linalg.norm(d)
        a, b = [], []
        for r in radii:
            p4 = r * d
            syn = np.asarray(cm.to_synodic(p4), dtype=float)
            back = np.asarray(cm.to_cm(syn), dtype=float)
            a.append(np.abs(back - p4).max())
            b.append(abs((ref.energy(syn, mu) - EL) / gam ** 2 - H_cm(cm, N, p4)))
        e_rt.append(a)
        e_en.append(b)
        ctx.case("direction", [label, N, d.round(8).tolist()], nontrivial=True)
        if len(ctx.samples) < 4:
            ctx.sample({"cm": label, "N": N, "direction": d, "radii": radii, "roundtrip_err": a, "energy_err": b})
    e_rt = np.array(e_rt).max(axis=0)
    e_en = np.array(e_en).max(axis=0)
    ctx.note(f"roundtrip_errors[{label}:N{N}]", e_rt.tolist())
    ctx.note(f"energy_errors[{label}:N{N}]", e_en.tolist())
    for name, e, floor in (("A:to_cm(to_synodic(p)) == p up to O(r^(N+1))", e_rt, 1e-13), ("B:synodic energy relative to L (scaled) == H_cm(p) up to O(r^(N+1))", e_en, 1e-13 / gam ** 2 + 1e-14)):
        # finest conclusive pair of radii
        rate = None
        for i in range(len(radii) - 1):
            if e[i] > 1e2 * floor and e[i + 1] > 5 * floor and e[i] < 1e-2:
                rate = np.log2(e[i] / e[i + 1])
        wit = {"cm": label, "N": N, "errors": e.tolist(), "radii": radii, "rate": rate}
        if rate is not None:
            ctx.stat(f"order_deficit[{name[:1]}]", (N + 1) - rate)
            ctx.check(rate >= N + 1 - 0.7, name, wit)
            ctx.count(f"{name[:1]}:conclusive rate")
        else:
            ctx.check(e[-1] <= 10 * floor or e[0] >= 1e-2, name, wit)
        # absolute size at the smallest radius: must be tiny (a constant offset or O(r) defect would show here)
        ctx.check(e[-1] <= 1e-6, name[:2] + "discrepancy vanishes as the amplitude decreases", wit)
    # history: raise the degree of the SAME (already used) object; the conversions must then have the accuracy of the new degree
    if redegree:
        N2 = N + 1
        cm.degree = N2
        e_rt2, e_en2 = [], []
        for _ in range(max(3, n_dirs // 2)):
            d = rng.normal(size=4)
            d /= np.linalg.norm(d)
            a, b = [], []
            for r in radii:
                p4 = r * d
                syn = np.asarray(cm.to_synodic(p4), dtype=float)
                back = np.asarray(cm.to_cm(syn), dtype=float)
                a.append(np.abs(back - p4).max())
                b.append(abs((ref.energy(syn, mu) - EL) / gam ** 2 - H_cm(cm, N2, p4)))
            e_rt2.append(a)
            e_en2.append(b)
        e_rt2 = np.array(e_rt2).max(axis=0)
        e_en2 = np.array(e_en2).max(axis=0)
        ctx.case("center_manifold:degree-raised-on-used-object", [label, N, N2], nontrivial=True)
        for name, e, floor in (("A2:after raising the degree of a used object the round trip has the accuracy of the new degree", e_rt2, 1e-13),
                               ("B2:after raising the degree of a used object the energy identity has the accuracy of the new degree", e_en2, 1e-13 / gam ** 2 + 1e-14)):
            rate = None
            for i in range(len(radii) - 1):
                if e[i] > 1e2 * floor and e[i + 1] > 5 * floor and e[i] < 1e-2:
                    rate = np.log2(e[i] / e[i + 1])
            wit = {"cm": label, "degree_before": N, "degree_after": N2, "errors": e.tolist(), "radii": radii, "rate": rate}
            if rate is not None:
                ctx.stat(f"order_deficit[{name[:2]}]", (N2 + 1) - rate)
                ctx.check(rate >= N2 + 1 - 0.7, name, wit)
            else:
                ctx.check(e[-1] <= 10 * floor, name, wit)
        N = N2
        e_en = e_en2
    # section points at prescribed energy
    for _ in range(n_sec):
        sec = ["q2", "p2", "q3", "p3"][int(rng.integers(4))]
        si, plane = SECTIONS[sec]
        h0 = float(rng.uniform(0.05, 0.5))
        p2 = rng.normal(size=2)
        p2 *= rng.uniform(0.02, 0.25) / np.linalg.norm(p2)
        try:
            syn = np.asarray(cm.to_synodic(p2, h0, sec), dtype=float)
        except INTERNAL_ERRORS as exc:
            ctx.check(False, "C:section conversion completes or declines with a domain error (no internal IndexError/KeyError/NameError/AttributeError)",
                      {"cm": label, "N": N, "section": sec, "energy": h0, "point": p2, "error": f"{type(exc).__name__}: {exc}"[:300]})
            continue
        except Exception as exc:
            ctx.count("C:section point not liftable at this energy (raised) — accepted")
            continue
        ctx.case(f"section:{sec}", [label, N, sec, h0, p2.round(8).tolist()], nontrivial=True)
        wit = {"cm": label, "N": N, "section": sec, "energy": h0, "point": p2, "synodic": syn}
        lift = None
        try:
            lift = np.asarray(cm.poincare_map(h0).dynamics._to_real_4d_cm(p2, sec), dtype=float)
        except Exception:
            ctx.count("C:lift hook unavailable — boundary observation through to_cm")
        if lift is not None:
            ctx.check(lift[si] == 0.0, "C:lifted point has section coordinate exactly 0", {**wit, "lift": lift})
            ctx.check(np.array_equal(lift[list(plane)], p2), "C:lifted point keeps the plane coordinates", {**wit, "lift": lift})
            hl = H_cm(cm, N, lift)
            ctx.stat("|H_cm(lift)-energy|", abs(hl - h0))
            ctx.check(abs(hl - h0) <= 1e-9, "C:lifted point lies on the prescribed energy level of H_cm", {**wit, "lift": lift, "H": hl})
            syn2 = np.asarray(cm.to_synodic(lift), dtype=float)
            ctx.check(np.abs(syn2 - syn).max() <= 1e-12, "C:section conversion == 4-D conversion of the lifted point", {**wit, "lift": lift})
            r = np.linalg.norm(lift)
        else:
            back = np.asarray(cm.to_cm(syn), dtype=float)
            ctx.check(abs(back[si]) <= 1e-6 and np.abs(back[list(plane)] - p2).max() <= 1e-6, "C:state lies on the section with the given plane coordinates (via to_cm)", {**wit, "back": back})
            r = np.linalg.norm(back)
        # energy of the synodic state: equal to the prescribed energy within the truncation error measured for 4-D points of that radius
        e_syn = (ref.energy(syn, mu) - EL) / gam ** 2
        # bound from the measured energy errors: interpolate power law through the measured sup errors
        bound = max(e_en[0] * (r / radii[0]) ** (N + 1), 1e-12) * 20 + 1e-10
        ctx.stat("section_energy_err/bound", abs(e_syn - h0) / bound)
        ctx.check(abs(e_syn - h0) <= bound, "C:synodic state of a section point lies on the prescribed energy level (within truncation)", {**wit, "e_syn": e_syn, "bound": bound, "r": r})
    # section points that are admissible BY CONSTRUCTION: a 4-D point on the section whose remaining (solved-for) coordinate is small and
    # positive defines the energy level; lifting its plane coordinates at that level must succeed (a root exists) — near the rim of the
    # admissible region of the section plane the solved coordinate is far below the solver's first trial value
    SOLVED = {"q2": 1, "p2": 0, "q3": 3, "p3": 2}
    for j in range(max(4, n_sec // 2)):
        sec = ["q2", "p2", "q3", "p3"][j % 4]
        si, plane = SECTIONS[sec]
        small = float([2e-4, 1e-4, 5e-5, 7e-4, 3e-3, 2e-2][int(rng.integers(6))])
        p2 = rng.normal(size=2)
        p2 *= rng.uniform(0.03, 0.2) / np.linalg.norm(p2)
        p4 = np.zeros(4)
        p4[list(plane)] = p2
        p4[SOLVED[sec]] = small
        h0 = H_cm(cm, N, p4)
        p4z = p4.copy()
        p4z[SOLVED[sec]] = 0.0
        hz = H_cm(cm, N, p4z)
        # the library's notion of an admissible plane point is H(plane point, solved coordinate = 0) <= energy; odd terms of the
        # centre-manifold Hamiltonian can make H dip for a small positive coordinate, and such points are legitimately declined
        if not (h0 > 0) or not (h0 - hz > 1e-13 * (1 + abs(h0))):
            ctx.skip("constructed section point not inside the library's admissible region (H at zero solved coordinate above the level)")
            continue
        ctx.case(f"section-constructed:{sec}", [label, N, sec, small, p2.round(8).tolist()], nontrivial=True)
        wit = {"cm": label, "N": N, "section": sec, "energy": h0, "plane_point": p2, "solved_coordinate_of_the_constructing_point": small}
        try:
            syn = np.asarray(cm.to_synodic(p2, h0, sec), dtype=float)
        except Exception as exc:
            ctx.check(False, "C:a section point that is admissible by construction is lifted to its energy level",
                      {**wit, "error": f"{type(exc).__name__}: {exc}"[:300]})
            continue
        back = np.asarray(cm.to_cm(syn), dtype=float)
        r = float(np.linalg.norm(p4))
        tolb = max(e_rt[0] * (r / radii[0]) ** (N + 1), 1e-12) * 20 + 1e-9
        hb = H_cm(cm, N, back)
        ctx.check(abs(back[si]) <= tolb and np.abs(back[list(plane)] - p2).max() <= tolb and abs(hb - h0) <= 1e-7 * (1 + abs(h0)) + 50 * tolb,
                  "C:a section point that is admissible by construction is lifted to its energy level",
                  {**wit, "back": back, "H_back": hb, "tol": tolb})


def run(ctx):
    from hiten import System
    ctx.note("rule", "case = one centre manifold (system, point, degree), one random 4-D direction at radii 0.32..0.04, or one section point (section, energy, "
                     "plane point); all non-trivial")
    q = [("earth-moon", 1, 4), ("earth-moon", 1, 6), ("mu=0.04", 2, 5)]
    t = q + [("earth-moon", 2, 6), ("earth-moon", 1, 8), ("sun-earth", 1, 6), ("sun-earth", 2, 5), ("mu=0.001", 1, 7), ("mu=0.2", 2, 6), ("earth-moon", 2, 10),
             ("sun-jupiter", 1, 6), ("mu=0.3", 1, 4)]
    systems = {}
    for k, (name, L, N) in enumerate(q if ctx.quick else t):
        if not ctx.mine(k):
            continue

        def one():
            sysm = systems.setdefault(name, System.from_mu(float(name[3:])) if name.startswith("mu=") else System.from_bodies(*name.split("-")))
            check_cm(ctx, f"{name}:L{L}", sysm, L, N, ctx.pick(5, 20), ctx.pick(8, 60), redegree=(k % 3 == 0 and N <= 6))
        guarded(ctx, f"{name}:L{L}:N{N}", one)
    one_ = ctx.nshards > 1
    ctx.require("A:conclusive rate", 1 if one_ else 2)
    ctx.require("B:conclusive rate", 1 if one_ else 2)
    ctx.require("C:synodic state of a section point lies on the prescribed energy level (within truncation)", 3 if one_ else 10)
    ctx.require("C:a section point that is admissible by construction is lifted to its energy level", 2 if one_ else 6)
