"""C03 — the state-transition matrix is the derivative of the flow and is symplectic.

Events: _compute_stm(var_dynsys, x0, tf, steps, forward, method, order) -> (x, t, Phi_T, PHI);
PeriodicOrbit.monodromy / stability_indices / eigenvalues.
Oracle: 42-D reference variational flow (sympy-derived field, SciPy DOP853 at 1e-13), finite differences of the
library's own flow, symplectic invariants in canonical coordinates.
"""
from __future__ import annotations

import numpy as np

from ..core import guarded
from ..oracles import cr3bp as ref

MECH_BACK = "stm-backward-only-state-block-flipped"
T6 = ref.vel_to_mom()
T6i = np.linalg.inv(T6)
J6 = ref.J6


def gen_x0(rng, mu, cls):
    rh = (mu / 3) ** (1 / 3)
    if cls == "L1":
        c = np.array([1 - mu - rh, 0, 0])
    elif cls == "L2":
        c = np.array([1 - mu + rh, 0, 0])
    elif cls == "L3":
        c = np.array([-1.0, 0, 0])
    else:
        return np.concatenate([rng.uniform(-1.2, 1.2, 3) * [1, 1, 0.3], rng.uniform(-0.4, 0.4, 3)])
    s = max(0.3 * rh, 0.01)
    return np.concatenate([c + rng.normal(size=3) * s * [1, 1, 0.5], rng.normal(size=3) * 0.15])


def min_dist(S, mu):
    r1 = np.sqrt((S[:, 0] + mu) ** 2 + S[:, 1] ** 2 + S[:, 2] ** 2)
    r2 = np.sqrt((S[:, 0] - 1 + mu) ** 2 + S[:, 1] ** 2 + S[:, 2] ** 2)
    return min(r1.min(), r2.min())


def symplectic_checks(ctx, tag, Phi, wit):
    A = T6 @ Phi @ T6i
    nrm = np.linalg.norm(Phi, 2) ** 2
    d = np.abs(A.T @ J6 @ A - J6).max()
    ctx.stat(f"symplectic_defect/|Phi|^2[{tag}]", d / nrm)
    ok = ctx.check(d <= 1e-8 * nrm, f"iii:canonical two-form preserved[{tag}]", lambda: {**wit(), "defect": d, "normPhi2": nrm})
    det = np.linalg.det(Phi)
    ctx.check(abs(det - 1) <= 1e-6 * max(1.0, np.linalg.cond(Phi) * 1e-10 * 1e4), f"iii:det==1[{tag}]", lambda: {**wit(), "det": det})
    ev = np.linalg.eigvals(Phi)
    # spectrum closed under lambda -> 1/lambda (compare characteristic polynomial symmetry: palindromic coefficients)
    cp = np.poly(Phi).real
    pal = np.abs(cp - cp[::-1]).max() / (np.abs(cp).max())
    ctx.stat(f"charpoly_palindromic_defect[{tag}]", pal)
    ctx.check(pal <= 1e-6, f"iii:eigenvalues in reciprocal pairs (palindromic char. polynomial)[{tag}]", lambda: {**wit(), "charpoly": cp, "eig": ev})
    return ok


def pointwise(ctx, n_cases):
    from hiten import System
    from hiten.algorithms.dynamics.rtbp import _compute_stm
    rng = ctx.rng
    mus = [0.012150585609624, 0.04, 3.0034806e-6, 0.2, 1e-3, 0.5][: ctx.pick(3, 6)]
    variants = [("adaptive", 8, 400), ("adaptive", 5, 300), ("fixed", 8, 1500), ("fixed", 6, 2500), ("fixed", 4, 4000)]
    systems = {}
    k = -1
    per = max(1, n_cases // (len(mus) * len(variants) * 2))
    for mu in mus:
        for (method, order, steps) in variants:
            for forward in (1, -1):
                for rep in range(per):
                    k += 1
                    if not ctx.mine(k):
                        continue
                    sysm = systems.setdefault(mu, System.from_mu(mu))
                    cls = ["L1", "L2", "L3", "generic"][(k + rep) % 4]
                    x0 = gen_x0(rng, mu, cls)
                    tf = float(rng.uniform(0.05, 3.0)) if method == "adaptive" else float(rng.uniform(0.05, 1.5))
                    tsig = forward * tf
                    try:
                        xr, Pr = ref.flow_stm(x0, mu, tsig, t_eval=np.linspace(0, tsig, 241))
                    except Exception:
                        ctx.skip("reference flow failed (close approach)")
                        continue
                    if min_dist(xr, mu) < 0.05 or np.linalg.norm(Pr[-1], 2) > 1e4:
                        ctx.skip("path within 0.05 of a primary or |Phi|>1e4")
                        continue
                    try:
                        x, t, PhiT, PHI = _compute_stm(sysm.var_dynsys, x0, tf, steps=steps, forward=forward, method=method, order=order)
                    except Exception as exc:
                        ctx.check(False, "0:_compute_stm returns", {"mu": mu, "x0": x0, "tf": tf, "forward": forward, "method": method,
                                                                    "order": order, "error": repr(exc)[:300]})
                        continue
                    tag = f"{method}{order}:fwd{forward:+d}"
                    ctx.case(f"stm:{tag}", [mu, x0.round(12).tolist(), tf], nontrivial=abs(x0[2]) > 1e-6)
                    if k < 4:
                        ctx.sample({"mu": mu, "x0": x0, "tf": tf, "forward": forward, "method": method, "order": order, "class": cls})

                    def wit():
                        return {"mu": mu, "x0": x0, "tf": tf, "forward": forward, "method": method, "order": order, "steps": steps, "class": cls}
                    x = np.asarray(x)
                    PHI = np.asarray(PHI)
                    nP = np.linalg.norm(Pr[-1], 2)
                    # integration accuracy of this scheme on this problem, judged on the state (independent of the STM block)
                    e_state = np.abs(x[-1] - xr[-1]).max()
                    tol_state = 1e-7 * max(1.0, nP)
                    ctx.stat(f"state_err[{tag}]", e_state)
                    ctx.check(e_state <= tol_state and abs(t[-1] - tsig) <= 1e-12 * (1 + tf),
                              "0:returned trajectory is the flow at signed time", lambda: {**wit(), "state_err": e_state, "t_end": t[-1]})
                    # (i) final STM vs reference derivative of the flow
                    eP = np.abs(PhiT - Pr[-1]).max()
                    ctx.stat(f"stm_err/|Phi|^2[{tag}]", eP / nP ** 2)
                    mech = None
                    if forward == -1 and eP > 1e-6 * nP ** 2 + 1e3 * e_state * nP:
                        # classifier: the returned matrix solves dPhi/ds = +F(x(-s)) Phi along the reversed path
                        from scipy.integrate import solve_ivp

                        def wrong(s, Y):
                            xx = Y[36:]
                            return np.concatenate([(ref.jac(xx, mu) @ Y[:36].reshape(6, 6)).ravel(), -ref.field(xx, mu)])
                        sol = solve_ivp(wrong, (0, tf), np.concatenate([np.eye(6).ravel(), x0]), method="DOP853", rtol=1e-12, atol=1e-12)
                        Pw = sol.y[:36, -1].reshape(6, 6)
                        if np.abs(PhiT - Pw).max() <= 1e-5 * max(1.0, np.linalg.norm(Pw, 2) ** 2):
                            mech = MECH_BACK
                    ok_i = ctx.check(eP <= 1e-6 * nP ** 2 + 1e3 * e_state * nP, "i:Phi_T == derivative of the flow (reference variational flow)",
                                     lambda: {**wit(), "err": eP, "normPhi_ref": nP, "lib": PhiT, "ref": Pr[-1]}, mech)
                    ctx.check(np.array_equal(PHI[0, :36].reshape(6, 6), np.eye(6)) and np.array_equal(PHI[0, 36:], x0),
                              "i:first row is (identity, x0)", wit)
                    ctx.check(np.array_equal(PHI[-1, :36].reshape(6, 6), PhiT) and np.array_equal(PHI[:, 36:], x),
                              "i:Phi_T and x are slices of PHI", wit)
                    # intermediate rows
                    idx = np.linspace(0, len(t) - 1, 9).round().astype(int)
                    if ok_i:
                        tt = np.asarray(t)[idx]
                        xr2, Pr2 = ref.flow_stm(x0, mu, tsig, t_eval=np.concatenate([tt[:-1], [tsig]]) if abs(tt[-1] - tsig) < 1e-12 else tt)
                        em = max(np.abs(PHI[i, :36].reshape(6, 6) - Pr2[j]).max() / max(1.0, np.linalg.norm(Pr2[j], 2) ** 2) for j, i in enumerate(idx))
                        ctx.stat("stm_row_err/|Phi|^2", em)
                        ctx.check(em <= 1e-6, "i:every sampled row of PHI == reference STM at that time", lambda: {**wit(), "err": em})
                    # (ii) same flow: finite differences of the library's own propagation
                    if rep == 0:
                        from hiten.algorithms.dynamics.base import _propagate_dynsys
                        d = 1e-6
                        FD = np.zeros((6, 6))
                        for j in range(6):
                            e = np.zeros(6)
                            e[j] = d
                            sp = _propagate_dynsys(sysm.dynsys, x0 + e, 0.0, tf, forward=forward, steps=2 if method == "adaptive" else steps, method=method, order=order)
                            sm = _propagate_dynsys(sysm.dynsys, x0 - e, 0.0, tf, forward=forward, steps=2 if method == "adaptive" else steps, method=method, order=order)
                            FD[:, j] = (sp.states[-1] - sm.states[-1]) / (2 * d)
                        eF = np.abs(PhiT - FD).max()
                        ctx.stat(f"stm_vs_own_flow_FD/|Phi|^2[{tag}]", eF / nP ** 2)
                        m2 = MECH_BACK if (mech == MECH_BACK) else None
                        ctx.check(eF <= 1e-4 * nP ** 2, "ii:Phi_T == finite-difference derivative of the library's own flow",
                                  lambda: {**wit(), "err": eF, "normPhi_ref": nP}, m2)
                    # (iii) symplectic structure
                    if ok_i:
                        symplectic_checks(ctx, "fwd%+d" % forward, PhiT, wit)
                    elif mech == MECH_BACK:
                        ctx.count("iii:skipped because Phi_T itself is the known-wrong backward matrix")


def orbits(ctx):
    """(iv) periodic orbits: M f(x0) = f(x0), indices == 1/2 (lambda + 1/lambda) of the reference monodromy."""
    from hiten import System
    from hiten.system import HaloOrbit, LyapunovOrbit
    specs = [("earth-moon", 1, "halo", dict(amplitude_z=0.2, zenith="southern")),
             ("earth-moon", 1, "lyapunov", dict(amplitude_x=0.05)),
             ("earth-moon", 2, "halo", dict(amplitude_z=0.1, zenith="northern")),
             ("sun-earth", 1, "halo", dict(amplitude_z=0.1, zenith="northern")),
             ("earth-moon", 2, "lyapunov", dict(amplitude_x=0.03))][: ctx.pick(2, 5)]
    systems = {}
    for k, (name, L, fam, kw) in enumerate(specs):
        if not ctx.mine(k):
            continue
        p, s = name.split("-")
        sysm = systems.setdefault(name, System.from_bodies(p, s))
        mu = float(sysm.mu)
        pt = sysm.get_libration_point(L)
        orb = pt.create_orbit(HaloOrbit if fam == "halo" else LyapunovOrbit, **kw)
        try:
            orb.correct()
        except Exception as exc:
            ctx.skip(f"orbit correction failed ({type(exc).__name__}) — C05's concern")
            continue
        x0 = np.asarray(orb.initial_state, dtype=float)
        T = float(orb.period)
        ctx.case(f"orbit:{fam}", [name, L, fam, kw], nontrivial=True)
        ctx.sample({"system": name, "L": L, "family": fam, "x0": x0, "period": T})
        M = np.asarray(orb.monodromy)
        xr, Mr = ref.flow_stm(x0, mu, T)
        nM = np.linalg.norm(Mr, 2)

        def wit():
            return {"system": name, "L": L, "family": fam, "x0": x0, "period": T}
        e = np.abs(M - Mr).max()
        ctx.stat("monodromy_err/|M|^2", e / nM ** 2)
        ctx.check(e <= 1e-6 * nM ** 2, "iv:monodromy == reference STM over one period", lambda: {**wit(), "err": e, "normM": nM})
        f0 = ref.field(x0, mu)
        r = np.linalg.norm(M @ f0 - f0)
        closure = np.linalg.norm(xr - x0)
        ctx.stat("|M f - f|/(|M||f|)", r / (nM * np.linalg.norm(f0)))
        ctx.check(r <= 1e-6 * nM * np.linalg.norm(f0) + 10 * nM * closure, "iv:monodromy maps the orbit's velocity vector to itself",
                  lambda: {**wit(), "res": r, "closure": closure})
        symplectic_checks(ctx, "monodromy", M, wit)
        # reported indices/eigenvalues
        ev_ref = np.linalg.eigvals(Mr)
        nu_ref = 0.5 * (ev_ref + 1 / ev_ref)
        si = orb.stability_indices
        ev = np.asarray(orb.eigenvalues).ravel()
        idx = np.asarray(si, dtype=complex).ravel()
        idx = idx[np.isfinite(idx)]
        ctx.check(idx.size >= 2, "iv:at least two stability indices reported", lambda: {**wit(), "indices": si})
        for v in idx:
            dmin = np.min(np.abs(nu_ref - v))
            ctx.stat("index_err/|nu|", dmin / max(1.0, abs(v)))
            ctx.check(dmin <= 1e-5 * max(1.0, abs(v)) * max(1.0, nM * 1e-3), "iv:each reported index == 1/2(lambda+1/lambda) of a reference pair",
                      lambda: {**wit(), "index": v, "ref": nu_ref})
        # the non-trivial pairs must be represented: largest |nu_ref| appears among the indices
        big = nu_ref[np.argmax(np.abs(nu_ref))]
        ctx.check(np.min(np.abs(idx - big)) <= 1e-5 * abs(big) * max(1.0, nM * 1e-3), "iv:the hyperbolic pair's index is reported",
                  lambda: {**wit(), "indices": idx, "ref_big": big})
        for v in ev[np.isfinite(ev)]:
            dmin = np.min(np.abs(ev_ref - v) / np.maximum(1.0, np.abs(ev_ref)))
            ctx.check(dmin <= 1e-4, "iv:reported eigenvalues belong to the reference spectrum", lambda: {**wit(), "eig": v, "ref": ev_ref})


def generic_monodromy(ctx, n):
    """orbit.monodromy must be the derivative of the period map for ANY stored state and period — not only for states on a
    symmetry plane: GenericOrbit with arbitrary state and user-set period, and re-phased points of corrected orbits."""
    from hiten import System
    from hiten.system import LyapunovOrbit
    from hiten.system.orbits.base import GenericOrbit
    rng = ctx.rng
    mu = 0.012150585609624
    sysm = System.from_mu(mu)
    pt = sysm.get_libration_point(1)
    # (a) arbitrary states, arbitrary "period"
    for i in range(n):
        if not ctx.mine(i):
            continue
        x0 = gen_x0(rng, mu, ["L1", "L2", "generic"][i % 3])
        T = float(rng.uniform(0.3, 2.5))
        try:
            xr, Mr = ref.flow_stm(x0, mu, T, t_eval=np.linspace(0, T, 121))
        except Exception:
            ctx.skip("reference flow failed")
            continue
        if min_dist(xr, mu) < 0.05 or np.linalg.norm(Mr[-1], 2) > 1e4:
            ctx.skip("path within 0.05 of a primary or |Phi|>1e4")
            continue
        orb = GenericOrbit(pt, initial_state=x0)
        orb.period = T
        M = np.asarray(orb.monodromy)
        nM = np.linalg.norm(Mr[-1], 2)
        e = np.abs(M - Mr[-1]).max()
        ctx.case("monodromy:generic-state", [x0.round(10).tolist(), T], nontrivial=abs(x0[1]) > 1e-6)
        ctx.stat("generic_monodromy_err/|M|^2", e / nM ** 2)
        ctx.check(e <= 1e-6 * nM ** 2, "iv:orbit.monodromy == derivative of the period map for an arbitrary stored state and period",
                  {"mu": mu, "x0": x0, "period": T, "err": e, "normM": nM})
    # (b) a corrected orbit re-phased off its symmetry plane: M f = f must still hold
    if ctx.mine(0):
        lyap = pt.create_orbit(LyapunovOrbit, amplitude_x=0.03)
        try:
            lyap.correct()
        except Exception:
            ctx.skip("Lyapunov correction failed — C05's concern")
            return
        x0 = np.asarray(lyap.initial_state, dtype=float)
        T = float(lyap.period)
        for frac in (0.13, 0.37, 0.71):
            xs = ref.flow(x0, mu, [0.0, frac * T])[-1]
            orb = GenericOrbit(pt, initial_state=xs)
            orb.period = T
            M = np.asarray(orb.monodromy)
            _, Mr = ref.flow_stm(xs, mu, T)
            nM = np.linalg.norm(Mr, 2)
            f0 = ref.field(xs, mu)
            r = np.linalg.norm(M @ f0 - f0) / (nM * np.linalg.norm(f0))
            e = np.abs(M - Mr).max() / nM ** 2
            ctx.case("monodromy:rephased-orbit", [frac], nontrivial=True)
            ctx.stat("rephased |M f - f|/(|M||f|)", r)
            ctx.check(r <= 1e-6 and e <= 1e-6, "iv:monodromy of a re-phased periodic orbit maps its velocity vector to itself",
                      {"mu": mu, "phase_fraction": frac, "state": xs, "period": T, "Mf_residual": r, "err_vs_reference": e})


def run(ctx):
    ctx.note("rule", "case = (mu, x0, tf, direction, method/order) STM computation or one corrected periodic orbit; non-trivial = spatial "
                     "state (z != 0); paths >= 0.05 from the primaries, |Phi| <= 1e4")
    guarded(ctx, "pointwise", pointwise, ctx, ctx.pick(60, 1800))
    guarded(ctx, "orbits", orbits, ctx)
    guarded(ctx, "generic_monodromy", generic_monodromy, ctx, ctx.pick(6, 120))
    m = 1 if ctx.nshards > 1 else 4
    ctx.require("i:Phi_T == derivative of the flow (reference variational flow)", 5 * m)
    ctx.require("iii:canonical two-form preserved[fwd+1]", 3 * m)
    if ctx.nshards == 1:
        ctx.require("iv:monodromy == reference STM over one period", 1)
