"""C07 — the polynomial Hamiltonian is the Taylor expansion of the true CR3BP Hamiltonian.

Events: point.hamiltonian(N, form='physical').poly_H (pipeline) and the raw builders; the library's local->synodic maps.
Oracle A (value): exact shifted/scaled reference energy at the mapped point, with a *proved* Legendre remainder bound.
Oracle B (dynamics): Hamilton's equations (independent differentiation of the library's coefficients) pushed through the affine
local->synodic map must equal the reference CR3BP field at the mapped point, within the differentiated remainder bound.
"""
from __future__ import annotations

import numpy as np

from ..core import guarded
from ..oracles import cr3bp as ref
from .. import polyutil as pu

MECH_MAP_COLL = "collinear-local-synodic-map-is-a-mirror-not-the-canonical-map"
MECH_MAP_TRI = "triangular-local-synodic-map-not-the-canonical-map"


def oracle_map(point, idx, c):
    """The canonical local->synodic map derived independently (Jorba-Masdemont / Gomez frames rotated by pi into the
    frame with primaries at (-mu,0,0), (1-mu,0,0)); used only to *classify* a failure of the library's own map."""
    mu = float(point.mu)
    c = np.asarray(c, dtype=float)
    if idx <= 3:
        g = float(point.dynamics.gamma)
        sgn = -1.0 if idx in (1, 2) else 1.0
        a = {1: -1 + g, 2: -1 - g, 3: g}[idx]
        XG = sgn * g * c[0] + mu + a
        YG = sgn * g * c[1]
        VXG = sgn * g * (c[3] + c[1])
        VYG = sgn * g * (c[4] - c[0])
        return np.array([-XG, -YG, g * c[2], -VXG, -VYG, g * c[5]])
    sgn = 1.0 if idx == 4 else -1.0
    a, b = mu - 0.5, -sgn * np.sqrt(3) / 2
    return np.array([-(c[0] + a), -(c[1] + b), c[2], -(c[3] + c[1]), -(c[4] - c[0]), c[5]])


def affine_parts(Smap, point):
    b = Smap(point, np.zeros(6))
    A = np.zeros((6, 6))
    for j in range(6):
        e = np.zeros(6)
        e[j] = 1.0
        A[:, j] = Smap(point, e) - b
    return A, b


def remainder_bounds(mu, gam, prim_local, rho, N):
    """Proved bounds on the truncated Legendre series: value and gradient (local units)."""
    val = 0.0
    grad = 0.0
    for m, d in prim_local:
        q = rho / d
        if q >= 0.95:
            return np.inf, np.inf
        val += m * q ** (N + 1) / (d * (1 - q))
        # d/drho of sum_{n>N} rho^n/d^(n+1) (|grad(rho^n P_n)| <= n(n+1)/2 rho^(n-1) <= loose: use n^2)
        s = 0.0
        for n in range(N + 1, N + 400):
            t = n * (n + 1) / 2 * q ** (n - 1) / d ** 2
            s += t
            if t < 1e-18 * max(s, 1e-300):
                break
        grad += m * s
    return val / gam ** 3, grad / gam ** 3


def check_point(ctx, label, sysm, idx, degrees, n_dir):
    from hiten.algorithms.hamiltonian import transforms as tr
    rng = ctx.rng
    mu = float(sysm.mu)
    pt = sysm.get_libration_point(idx)
    coll = idx <= 3
    Smap = tr._local2synodic_collinear if coll else tr._local2synodic_triangular
    gam = float(pt.dynamics.gamma) if coll else 1.0
    A_lib, b_lib = affine_parts(Smap, pt)
    A_or, b_or = affine_parts(lambda p, c: oracle_map(p, idx, c), pt)
    posL = np.asarray(pt.position, dtype=float)
    # primaries in local units: distance / gamma
    d1 = np.linalg.norm(posL - np.array([-mu, 0, 0])) / gam
    d2 = np.linalg.norm(posL - np.array([1 - mu, 0, 0])) / gam
    prim = [(1 - mu, d1), (mu, d2)]
    dmin = min(d1, d2)
    # library map must send the origin to the point itself (position) with zero velocity
    yL = np.concatenate([posL, np.zeros(3)])
    o = np.abs(b_lib - yL).max()
    mech0 = (MECH_MAP_COLL if coll else MECH_MAP_TRI) if np.abs(b_or - yL).max() <= 1e-9 else None
    ctx.check(o <= 1e-9, "S:local origin maps to the libration point at rest", {"point": label, "S(0)": b_lib, "L": yL}, mech0)
    for N in degrees:
        try:
            try:
                ham = pt.hamiltonian(N, form="physical")
                blocks = ham.poly_H
                ctx.count("0:built through the pipeline")
            except NotImplementedError:
                # the pipeline declines this point (L3/L4/L5 normal forms unsupported): observe the raw builder instead
                from hiten.algorithms.hamiltonian.hamiltonian import (_build_physical_hamiltonian_collinear,
                                                                      _build_physical_hamiltonian_triangular)
                blocks = (_build_physical_hamiltonian_collinear if coll else _build_physical_hamiltonian_triangular)(pt, N)
                ctx.count("0:built through the raw builder (pipeline declined)")
            Hd = pu.unpack([np.asarray(b) for b in blocks])
        except Exception as exc:
            ctx.check(False, "0:physical Hamiltonian is built", {"point": label, "N": N, "error": (type(exc).__name__ + str(exc))[:300]})
            continue
        ctx.case(f"hamiltonian:L{idx}:N{N}", [label, N], nontrivial=True)
        ctx.check(all(abs(v.imag) <= 1e-14 * (1 + abs(v)) for v in Hd.values()), "0:physical Hamiltonian has real coefficients", {"point": label, "N": N})
        Hd = {k: v.real for k, v in Hd.items()}
        E0 = {"lib": ref.energy(b_lib, mu), "or": ref.energy(b_or, mu)}
        agg = []
        for _ in range(n_dir):
            d = rng.normal(size=6)
            d /= np.linalg.norm(d[:3])
            d[3:] *= rng.uniform(0.2, 1.0)
            errsA = {"lib": [], "or": []}
            errsB = {"lib": [], "or": []}
            bnds = []
            for r in (0.3 * dmin, 0.15 * dmin, 0.075 * dmin):
                c = r * d
                rho = np.linalg.norm(c[:3])
                bv, bg = remainder_bounds(mu, gam, prim, rho, N)
                bnds.append((bv, bg))
                Hval = float(np.real(pu.eval_dict(Hd, c)))
                cdot = pu.ham_field(Hd, c)
                for key, (A, b) in (("lib", (A_lib, b_lib)), ("or", (A_or, b_or))):
                    s = A @ c + b
                    Eloc = (ref.energy(s, mu) - E0[key]) / gam ** 2
                    errsA[key].append(abs(Hval - Eloc))
                    errsB[key].append(np.abs(A @ cdot - ref.field(s, mu)).max() / gam)
            ctx.case(f"direction:L{idx}:N{N}", [label, N, d.round(8).tolist()], nontrivial=True)
            if len(ctx.samples) < 4:
                ctx.sample({"point": label, "mu": mu, "N": N, "direction": d, "radii": [0.3 * dmin, 0.15 * dmin, 0.075 * dmin],
                            "value_err": errsA["lib"], "value_bound": [b_[0] for b_ in bnds], "field_err": errsB["lib"], "field_bound": [b_[1] for b_ in bnds]})

            def wit():
                return {"point": label, "mu": mu, "N": N, "direction": d, "radii": [0.3 * dmin, 0.15 * dmin, 0.075 * dmin],
                        "value_err_lib_map": errsA["lib"], "value_err_oracle_map": errsA["or"], "value_bounds": [b[0] for b in bnds],
                        "field_err_lib_map": errsB["lib"], "field_err_oracle_map": errsB["or"], "field_bounds": [b[1] for b in bnds]}
            scaleH = sum(abs(v) * (0.3 * dmin) ** sum(k) for k, v in Hd.items())
            floorA = 1e-12 * (1 + scaleH) / min(1.0, gam ** 2) * 1e0 + 1e-13 / gam ** 2
            floorB = 1e-11 * (1 + scaleH) / min(1.0, gam)
            okA_lib = all(e <= 1.05 * bv + floorA for e, (bv, _) in zip(errsA["lib"], bnds))
            okA_or = all(e <= 1.05 * bv + floorA for e, (bv, _) in zip(errsA["or"], bnds))
            okB_lib = all(e <= 1.05 * bg + floorB for e, (_, bg) in zip(errsB["lib"], bnds))
            okB_or = all(e <= 1.05 * bg + floorB for e, (_, bg) in zip(errsB["or"], bnds))
            ctx.stat("A:value_err/bound[lib map]", max(e / (bv + floorA) for e, (bv, _) in zip(errsA["lib"], bnds)))
            ctx.stat("A:value_err/bound[oracle map]", max(e / (bv + floorA) for e, (bv, _) in zip(errsA["or"], bnds)))
            ctx.stat("B:field_err/bound[oracle map]", max(e / (bg + floorB) for e, (_, bg) in zip(errsB["or"], bnds)))
            mechA = (MECH_MAP_COLL if coll else MECH_MAP_TRI) if (not okA_lib and okA_or) else None
            mechB = (MECH_MAP_COLL if coll else MECH_MAP_TRI) if (not okB_lib and okB_or and okA_or) else None
            ctx.check(okA_lib, "A:H_N(c) == exact shifted, scaled energy at the mapped point up to the Legendre remainder", wit, mechA)
            ctx.check(okB_lib, "B:Hamilton equations pushed through the local->synodic map == CR3BP field up to the differentiated remainder", wit, mechB)
            # the polynomial itself (independent of the library's point map): judged through the oracle map
            ctx.check(okA_or, "A':polynomial is the Taylor expansion of the exact Hamiltonian (canonical map derived independently)", wit)
            ctx.check(okB_or, "B':Hamilton equations of the polynomial are the CR3BP dynamics (canonical map derived independently)", wit)
            agg.append((errsA["or"], floorA))
        # decay exponent, aggregated over directions (a single direction can sit near a zero of the leading Legendre term)
        if agg:
            e0 = max(e[0] for e, _ in agg)
            e2 = max(e[2] for e, _ in agg)
            fl = max(f for _, f in agg)
            if e0 > 1e3 * fl and e2 > 10 * fl:
                rate = np.log2(e0 / e2) / 2
                ctx.stat("A:max (N+1) - decay_exponent", (N + 1) - rate)
                ctx.check(rate >= N + 1 - 0.5, "A':truncation error (sup over directions) decays like r^(N+1)",
                          {"point": label, "N": N, "sup_err_r0": e0, "sup_err_r0/4": e2, "rate": rate})
                ctx.count("A':conclusive decay rate")
    return True


def run(ctx):
    from hiten import System
    ctx.note("rule", "case = one (system, point, degree) Hamiltonian or one random local direction evaluated at three radii (0.3, 0.15, 0.075 of the distance "
                     "to the nearest primary); all non-trivial (positions and momenta non-zero)")
    work = []
    systems = [("earth-moon", None), ("mu=0.04", 0.04), ("sun-earth", None)]
    if not ctx.quick:
        systems += [("mu=0.001", 1e-3), ("mu=0.3", 0.3), ("mu=0.5", 0.5), ("sun-jupiter", None), ("mu=1e-5", 1e-5)]
    for name, m in systems:
        for idx in (1, 2, 3, 4, 5):
            work.append((name, m, idx))
    built = {}
    for k, (name, m, idx) in enumerate(work):
        if not ctx.mine(k):
            continue

        def one():
            if name not in built:
                built[name] = System.from_mu(m) if m is not None else System.from_bodies(*name.split("-"))
            degrees = ctx.pick([2, 4, 6] if idx in (1, 2) else [3, 5], [2, 3, 4, 5, 6, 8, 10])
            check_point(ctx, f"{name}:L{idx}", built[name], idx, degrees, ctx.pick(6, 60))
        guarded(ctx, f"{name}:L{idx}", one)
    # history class: several systems whose mass ratios are all tiny or nearly equal, built in ONE process at the same point type and
    # degree (a memo of built expansions keyed by a rounded mu, by names or by degree only hands a later system an earlier one's
    # polynomial; the mismatch is O(dc_2 r^2), visible against the degree-6 remainder at the smaller radii)
    def interleaved():
        em = 0.012150585609624
        group = [("sun-mars", None), ("sun-mercury", None), ("sun-earth", None), ("mu=3.0404234e-06", 3.0404234e-6),
                 ("earth-moon", None), (f"mu={em * (1 + 3e-6)!r}", em * (1 + 3e-6))]
        if not ctx.quick:
            group += [("mars-deimos", None), ("mu=1e-07", 1e-7), ("mu=0.04", 0.04), (f"mu={0.04 * (1 - 2e-5)!r}", 0.04 * (1 - 2e-5))]
        for name, m in group:
            if name not in built:
                built[name] = System.from_mu(m) if m is not None else System.from_bodies(*name.split("-"))
        for idx in ctx.pick((1,), (1, 2, 3)):
            for name, m in group:
                check_point(ctx, f"{name}:L{idx} [several systems built]", built[name], idx, [6], ctx.pick(3, 12))
                ctx.count("H:points examined with several nearly equal / all-tiny mass ratios built in one process")
    if ctx.mine(len(work)):
        guarded(ctx, "interleaved systems", interleaved)
        ctx.require("H:points examined with several nearly equal / all-tiny mass ratios built in one process", 4)
    ctx.require("A':polynomial is the Taylor expansion of the exact Hamiltonian (canonical map derived independently)", 30 if ctx.nshards == 1 else 5)
    ctx.require("B':Hamilton equations of the polynomial are the CR3BP dynamics (canonical map derived independently)", 30 if ctx.nshards == 1 else 5)
    ctx.require("A':conclusive decay rate", 5 if ctx.nshards == 1 else 1)
