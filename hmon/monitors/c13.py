"""C13 -- continuation produces valid members, respects bounds and reports what happened.

Back-end monitor (fault enumeration).  ``_PredictorCorrectorContinuationBackend.run`` is driven with a harness-built
``ContinuationBackendRequest`` whose corrector is a scripted callable (accept / return failure / raise) that logs every
prediction it receives: the history is recorded at the client boundary.  For a pairwise covering set of configurations
ALL outcome sequences of length L are enumerated (two tails: fail-for-ever and accept-for-ever; sequences whose consumed
prefix was already executed are the same execution and are skipped).  Oracle = hmon.oracles.contmodel fed with the observed
history (lock-step) plus clause-wise predicates, then a whole-trace comparison with the model's own run.

End-to-end monitor.  ``orbit.generate(options)`` for halo / planar Lyapunov seeds at Earth-Moon L1: every member closes
under an independent reference flow with its OWN period, the period equals twice the independently located half period,
periods differ, the continuation parameter advances monotonically, counters equal the corrector events observed at
``PeriodicOrbit.correct``, only the last member may lie outside the target.
"""
from __future__ import annotations

import itertools
from collections import Counter
from dataclasses import dataclass

import numpy as np

from ..core import guarded
from ..oracles import contmodel as cm

LEVEL = "fault_enumeration"

MECH_F10 = "continuation-runs-past-target"
MECH_LYAP_Y = "lyapunov-default-continuation-steps-off-symmetry-plane"

PRED_TOL = 1e-12          # |prediction - model prediction|_inf relative to max(1, |last|_inf); measured <= 5e-16
HARD_CAP = 80             # corrector calls after which a run is declared non-terminating (legit maximum is 6*4+4 = 28)


class _Runaway(BaseException):
    """Raised by the scripted corrector when a run does not terminate (BaseException: must not be swallowed)."""


class PolicyError(RuntimeError):
    pass


# ============================================================================ configurations (pairwise covering)
def shrink_03(step):
    return 0.3 * np.asarray(step, dtype=float)


def shrink_raises(step):
    raise PolicyError("scripted shrink policy failure")


def shrink_grow3(step):      # hostile: tries to enlarge the step; only the upper clamp keeps it within step_max
    return 3.0 * np.asarray(step, dtype=float)


def shrink_tiny(step):       # tries to go far below step_min
    return 1e-6 * np.asarray(step, dtype=float)


POLICIES = {"none": None, "x0.3": shrink_03, "raises": shrink_raises, "x3": shrink_grow3, "x1e-6": shrink_tiny}
SHRINKING = ("none", "x0.3", "raises", "x1e-6")

FACTORS = {
    "stepper": ["natural", "secant"],
    "stepkind": ["1d+", "1d-", "2d++", "2d+-", "2d0"],
    "target": ["inf", "k1.5", "k3.5", "box"],
    "max_members": [1, 2, 4, 7],
    "max_retries": [0, 1, 3],
    "clamp": ["default", "tightmin", "maxeqstep"],
    "policy": list(POLICIES),
    "fail_mode": ["return", "raise", "alternate"],
    "move": ["identity", "turn", "hairpin"],
}


def pairwise_rows(factors, rng, n_min):
    """Greedy pairwise covering array (every pair of levels of every two factors appears in some row)."""
    names = list(factors)
    uncovered = set()
    for a, b in itertools.combinations(range(len(names)), 2):
        for x in factors[names[a]]:
            for y in factors[names[b]]:
                uncovered.add((a, x, b, y))
    rows = []

    def covers(row):
        return {(a, row[a], b, row[b]) for a, b in itertools.combinations(range(len(names)), 2)} & uncovered

    while uncovered:
        pool = sorted(uncovered, key=repr)
        best, best_c = None, set()
        for _ in range(40):
            a, x, b, y = pool[int(rng.integers(len(pool)))]
            row = [factors[n][int(rng.integers(len(factors[n])))] for n in names]
            row[a], row[b] = x, y
            c = covers(row)
            if len(c) > len(best_c):
                best, best_c = row, c
        rows.append(best)
        uncovered -= best_c
    n_cover = len(rows)
    while len(rows) < n_min:
        rows.append([factors[n][int(rng.integers(len(factors[n])))] for n in names])
    return [dict(zip(names, r)) for r in rows], n_cover


@dataclass
class Config:
    levels: dict
    seed: np.ndarray
    step: np.ndarray
    param_idx: tuple
    target: np.ndarray
    step_min: float
    step_max: float

    @property
    def stepper(self):
        return self.levels["stepper"]

    @property
    def max_members(self):
        return int(self.levels["max_members"])

    @property
    def max_retries(self):
        return int(self.levels["max_retries"])

    def spec(self) -> cm.Spec:
        return cm.Spec(self.stepper, self.seed, self.step, self.param_idx, self.target, self.max_members,
                       self.max_retries, self.step_min, self.step_max, POLICIES[self.levels["policy"]])

    def describe(self):
        return {"levels": dict(self.levels), "seed": self.seed.tolist(), "step": self.step.tolist(),
                "param_idx": list(self.param_idx), "target": self.target.tolist(),
                "step_min": self.step_min, "step_max": self.step_max}

    @staticmethod
    def from_dict(d):
        return Config(dict(d["levels"]), np.asarray(d["seed"], float), np.asarray(d["step"], float),
                      tuple(d["param_idx"]), np.asarray(d["target"], float), float(d["step_min"]), float(d["step_max"]))


def make_config(levels, rng) -> Config:
    kind = levels["stepkind"]
    a = float(rng.uniform(0.05, 0.2))
    if kind.startswith("1d"):
        dim, m = 3, 1
        step = np.array([a if kind == "1d+" else -a])
    else:
        dim, m = 4, 2
        if kind == "2d++":
            step = np.array([a, 0.7 * a])
        elif kind == "2d+-":
            step = np.array([a, -1.3 * a])
        else:
            step = np.array([a, 0.0]) if rng.random() < 0.5 else np.array([0.0, -a])
    idx = tuple(sorted(int(i) for i in rng.choice(dim, size=m, replace=False)))
    seed = rng.uniform(-1.0, 1.0, dim)
    nz = np.abs(step[step != 0.0])
    smin_abs, smax_abs, snorm = float(nz.min()), float(nz.max()), float(np.linalg.norm(step))
    cl = levels["clamp"]
    if cl == "default":
        step_min, step_max = 1e-10, 1.0
    elif cl == "tightmin":
        step_min, step_max = 0.4 * smin_abs, 1.5 * smax_abs
    else:
        step_min, step_max = 0.02 * smin_abs, smax_abs
    p0 = seed[list(idx)]
    tg = levels["target"]
    lo, hi = np.empty(m), np.empty(m)
    for j in range(m):
        s = step[j]
        if tg == "inf":
            a_, b_ = -1e9, 1e9
        elif s == 0.0:
            w = (0.3 if tg == "box" else 10.0) * snorm
            a_, b_ = p0[j] - w, p0[j] + w
        else:
            k, back = {"k1.5": (1.5371, 6.0), "k3.5": (3.4619, 6.0), "box": (2.6183, 0.2)}[tg]
            a_, b_ = sorted((p0[j] + k * s, p0[j] - back * s))
        lo[j], hi[j] = a_, b_
    return Config(dict(levels), seed, step, idx, np.stack([lo, hi]), float(step_min), float(step_max))


# ============================================================================ scripted corrector (client boundary)
def move(cfg: Config, prediction, last, i):
    """What the scripted corrector returns for an accepted prediction (a deterministic function of the history)."""
    if cfg.levels["move"] == "identity":
        return prediction.copy()
    u = np.cos(1.3 * i + 0.9 * np.arange(prediction.size))
    u /= np.linalg.norm(u)
    if cfg.levels["move"] == "hairpin" and i % 3 == 1:
        # the corrector lands BEHIND the last member (a fold of the family / a branch jump): the secant through the last two members
        # then turns by more than 90 degrees against the previous one; the statement still asks for the offset along that secant
        return last - 0.6 * (prediction - last) + 0.2 * float(np.linalg.norm(prediction - last)) * u
    return prediction + 0.25 * float(np.linalg.norm(prediction - last)) * u     # displacement stays >= 0.75 |step|


def fail_flavour(cfg: Config, i):
    fm = cfg.levels["fail_mode"]
    return fm if fm != "alternate" else ("raise" if i % 2 else "return")


class Script:
    def __init__(self, cfg: Config, seq: str, tail: str):
        self.cfg, self.seq, self.tail = cfg, seq, tail
        self.calls = []                      # (prediction, "A"|"F", corrected|None, flavour)
        self.last = cfg.seed.copy()

    def outcome(self, i):
        return self.seq[i] if i < len(self.seq) else self.tail

    def __call__(self, prediction):
        i = len(self.calls)
        if i >= HARD_CAP:
            raise _Runaway()
        pred = np.array(prediction, dtype=float)
        if self.outcome(i) == "A":
            corrected = move(self.cfg, pred, self.last, i)
            self.calls.append((pred, "A", corrected, "accept"))
            self.last = corrected
            res = float(np.linalg.norm(corrected - pred))
            if i % 2:
                return corrected.copy(), res, True
            return corrected.copy(), res, np.bool_(True), {"period": 1.0 + i}
        fl = fail_flavour(self.cfg, i)
        self.calls.append((pred, "F", None, fl))
        if fl == "raise":
            raise RuntimeError("scripted corrector failure")
        return pred + 123.0, (float("nan") if i % 3 else 1e3), (False if i % 4 else np.bool_(False))

    def model_corrector(self):
        """The same script as a contmodel corrector (for the model's own run)."""
        state = {"last": self.cfg.seed.copy()}

        def c(i, p):
            if self.outcome(i) == "A":
                x = move(self.cfg, p, state["last"], i)
                state["last"] = x
                return True, x
            return False, None
        return c


# ============================================================================ contracts on the stepper units
class ContractBreach(AssertionError):
    pass


def _nz(v):
    return np.asarray(v, dtype=float) != 0.0


def clamp_keeps_sign(vec, result):
    v, r = np.atleast_1d(np.asarray(vec, float)), np.atleast_1d(np.asarray(result, float))
    return bool(np.all(np.sign(r[_nz(v)]) == np.sign(v[_nz(v)])))


def clamp_magnitude_within_bounds(self, vec, result):
    v, r = np.atleast_1d(np.asarray(vec, float)), np.atleast_1d(np.asarray(result, float))
    m = np.abs(r[_nz(v)])
    return bool(np.all(m >= self._step_min * (1 - 1e-15)) and np.all(m <= self._step_max * (1 + 1e-15)))


def clamp_identity_inside_bounds(self, vec, result):
    v, r = np.atleast_1d(np.asarray(vec, float)), np.atleast_1d(np.asarray(result, float))
    inside = (np.abs(v) >= self._step_min) & (np.abs(v) <= self._step_max)
    return bool(np.all(r[inside] == v[inside]))


def reject_result_within_bounds(self, step, result):
    r = np.atleast_1d(np.asarray(result, float))
    m = np.abs(r[_nz(r)])
    return bool(np.all(m >= self._step_min * (1 - 1e-15)) and np.all(m <= self._step_max * (1 + 1e-15)))


def reject_halves_without_policy(self, step, result):
    if self._shrink_policy is not None:
        return True
    s, r = np.atleast_1d(np.asarray(step, float)), np.atleast_1d(np.asarray(result, float))
    want = np.clip(0.5 * np.abs(s), self._step_min, self._step_max)
    k = _nz(s)
    return bool(np.all(np.abs(np.abs(r[k]) - want[k]) <= 1e-15 * want[k]))


def _breach_factory(name):
    def error():
        return ContractBreach(name)
    return error


CLAMP_CONDITIONS = [clamp_keeps_sign, clamp_magnitude_within_bounds, clamp_identity_inside_bounds]
REJECT_CONDITIONS = [reject_result_within_bounds, reject_halves_without_policy]


class Contracts:
    """icontract post-conditions (plain wrappers when icontract cannot be imported) on _clamp_step / on_reject."""

    def __init__(self):
        self.counts = Counter()
        self.breaches = []
        self.engine = "none"
        self._orig = {}

    def _wrap(self, name, original, conditions):
        import inspect
        try:
            import icontract
            self.engine = "icontract"
            decorated = original
            for cond in conditions:
                decorated = icontract.ensure(cond, error=_breach_factory(cond.__name__))(decorated)
            use_plain = False
        except Exception:
            self.engine = "plain"
            decorated, use_plain = original, True
        outer = self

        def plain_eval(self_, args, kwargs, result):
            bound = inspect.signature(original).bind(self_, *args, **kwargs).arguments
            bound = dict(bound)
            bound["result"] = result
            for cond in conditions:
                need = inspect.signature(cond).parameters
                if not cond(**{k: bound[k] for k in need}):
                    raise ContractBreach(cond.__name__)

        def wrapper(self_, *args, **kwargs):
            outer.counts[name] += 1
            try:
                if use_plain:
                    result = original(self_, *args, **kwargs)
                    plain_eval(self_, args, kwargs, result)
                    return result
                return decorated(self_, *args, **kwargs)
            except ContractBreach as e:
                if len(outer.breaches) < 5:
                    outer.breaches.append({"unit": name, "condition": str(e), "args": repr(args)[:200],
                                           "kwargs": {k: repr(v)[:120] for k, v in kwargs.items() if k != "proposal"},
                                           "step_min": getattr(self_, "_step_min", None), "step_max": getattr(self_, "_step_max", None)})
                outer.counts["breach:" + str(e)] += 1
                return original(self_, *args, **kwargs)
        return wrapper

    def __enter__(self):
        from hiten.algorithms.continuation.stepping.base import _ContinuationStepBase as B
        self._cls = B
        try:
            for name, conds in (("_clamp_step", CLAMP_CONDITIONS), ("on_reject", REJECT_CONDITIONS)):
                orig = B.__dict__[name]
                self._orig[name] = orig
                setattr(B, name, self._wrap(name, orig, conds))
        except Exception:
            self.__exit__(None, None, None)
            self.engine = "unavailable"
        return self

    def __exit__(self, *exc):
        for name, orig in self._orig.items():
            setattr(self._cls, name, orig)
        self._orig = {}
        return False


# ============================================================================ driving the real back end
def make_backend(stepper):
    """The back end wired exactly as the library's pipeline wires it for this stepper."""
    try:
        from hiten.algorithms.continuation.base import ContinuationPipeline
        from hiten.algorithms.continuation.config import OrbitContinuationConfig
        pipe = ContinuationPipeline.with_default_engine(config=OrbitContinuationConfig(state=None, stepper=stepper))
        be = getattr(pipe, "_backend", None)
        if be is not None and hasattr(be, "run"):
            return be
    except Exception:
        pass
    from hiten.algorithms.continuation.backends.pc import _PredictorCorrectorContinuationBackend
    from hiten.algorithms.continuation.stepping import make_natural_stepper, make_secant_stepper
    from hiten.algorithms.continuation.stepping.support import _NullStepSupport, _VectorSpaceSecantSupport
    if stepper == "secant":
        return _PredictorCorrectorContinuationBackend(stepper_factory=make_secant_stepper(), support_factory=_VectorSpaceSecantSupport)
    return _PredictorCorrectorContinuationBackend(stepper_factory=make_natural_stepper(), support_factory=_NullStepSupport)


def build_request(cfg: Config, corrector):
    from hiten.algorithms.continuation.types import ContinuationBackendRequest
    idx = list(cfg.param_idx)

    def predictor(last, step):           # the natural predictor of the orbit interface: step added to the parameters
        x = np.array(last, dtype=float)
        x[idx] = x[idx] + np.asarray(step, dtype=float)
        return x

    def getter(v):
        return np.asarray(v, dtype=float)[idx]

    def representation(v):
        return np.asarray(v, dtype=float)

    return ContinuationBackendRequest(
        seed_repr=cfg.seed.copy(), stepper_fn=(representation if cfg.stepper == "secant" else predictor),
        predictor_fn=predictor, parameter_getter=getter, corrector=corrector, step=cfg.step.copy(),
        target=cfg.target.copy(), max_members=cfg.max_members, max_retries_per_step=cfg.max_retries,
        shrink_policy=POLICIES[cfg.levels["policy"]], step_min=cfg.step_min, step_max=cfg.step_max, metadata={})


def _trace_equal(calls, family, tr: cm.Trace, tol):
    if "".join(c[1] for c in calls) != tr.outcomes or len(family) != len(tr.family):
        return False
    for c, p in zip(calls, tr.predictions):
        if c[0].shape != p.shape or np.max(np.abs(c[0] - p)) > tol:
            return False
    for a, b in zip(family, tr.family):
        a = np.asarray(a, dtype=float)
        if a.shape != b.shape or np.max(np.abs(a - b)) > tol:
            return False
    return True


def run_case(ctx, backends, cfg: Config, seq: str, tail: str, sample=False):
    """One scripted run of the real back end, judged clause by clause. Returns the consumed outcome string."""
    script = Script(cfg, seq, tail)
    be = backends[cfg.stepper]
    resp, exc, runaway = None, None, False
    try:
        resp = be.run(request=build_request(cfg, script))
    except _Runaway:
        runaway = True
    except Exception as e:          # noqa: BLE001 - every exception of the unit under test is an observation
        exc = e
    calls = script.calls
    consumed = "".join(c[1] for c in calls)
    cls = f"backend:{cfg.stepper}:{cfg.levels['move']}"
    ctx.case(cls, [cfg.describe(), consumed, tail if len(consumed) > len(seq) else ""],
             nontrivial=("A" in consumed and "F" in consumed))

    def wit(**extra):
        w = {"config": cfg.describe(), "seq": seq, "tail": tail, "consumed": consumed,
             "predictions": [c[0] for c in calls[:14]], "flavours": [c[3] for c in calls[:14]]}
        if resp is not None:
            w["family"] = [np.asarray(f, float) for f in resp.family_repr[:9]]
            w["info"] = {k: resp.info.get(k) for k in ("accepted_count", "rejected_count", "iterations", "final_step")}
        w.update(extra)
        return w

    if runaway:
        ctx.check(False, "Z:run terminates", lambda: wit(calls=len(calls)))
        return consumed
    if exc is not None:
        if isinstance(exc, PolicyError) and cfg.levels["policy"] == "raises":
            ctx.skip("unusable shrink policy: error propagated (text silent)")
            return consumed
        ctx.check(False, "R:run returns a response", lambda: wit(error=repr(exc)[:300]))
        return consumed
    ctx.check(True, "Z:run terminates")
    ctx.check(True, "R:run returns a response")

    family = [np.asarray(f, dtype=float) for f in resp.family_repr]
    info = resp.info
    results = []                    # (clause, ok, extra) ; flushed at the end so that classifiers see the whole run

    def chk(ok, clause, **extra):
        results.append((clause, bool(ok), extra))
        return bool(ok)

    # ---- lock-step with the model (target ignored for stopping: the target clauses are judged separately)
    m = cm.ContModel(cfg.spec().relaxed())
    desync = False
    calls_after_exit = 0
    prev_off = None
    shrinking = cfg.levels["policy"] in SHRINKING
    nzp = [cfg.param_idx[j] for j, v in enumerate(cfg.step) if v != 0.0]
    for i, (pred, o, corrected, fl) in enumerate(calls):
        r = m.stop_reason()
        if r == "member-limit":
            ctx.skip("corrector called with the member limit reached (text silent)")
            desync = True
            break
        if m.last_event == "reject":
            if not chk(m.consecutive_failures <= cfg.max_retries, "G:no further attempt after max_retries+1 consecutive failures",
                       call=i, consecutive_failures=m.consecutive_failures):
                desync = True
                break
        if m.first_outside is not None:
            calls_after_exit += 1
        res = m.residual(pred)
        if res != res:
            ctx.skip("secant undefined (coincident members)")
            desync = True
            break
        last = m.family[-1]
        tol = PRED_TOL * max(1.0, float(np.max(np.abs(last))))
        after_reject = m.last_event == "reject"
        if after_reject:
            clause = "K:after a failed correction the step is shrink(step) clamped to [step_min, step_max]"
        elif cfg.stepper == "natural":
            clause = "P:natural prediction = last member + current step in the continuation parameters"
        else:
            clause = "P:secant prediction = last member + unit secant * |step|"
        ctx.stat(f"prediction_residual[{cfg.stepper}]", res)
        if not chk(res <= tol, clause, call=i, expected=m.prediction(), observed=pred, model_step=m.step.copy(), last=last):
            desync = True
            break
        # weak, model-free forms of the step clauses (read off the predictions alone)
        off = pred - last
        # offsets are differences of O(1) numbers: allow their rounding (matters when the step sits at step_min = 1e-10)
        slack = 16 * np.finfo(float).eps * max(1.0, float(np.max(np.abs(last))), float(np.max(np.abs(pred)))) * np.sqrt(pred.size)
        if pred.shape == last.shape:
            if cfg.stepper == "natural":
                mag = np.abs(off[nzp])
                chk(np.all(mag >= cfg.step_min * (1 - 1e-9) - slack) and np.all(mag <= cfg.step_max * (1 + 1e-9) + slack),
                    "W:step magnitudes stay within [step_min, step_max]", call=i, offset=off)
                if after_reject and shrinking and prev_off is not None:
                    chk(np.all(mag <= np.abs(prev_off[nzp]) * (1 + 1e-9) + slack), "W:step does not grow after a failed correction",
                        call=i, offset=off, previous=prev_off)
            else:
                mag = float(np.linalg.norm(off))
                k = len(nzp)
                chk(mag >= np.sqrt(k) * cfg.step_min * (1 - 1e-9) - slack and
                    mag <= np.sqrt(k * cfg.step_max ** 2 + (len(cfg.step) - k) * cfg.step_min ** 2) * (1 + 1e-9) + slack,
                    "W:step magnitudes stay within [step_min, step_max]", call=i, offset=off)
                if after_reject and shrinking and prev_off is not None:
                    chk(mag <= float(np.linalg.norm(prev_off)) * (1 + 1e-9) + slack, "W:step does not grow after a failed correction",
                        call=i, offset=off, previous=prev_off)
        prev_off = off
        if o == "A":
            m.accept(corrected)
            prev_off = None
        else:
            m.reject()

    if not desync:
        r = m.stop_reason()
        if m.last_event == "reject":
            chk(m.consecutive_failures == cfg.max_retries + 1, "G:gives up only after max_retries+1 consecutive failures",
                consecutive_failures=m.consecutive_failures)
        else:
            chk(r == "member-limit" or m.first_outside is not None,
                "S:run ends only at the member limit, at a target exit or by giving up", members=len(m.family))
        # what the response says
        chk(len(family) == len(m.family) and all(a.shape == b.shape and np.array_equal(a, b) for a, b in zip(family, m.family)),
            "F:family is the seed followed by the accepted corrections in order", n_accepts=consumed.count("A"))
        chk(info.get("accepted_count") == len(family), "C:accepted_count == |family|")
        chk(info.get("accepted_count") == 1 + consumed.count("A"), "C:accepted_count == 1 + number of accepted corrections")
        chk(info.get("rejected_count") == consumed.count("F"), "C:rejected_count == number of failed corrections")
        chk(info.get("iterations") == len(calls), "C:iterations == number of corrector calls")
        pv = info.get("parameter_values", ())
        chk(len(pv) == len(family) and all(np.array_equal(np.asarray(p, float), f[list(cfg.param_idx)]) for p, f in zip(pv, family)),
            "C:reported parameter_values are the parameters of the members")
        fs = np.atleast_1d(np.asarray(info.get("final_step", np.nan), dtype=float))
        if fs.shape == cfg.step.shape:
            k = cfg.step != 0.0
            chk(np.all(np.abs(fs[k]) >= cfg.step_min * (1 - 1e-15)) and np.all(np.abs(fs[k]) <= cfg.step_max * (1 + 1e-15)),
                "W:step magnitudes stay within [step_min, step_max]", final_step=fs)
    chk(len(family) <= cfg.max_members, "M:family never exceeds max_members", members=len(family))

    # ---- target clauses
    t_ok = True
    first_out = m.first_outside
    judged_target = not desync and not m.ambiguous_boundary
    if m.ambiguous_boundary:
        ctx.skip("member on a target bound (text silent)")
    others_ok = all(ok for _, ok, _ in results)
    if judged_target:
        t1 = first_out is None or first_out == len(m.family) - 1
        t2 = calls_after_exit == 0
        t_ok = t1 and t2
        mech = None
        if not t_ok and others_ok:
            relaxed = cm.simulate(cfg.spec().relaxed(), script.model_corrector(), max_calls=HARD_CAP)
            if (_trace_equal(calls, family, relaxed, 1e-11) and first_out is not None
                    and (first_out < len(family) - 1 or calls_after_exit > 0)):
                mech = MECH_F10         # every clause but the target clause holds, a non-last member is outside
        tw = dict(first_member_outside=first_out, members=len(family), calls_after_exit=calls_after_exit,
                  params=[f[list(cfg.param_idx)] for f in family[:9]])
        ctx.check(t1, "T:only the last member may lie outside the target interval", lambda: wit(**tw), mech)
        ctx.check(t2, "T:no corrector call after a member left the target interval", lambda: wit(**tw), mech)
        if first_out is not None:
            ctx.count("T:runs in which a member left the target")
    # ---- whole trace against the model's own run (guards the clause-wise logic itself)
    if not desync and others_ok and not m.ambiguous_boundary and t_ok:
        strict = cm.simulate(cfg.spec(), script.model_corrector(), max_calls=HARD_CAP)
        same = _trace_equal(calls, family, strict, 1e-11) and strict.accepted == info.get("accepted_count") \
            and strict.rejected == info.get("rejected_count") and strict.iterations == info.get("iterations")
        ctx.check(same, "X:whole trace equals the model's own run", lambda: wit(model_outcomes=strict.outcomes, model_stop=strict.stop))
        ctx.count(f"stop:{strict.stop}")
    for clause, ok, extra in results:
        ctx.check(ok, clause, (lambda extra=extra: wit(**extra)))
    if sample:
        ctx.sample({"config": cfg.describe(), "seq": seq, "tail": tail, "consumed": consumed, "members": len(family),
                    "info": {k: info.get(k) for k in ("accepted_count", "rejected_count", "iterations")},
                    "params": [f[list(cfg.param_idx)] for f in family]})
    return consumed


def backend_monitor(ctx):
    L = ctx.pick(9, 14)
    n_cfg = ctx.pick(56, 160)
    # the covering array must be the same in every shard: generator derived from the run seed only
    crng = np.random.default_rng([ctx.seed, 1313])
    rows, n_cover = pairwise_rows(FACTORS, crng, n_cfg)
    configs = [make_config(r, crng) for r in rows]
    ctx.note("n_configurations", len(configs) if ctx.shard == 0 else 0)
    ctx.note("pairwise_rows_needed", n_cover)
    backends = {s: make_backend(s) for s in FACTORS["stepper"]}
    work = [(ci, tail) for ci in range(len(configs)) for tail in "FA"]
    n_seq = n_run = 0
    with Contracts() as con:
        for wi, (ci, tail) in enumerate(work):
            if not ctx.mine(wi):
                continue
            cfg = configs[ci]
            done = set()
            for k, bits in enumerate(itertools.product("AF", repeat=L)):
                seq = "".join(bits)
                n_seq += 1
                if any(seq[:j] in done for j in range(L + 1)):
                    continue            # same execution as one already run (its consumed prefix is a prefix of seq)
                consumed = run_case(ctx, backends, cfg, seq, tail, sample=(k in (37, 170) and ci < 4 and tail == "F"))
                n_run += 1
                if len(consumed) <= L:
                    done.add(seq[:len(consumed)])
    ctx.note("n_sequences_enumerated", n_seq)
    ctx.note("n_distinct_executions", n_run)
    ctx.note("contract_engine", con.engine)
    for name in ("_clamp_step", "on_reject"):
        conds = CLAMP_CONDITIONS if name == "_clamp_step" else REJECT_CONDITIONS
        for cond in conds:
            cl = f"contract:{name}:{cond.__name__}"
            ctx.count(cl, con.counts[name])
            nb = con.counts["breach:" + cond.__name__]
            for b in con.breaches:
                if b["condition"] == cond.__name__:
                    ctx.violation(cl, b)
            if nb and not any(b["condition"] == cond.__name__ for b in con.breaches):
                ctx.violation(cl, {"breaches": nb})


# ============================================================================ end-to-end families
def half_period_y(x0, mu, T_hint):
    """First return to y = 0 after leaving the start, located on the reference flow (Newton on re-integrated states)."""
    from scipy.integrate import solve_ivp
    from ..oracles import cr3bp
    t1 = 0.05 * T_hint
    y1 = cr3bp.flow(x0, mu, [t1])[-1]

    def ev(t, y):
        return y[1]
    ev.terminal = True
    sol = solve_ivp(lambda t, y: cr3bp.field(y, mu), (t1, 3.0 * T_hint), y1, method="DOP853", rtol=1e-12, atol=1e-12, events=ev)
    if not sol.t_events[0].size:
        return None
    t = float(sol.t_events[0][0])
    for _ in range(3):
        s = cr3bp.flow(x0, mu, [t])[-1]
        t -= s[1] / s[4]
    return t, cr3bp.flow(x0, mu, [t])[-1]


class CorrectCounter:
    """Counts PeriodicOrbit.correct outcomes during generate (corrector events at the client boundary)."""

    def __init__(self, cls):
        self.cls, self.ok, self.failed = cls, 0, 0

    def __enter__(self):
        from hiten.system.orbits.base import PeriodicOrbit
        self._base = PeriodicOrbit
        self._orig = PeriodicOrbit.__dict__.get("correct")
        outer, orig = self, self._orig
        if orig is None:
            return self

        def correct(self_, *a, **k):
            try:
                r = orig(self_, *a, **k)
            except Exception:
                outer.failed += 1
                raise
            if getattr(r, "converged", True):
                outer.ok += 1
            else:
                outer.failed += 1
            return r
        PeriodicOrbit.correct = correct
        return self

    def __exit__(self, *exc):
        if self._orig is not None:
            self._base.correct = self._orig
        return False


def judge_family(ctx, label, mu, seed_orbit, options, result, counter, idx, tol, lyap_default=False, monotone=None):
    from ..oracles import cr3bp
    fam = list(result.family)
    n = len(fam)
    step = np.atleast_1d(np.asarray(options.step, float))[:len(idx)]
    target = np.asarray(options.target, float)
    X = [np.asarray(o.initial_state, dtype=float) for o in fam]
    T = [None if o.period is None else float(o.period) for o in fam]
    P = [x[list(idx)] for x in X]
    results = []

    def wit(**extra):
        w = {"family": label, "members": n, "max_members": options.max_members, "step": step, "target": target,
             "params": P, "periods": T, "accepted": result.accepted_count, "rejected": result.rejected_count,
             "iterations": result.iterations, "corrector_events": [counter.ok, counter.failed]}
        w.update(extra)
        return w

    def chk(ok, clause, mech=None, **extra):
        results.append((clause, bool(ok), mech, extra))

    ctx.case(f"family:{label.split('/')[0]}", [label, X[0].tolist(), step.tolist(), target.tolist(), options.max_members],
             nontrivial=n >= 3)
    chk(n <= options.max_members, "E:members <= max_members")
    if n < 3:
        ctx.skip("family with fewer than three members (weak workload)")
    chk(result.accepted_count == n, "E:accepted_count == |family|")
    if counter._orig is not None:
        chk(result.accepted_count == 1 + counter.ok, "E:accepted_count == 1 + converged corrections observed at orbit.correct")
        chk(result.rejected_count == counter.failed, "E:rejected_count == failed corrections observed at orbit.correct")
        chk(result.iterations == counter.ok + counter.failed, "E:iterations == corrections observed at orbit.correct")
    pv = [np.atleast_1d(np.asarray(p, float)) for p in result.parameter_values]
    chk(len(pv) == n and all(np.array_equal(a[:len(idx)], b) for a, b in zip(pv, P)), "E:reported parameter_values belong to the members")
    for k in range(n):
        x0, Tk = X[k], T[k]
        if not chk_period(Tk):
            chk(False, "E:member carries a period", member=k)
            continue
        xT, M = cr3bp.flow_stm(x0, mu, Tk)
        resid = float(np.linalg.norm(xT - x0))
        bound = 20.0 * tol * float(np.linalg.norm(M, 2)) + 1e-10
        if not (lyap_default and abs(x0[1]) > 0):
            ctx.stat("closure_residual/bound", resid / bound)
        mech = None
        if resid > bound and lyap_default and abs(x0[1]) > 1e-6 and abs(resid - 2 * abs(x0[1])) <= 1e-6 * abs(x0[1]):
            mech = MECH_LYAP_Y          # member starts off the y=0 symmetry plane and returns to its mirror image
        chk(resid <= bound, "E:member closes under the reference flow with its own period", mech,
            member=k, x0=x0, period=Tk, residual=resid, bound=bound)
        hp = half_period_y(x0, mu, Tk)
        if hp is None:
            chk(False, "E:period == 2 x independently located half period", member=k, note="no y=0 return found")
        else:
            th, sh = hp
            ctx.stat("|T - 2 t_half|", abs(Tk - 2 * th))
            chk(abs(Tk - 2 * th) <= 1e-8 * max(1.0, Tk), "E:period == 2 x independently located half period",
                member=k, period=Tk, t_half=th)
            perp = float(np.hypot(sh[3], sh[5]))
            ctx.stat("perpendicular_crossing_residual/bound", perp / bound)
            chk(perp <= bound, "E:half-period crossing is perpendicular (vx = vz = 0 at y = 0)", member=k, state=sh)
        if k >= 1:
            chk(T[k - 1] is not None and Tk != T[k - 1], "E:member period differs from its predecessor's", member=k)
            d = P[k] - P[k - 1]
            nzs = step != 0
            if monotone is not None:        # components the corrector solves for move as the family dictates, not as the step hints
                nzs = nzs & np.isin(np.arange(len(step)), monotone)
            chk(np.all(np.sign(d[nzs]) == np.sign(step[nzs])), "E:continuation parameter advances monotonically in the step direction",
                member=k, advance=d)
    out = [bool(np.any(p < target[0][:len(idx)]) or np.any(p > target[1][:len(idx)])) for p in P]
    t_ok = not any(out[:-1])
    others_ok = all(ok for _, ok, _, _ in results)
    mech = MECH_F10 if (not t_ok and others_ok and not out[0]) else None
    ctx.check(t_ok, "E:only the last member may lie outside the target interval",
              lambda: wit(outside=out, first_outside=out.index(True) if any(out) else None), mech)
    if any(out):
        ctx.count("E:families in which a member left the target")
    # a run may end only because a member left the target, the member limit was reached, or corrections failed
    ctx.check(n >= options.max_members or out[-1] or result.rejected_count > 0,
              "E:generation continues while the last member is inside the target, below the member limit, and no correction failed",
              lambda: wit(outside=out))
    for clause, ok, mech, extra in results:
        ctx.check(ok, clause, (lambda extra=extra: wit(**extra)), mech)
    ctx.sample({"family": label, "members": n, "params": P, "periods": T, "accepted": result.accepted_count,
                "rejected": result.rejected_count, "iterations": result.iterations})


def chk_period(T):
    return T is not None and np.isfinite(T) and T > 0


def e2e_monitor(ctx):
    from hiten import System
    from hiten.algorithms.continuation.config import OrbitContinuationConfig
    from hiten.algorithms.continuation.options import OrbitContinuationOptions
    from hiten.algorithms.types.states import SynodicState
    system = System.from_bodies("earth", "moon")
    mu = float(system.mu)
    l1 = system.get_libration_point(1)
    rng = ctx.rng

    def halo(amp):
        o = l1.create_orbit("halo", amplitude_z=amp, zenith="southern")
        o.correct()
        return o

    def lyap(amp):
        o = l1.create_orbit("lyapunov", amplitude_x=amp)
        o.correct()
        return o

    # (label, factory, amplitude, stepper|None (None = library default config), step magnitude, exit after k steps|None, members)
    plan = [("halo/secant/wide", halo, 0.2, "secant", 0.004, None, 6),
            ("halo/natural/exit", halo, 0.2, "natural", 0.004, 2.5, 7),
            ("lyapunov/natural/wide", lyap, 0.01, "natural", 0.0005, None, 6),
            ("lyapunov/secant/exit", lyap, 0.01, "secant", 0.0005, 1.05, 7),
            ("lyapunov/default-config", lyap, 0.01, None, None, None, 5),
            # two continuation components listed in NON-ascending index order (z before x): target columns, step components and
            # reported parameter values all follow the user's order
            ("halo/natural-2d(Z,X)/exit", halo, 0.2, "natural2d", 0.004, 2.5, 7)]
    if not ctx.quick:
        for j in range(14):
            kind = ("halo", "lyapunov")[j % 2]
            amp = float(rng.uniform(0.1, 0.3)) if kind == "halo" else float(rng.uniform(0.005, 0.03))
            st = ("natural", "secant")[(j // 2) % 2]
            ex = (None, 2.5, 3.5)[j % 3]
            if ex and st == "secant":
                ex = 1.05           # a secant step advances the parameter by less than |step|: exit right after member 1
            plan.append((f"{kind}/{st}/{'exit' if ex else 'wide'}#{j}", halo if kind == "halo" else lyap, amp, st,
                         float(rng.uniform(0.5, 1.5)) * (0.004 if kind == "halo" else 0.0005), ex, int(rng.integers(5, 9))))
    for wi, (label, factory, amp, stepper, smag, exit_k, members) in enumerate(plan):
        if not ctx.mine(wi):
            continue
        seed = factory(amp)
        x0 = np.asarray(seed.initial_state, float)
        if stepper is None:             # what a user gets from the library's own defaults (only the family size is cut)
            options = seed.continuation_options.merge(max_members=members, max_retries_per_step=3)
            idx = tuple(seed.continuation_config.state_indices)
            lyap_default = True
        elif stepper == "natural2d":
            seed.continuation_config = OrbitContinuationConfig(state=(SynodicState.Z, SynodicState.X), stepper="natural")
            idx = (int(SynodicState.Z.value), int(SynodicState.X.value))
            z0_, x0_ = x0[idx[0]], x0[idx[1]]
            s = smag * (np.sign(z0_) if z0_ != 0 else 1.0)
            lo, hi = sorted((z0_ - 2 * s, z0_ + exit_k * s))
            # x is solved for by the halo corrector: its step entry is only a predictor hint and its target range is wide
            options = OrbitContinuationOptions(target=([lo, x0_ - 0.05], [hi, x0_ + 0.05]), step=(s, 1e-5), max_members=members,
                                               max_retries_per_step=3, step_min=1e-8, step_max=1.0, extra_params=seed.correction_options)
            lyap_default = False
        else:
            st = SynodicState.Z if label.startswith("halo") else SynodicState.X
            seed.continuation_config = OrbitContinuationConfig(state=st, stepper=stepper)
            idx = (int(st.value),)
            p0 = x0[idx[0]]
            s = smag * (np.sign(p0) if label.startswith("halo") and p0 != 0 else 1.0)
            far = p0 + (exit_k * s if exit_k else 50 * s)
            lo, hi = sorted((p0 - 2 * s, far))
            options = OrbitContinuationOptions(target=([lo], [hi]), step=(s,), max_members=members, max_retries_per_step=3,
                                               step_min=1e-8, step_max=1.0, extra_params=seed.correction_options)
            lyap_default = False
        tol = float(options.extra_params.base.convergence.tol)
        with CorrectCounter(type(seed)) as counter:
            result = seed.generate(options)
        judge_family(ctx, label, mu, seed, options, result, counter, idx, tol, lyap_default=lyap_default,
                     monotone=(0,) if stepper == "natural2d" else None)


# ============================================================================ entry points
def model_selftest(ctx):
    for name, ok, detail in cm.selftest():
        ctx.check(ok, "O:contmodel reproduces hand-computed runs", {"case": name, "detail": detail})


def replay(ctx, w):
    """Re-run the scripted execution recorded in a back-end witness."""
    wt = w.get("witness") or {}
    if "config" not in wt:
        return run(ctx)
    cfg = Config.from_dict(wt["config"])
    backends = {s: make_backend(s) for s in FACTORS["stepper"]}
    guarded(ctx, "replay", run_case, ctx, backends, cfg, wt["seq"], wt["tail"], True)


def run(ctx):
    ctx.note("rule", "back end: case = one scripted execution (configuration from a pairwise covering array x outcome "
                     "sequence), distinct by (configuration, consumed outcomes); non-trivial = the consumed history holds "
                     "both an accepted and a failed correction.  end-to-end: case = one generated family, non-trivial = "
                     ">= 3 members")
    ctx.note("assumptions", [
        "CPython, numpy, scipy, sympy and the harness oracles (contmodel, cr3bp) are trusted",
        "an accepted correction leaves the current step unchanged (the text names only failed corrections as altering it)",
        "zero step entries, members exactly on a target bound, unusable shrink policies that propagate, and corrector "
        "calls made with the member limit reached are not decided by the text: either outcome is accepted (counted as skipped)",
        "verdict covers only the executions observed in this run"])
    guarded(ctx, "contmodel-selftest", model_selftest, ctx)
    guarded(ctx, "backend", backend_monitor, ctx)
    guarded(ctx, "end-to-end", e2e_monitor, ctx)
    ctx.require("O:contmodel reproduces hand-computed runs", 5)
    for st_, mv_ in (("natural", "identity"), ("natural", "turn"), ("secant", "identity"), ("secant", "turn"), ("secant", "hairpin")):
        ctx.require(f"backend:{st_}:{mv_}", 40)
    for cl in ("P:natural prediction = last member + current step in the continuation parameters",
               "P:secant prediction = last member + unit secant * |step|",
               "K:after a failed correction the step is shrink(step) clamped to [step_min, step_max]",
               "G:gives up only after max_retries+1 consecutive failures",
               "M:family never exceeds max_members",
               "C:rejected_count == number of failed corrections",
               "T:runs in which a member left the target",
               "contract:_clamp_step:clamp_magnitude_within_bounds",
               "contract:on_reject:reject_result_within_bounds"):
        ctx.require(cl, 50)
    ctx.require("E:member closes under the reference flow with its own period", 15)
    ctx.require("E:member period differs from its predecessor's", 10)
    ctx.require("E:families in which a member left the target", 1)
