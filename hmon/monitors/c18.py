"""C18 — Hamiltonian-form conversions and coordinate changes run and are mutually inverse.

Events: every edge of the conversion registry through Hamiltonian.to_state(dst, point=...); _substitute_complex/_real,
_polylocal2realmodal/_polyrealmodal2local; point maps _solve_complex/_solve_real, _coord*2*, _local2synodic_*/_synodic2local_*.
Oracle: identity on round trips, independent evaluation of packed polynomials (dictionary evaluation) at transformed points.
"""
from __future__ import annotations

import numpy as np

from ..core import guarded
from .. import polyutil as pu

MECH_NAMEERR = "conversion-missing-import-NameError"

INVERSE_PAIRS = [("physical", "real_modal"), ("real_modal", "complex_modal"), ("complex_partial_normal", "real_partial_normal"),
                 ("center_manifold_complex", "center_manifold_real"), ("complex_full_normal", "real_full_normal")]


def registry_edges():
    from hiten.algorithms.hamiltonian import wrappers  # noqa: F401  (registers the conversions)
    from hiten.algorithms.types.services import get_hamiltonian_services
    reg = get_hamiltonian_services()
    d = getattr(reg, "_CONVERSION_REGISTRY", None)
    if d is None:
        d = reg.conversion._registry
    return dict(d)


def poly_dict(ham):
    return pu.unpack([np.asarray(b) for b in ham.poly_H])


def max_coeff_diff(a, b):
    keys = set(a) | set(b)
    return max((abs(a.get(k, 0) - b.get(k, 0)) for k in keys), default=0.0)


def random_poly_ham(rng, degree, name, real):
    from hiten.system.hamiltonian import Hamiltonian
    H = {}
    # half of the polynomials carry constant and linear terms (a generic polynomial, an observable, a coordinate series), the others start
    # at degree 2 like a Hamiltonian expanded at an equilibrium
    lo = 0 if rng.random() < 0.5 else 2
    for _ in range(int(rng.integers(5, 25))):
        d = int(rng.integers(lo, degree + 1))
        k = [0] * 6
        for v in rng.integers(0, 6, size=d):
            k[int(v)] += 1
        c = rng.normal() if real else rng.normal() + 1j * rng.normal()
        H[tuple(k)] = H.get(tuple(k), 0) + c
    return Hamiltonian(pu.pack(H, degree), degree, 3, name=name), H


def edges_and_roundtrips(ctx, points, degrees):
    edges = registry_edges()
    ctx.note("registered_edges", sorted(f"{a}->{b}" for a, b in edges))
    rng = ctx.rng
    k = -1
    for (label, point) in points:
        for deg in degrees:
            k += 1
            if not ctx.mine(k):
                continue
            forms = {}
            for (src, dst) in sorted(edges):
                # source form from the pipeline
                if src not in forms:
                    try:
                        forms[src] = point.hamiltonian(deg, form=src)
                    except Exception as exc:
                        forms[src] = exc
                hsrc = forms[src]
                if isinstance(hsrc, Exception):
                    # could not even build the source: is that because a *registered conversion* on the path failed?
                    msg = type(hsrc).__name__ + ": " + str(hsrc)
                    if isinstance(hsrc, NameError) or "NameError" in msg:
                        ctx.check(False, "1:every registered conversion executes", {"point": label, "degree": deg, "edge": f"(path to) {src}", "error": msg[:300]}, MECH_NAMEERR)
                    else:
                        ctx.skip(f"source form {src} unavailable at {label} ({type(hsrc).__name__})")
                    continue
                ctx.case(f"edge:{src}->{dst}", [label, deg, src, dst], nontrivial=True)
                try:
                    out = hsrc.to_state(dst, point=point)
                    hdst = out[0] if isinstance(out, tuple) else out
                    ok = True
                except Exception as exc:
                    msg = type(exc).__name__ + ": " + str(exc)
                    mech = MECH_NAMEERR if isinstance(exc, NameError) else None
                    ctx.check(False, "1:every registered conversion executes", {"point": label, "degree": deg, "edge": f"{src}->{dst}", "error": msg[:300]}, mech)
                    continue
                ctx.check(ok and hdst.name == dst and len(hdst.poly_H) == deg + 1, "1:every registered conversion executes",
                          {"point": label, "edge": f"{src}->{dst}", "name": hdst.name})
                # (2) round trips for inverse pairs on pipeline Hamiltonians
                if (dst, src) in edges and ((src, dst) in INVERSE_PAIRS or (dst, src) in INVERSE_PAIRS):
                    try:
                        back = hdst.to_state(src, point=point)
                        back = back[0] if isinstance(back, tuple) else back
                    except Exception as exc:
                        mech = MECH_NAMEERR if isinstance(exc, NameError) else None
                        ctx.check(False, "2:inverse conversion executes", {"point": label, "edge": f"{dst}->{src}", "error": (type(exc).__name__ + str(exc))[:300]}, mech)
                        continue
                    a, b = poly_dict(hsrc), poly_dict(back)
                    scale = max(abs(v) for v in a.values()) if a else 1.0
                    tol_clean = edges[(src, dst)][2].get("tol", 1e-12)
                    e = max_coeff_diff(a, b)
                    ctx.stat(f"roundtrip_coeff_err/scale[{src}<->{dst}]", e / scale)
                    cond = 1.0
                    if "physical" in (src, dst):
                        C = np.asarray(point.normal_form_transform[0])
                        cond = np.linalg.cond(C) ** deg
                    ctx.check(e <= (20 * max(tol_clean, 1e-13) + 1e-13 * cond) * max(scale, 1.0), "2:conversions registered in both directions are inverses (pipeline Hamiltonian)",
                              {"point": label, "degree": deg, "pair": [src, dst], "err": e, "scale": scale})
            if k < 2:
                ctx.sample({"point": label, "degree": deg, "forms_built": [f for f, v in forms.items() if not isinstance(v, Exception)]})
            # (2b) the same on random polynomials (not Hamiltonians produced by the pipeline)
            for (a_name, b_name) in INVERSE_PAIRS:
                for (src, dst) in ((a_name, b_name), (b_name, a_name)):
                    if (src, dst) not in edges or (dst, src) not in edges:
                        continue
                    real = not src.startswith("complex") and "complex" not in src
                    ham, Hd = random_poly_ham(rng, deg, src, real=True if src in ("physical", "real_modal") else False)
                    ctx.case(f"random-roundtrip:{src}->{dst}", [label, deg, src, dst, int(rng.integers(1 << 30))], nontrivial=True)
                    try:
                        mid = ham.to_state(dst, point=point)
                        mid = mid[0] if isinstance(mid, tuple) else mid
                        back = mid.to_state(src, point=point)
                        back = back[0] if isinstance(back, tuple) else back
                    except Exception as exc:
                        mech = MECH_NAMEERR if isinstance(exc, NameError) else None
                        ctx.check(False, "2:round trip on a random polynomial executes", {"point": label, "pair": [src, dst], "error": (type(exc).__name__ + str(exc))[:300]}, mech)
                        continue
                    a, b = {kk: complex(v) for kk, v in Hd.items()}, poly_dict(back)
                    scale = max(abs(v) for v in a.values())
                    cond = 1.0
                    if "physical" in (src, dst):
                        cond = np.linalg.cond(np.asarray(point.normal_form_transform[0])) ** deg
                    e = max_coeff_diff(a, b)
                    ctx.stat(f"random_roundtrip_err/scale[{src}->{dst}]", e / scale / cond)
                    ctx.check(e <= (1e-11 + 1e-13 * cond) * scale * 20, "2:conversions registered in both directions are inverses (random polynomial)",
                              {"point": label, "degree": deg, "pair": [src, dst], "err": e, "scale": scale, "cond": cond})
                    # (3) polynomial change agrees with the coordinate change
                    from hiten.algorithms.hamiltonian import transforms as tr
                    mid_d = poly_dict(mid)
                    x = (rng.normal(size=6) + 1j * rng.normal(size=6)) * 0.7
                    from hiten.system.libration.collinear import CollinearPoint
                    mix = (1, 2) if isinstance(point, CollinearPoint) else (0, 1, 2)
                    if (src, dst) == ("physical", "real_modal"):
                        xs = np.asarray(point.normal_form_transform[0]) @ x          # local = C modal
                        coord = tr._coordrealmodal2local(point, x)
                    elif (src, dst) == ("real_modal", "physical"):
                        xs = np.asarray(point.normal_form_transform[1]) @ x
                        coord = tr._coordlocal2realmodal(point, x)
                    elif "complex" in dst and "complex" not in src:
                        xs = tr._M(mix) @ x                                          # real = M complex
                        coord = tr._solve_real(x, mix_pairs=mix)
                    else:
                        xs = tr._M_inv(mix) @ x
                        coord = tr._solve_complex(x, mix_pairs=mix)
                    v_new = pu.eval_dict(mid_d, x)
                    v_old = pu.eval_dict(a, xs)
                    mag = sum(abs(c) * np.prod(np.abs(xs) ** np.array(kk)) for kk, c in a.items()) + 1e-300
                    ctx.stat("poly_vs_coord_err/mag", abs(v_new - v_old) / mag)
                    ctx.check(abs(v_new - v_old) <= 1e-10 * mag * max(1.0, cond * 1e-3), "3:new polynomial at x == old polynomial at the transformed x",
                              {"point": label, "pair": [src, dst], "new": v_new, "old": v_old, "mag": mag})
                    ctx.check(np.abs(np.asarray(coord) - xs).max() <= 1e-12 * (1 + np.abs(xs).max()), "3:library coordinate map is that same linear change",
                              {"point": label, "pair": [src, dst], "lib": coord, "ref": xs})


def direct_roundtrips(ctx, points, degrees):
    """Random-polynomial part of edges_and_roundtrips for points without a pipeline (no source forms are built)."""
    edges = registry_edges()
    rng = ctx.rng
    from hiten.algorithms.hamiltonian import transforms as tr
    from hiten.system.libration.collinear import CollinearPoint
    for k, (label, point) in enumerate(points):
        if not ctx.mine(k):
            continue
        try:
            C = np.asarray(point.normal_form_transform[0])
            condC = np.linalg.cond(C)
        except Exception:
            C, condC = None, None
        mix = (1, 2) if isinstance(point, CollinearPoint) else (0, 1, 2)
        for deg in degrees:
            for (a_name, b_name) in INVERSE_PAIRS:
                for (src, dst) in ((a_name, b_name), (b_name, a_name)):
                    if (src, dst) not in edges or (dst, src) not in edges:
                        continue
                    if "physical" in (src, dst) and C is None:
                        ctx.skip(f"normal form unavailable at {label}")
                        continue
                    ham, Hd = random_poly_ham(rng, deg, src, real=True)
                    ctx.case(f"direct-roundtrip:{src}->{dst}", [label, deg, src, dst, int(rng.integers(1 << 30))], nontrivial=True)
                    try:
                        mid = ham.to_state(dst, point=point)
                        mid = mid[0] if isinstance(mid, tuple) else mid
                        back = mid.to_state(src, point=point)
                        back = back[0] if isinstance(back, tuple) else back
                    except Exception as exc:
                        mech = MECH_NAMEERR if isinstance(exc, NameError) else None
                        ctx.check(False, "2:round trip on a random polynomial executes", {"point": label, "pair": [src, dst], "error": (type(exc).__name__ + str(exc))[:300]}, mech)
                        continue
                    a = {kk: complex(v) for kk, v in Hd.items()}
                    scale = max(abs(v) for v in a.values())
                    cond = condC ** deg if "physical" in (src, dst) else 1.0
                    e = max_coeff_diff(a, poly_dict(back))
                    ctx.check(e <= (1e-11 + 1e-13 * cond) * scale * 20, "2:conversions registered in both directions are inverses (random polynomial, direct call)",
                              {"point": label, "degree": deg, "pair": [src, dst], "err": e, "scale": scale, "cond": cond})
                    x = (rng.normal(size=6) + 1j * rng.normal(size=6)) * 0.7
                    if (src, dst) == ("physical", "real_modal"):
                        xs = C @ x
                    elif (src, dst) == ("real_modal", "physical"):
                        xs = np.asarray(point.normal_form_transform[1]) @ x
                    elif "complex" in dst and "complex" not in src:
                        xs = tr._M(mix) @ x
                    else:
                        xs = tr._M_inv(mix) @ x
                    v_new = pu.eval_dict(poly_dict(mid), x)
                    v_old = pu.eval_dict(a, xs)
                    mag = sum(abs(c) * np.prod(np.abs(xs) ** np.array(kk)) for kk, c in a.items()) + 1e-300
                    ctx.check(abs(v_new - v_old) <= 1e-10 * mag * max(1.0, cond * 1e-3), "3:new polynomial at x == old polynomial at the transformed x (direct call)",
                              {"point": label, "pair": [src, dst], "new": v_new, "old": v_old, "mag": mag, "mix_pairs_expected": mix})


def point_maps(ctx, points, n):
    from hiten.algorithms.hamiltonian import transforms as tr
    from hiten.system.libration.collinear import CollinearPoint
    rng = ctx.rng
    for i, (label, point) in enumerate(points):
        if not ctx.mine(i):
            continue
        coll = isinstance(point, CollinearPoint)
        mix = (1, 2) if coll else (0, 1, 2)
        for _ in range(n):
            x = rng.normal(size=6)
            z = rng.normal(size=6) + 1j * rng.normal(size=6)
            ctx.case("pointmap", [label, x.round(6).tolist()], nontrivial=True)
            r = tr._solve_real(tr._solve_complex(z, mix_pairs=mix), mix_pairs=mix)
            ctx.check(np.abs(r - z).max() <= 1e-13 * (1 + np.abs(z).max()), "4:_solve_real o _solve_complex == id", {"point": label, "z": z, "back": r})
            r = tr._solve_complex(tr._solve_real(z, mix_pairs=mix), mix_pairs=mix)
            ctx.check(np.abs(r - z).max() <= 1e-13 * (1 + np.abs(z).max()), "4:_solve_complex o _solve_real == id", {"point": label, "z": z, "back": r})
            try:
                C = np.asarray(point.normal_form_transform[0])
                cond = np.linalg.cond(C)
                r = tr._coordlocal2realmodal(point, tr._coordrealmodal2local(point, x))
                ctx.check(np.abs(r - x).max() <= 1e-13 * cond * (1 + np.abs(x).max()), "4:local<->modal point maps are inverse", {"point": label, "x": x, "back": r})
                r = tr._coordrealmodal2local(point, tr._coordlocal2realmodal(point, x))
                ctx.check(np.abs(r - x).max() <= 1e-13 * cond * (1 + np.abs(x).max()), "4:local<->modal point maps are inverse", {"point": label, "x": x, "back": r})
            except Exception as exc:
                ctx.skip(f"normal form unavailable at {label} ({type(exc).__name__})")
            f, g = (tr._local2synodic_collinear, tr._synodic2local_collinear) if coll else (tr._local2synodic_triangular, tr._synodic2local_triangular)
            gam = float(point.dynamics.gamma) if coll else 1.0
            r = g(point, f(point, x))
            ctx.stat("local_synodic_roundtrip", np.abs(r - x).max())
            ctx.check(np.abs(r - x).max() <= 1e-12 * (1 + np.abs(x).max()) / min(gam, 1.0), "4:synodic<->local point maps are inverse (local first)", {"point": label, "x": x, "back": r})
            s = x * 0.5 + np.concatenate([np.asarray(point.position), np.zeros(3)])
            r = f(point, g(point, s))
            ctx.check(np.abs(r - s).max() <= 1e-12 * (1 + np.abs(s).max()), "4:synodic<->local point maps are inverse (synodic first)", {"point": label, "s": s, "back": r})


def run(ctx):
    from hiten import System
    ctx.note("rule", "case = one registry edge at one (point, degree), one round trip of a random polynomial through an inverse pair, or one point-map "
                     "round trip; all non-trivial; random polynomials are not pipeline Hamiltonians")
    systems = [("earth-moon", System.from_bodies("earth", "moon")), ("mu=0.04", System.from_mu(0.04))]
    if not ctx.quick:
        systems += [("sun-earth", System.from_bodies("sun", "earth")), ("mu=0.001", System.from_mu(1e-3)), ("mu=0.3", System.from_mu(0.3))]
    pipe_points = []
    all_points = []
    for name, sysm in systems:
        for L in (1, 2, 3, 4, 5):
            pt = sysm.get_libration_point(L)
            all_points.append((f"{name}:L{L}", pt))
            if L <= (2 if ctx.quick else 3):
                pipe_points.append((f"{name}:L{L}", pt))
    guarded(ctx, "edges", edges_and_roundtrips, ctx, pipe_points, ctx.pick([3, 4], [2, 3, 4, 5, 6, 8]))
    # the converters are also callable directly on any polynomial with any point as context: random-polynomial round trips and
    # polynomial-vs-coordinate agreement at the points the pipeline does not serve (L3, L4, L5 incl. the triangular mixing of all pairs)
    other = [(lab, pt) for (lab, pt) in all_points if (lab, pt) not in pipe_points and (ctx.quick is False or lab.startswith("earth-moon"))]
    guarded(ctx, "direct-conversions", direct_roundtrips, ctx, other, ctx.pick([3], [2, 3, 4, 5]))
    guarded(ctx, "pointmaps", point_maps, ctx, all_points, ctx.pick(10, 200))
    ctx.require("1:every registered conversion executes", 13 if ctx.nshards == 1 else 3)
    ctx.require("2:conversions registered in both directions are inverses (random polynomial)", 10 if ctx.nshards == 1 else 2)
    ctx.require("3:new polynomial at x == old polynomial at the transformed x", 10 if ctx.nshards == 1 else 2)
    ctx.require("4:synodic<->local point maps are inverse (local first)", 20 if ctx.nshards == 1 else 5)
