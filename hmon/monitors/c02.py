"""C02 — integrators deliver their declared order and the requested tolerance.

Events   : the tableaux held by the live objects returned by RungeKutta / FixedRK / AdaptiveRK and by
           centermanifold.backend._get_rk_coefficients; states returned by <integrator>.integrate(system, y0, t_vals)
           for generic (create_rhs_system) and polynomial Hamiltonian (create_hamiltonian_system) systems, by the
           centre-manifold copy _integrate_rk_ham, by the single-step kernels, and by System.propagate.
Oracles  : rktrees   - all rooted-tree order conditions in 40-digit mpmath (M1)
           executable model - one RK step in numpy.longdouble with the same tableau (M2)
           exactflows - closed forms / SciPy DOP853 at 1e-13 (M3, M4);  cr3bp.flow for System.propagate (M5)
M1 invariant on the loaded tableaux: row sums, every rooted-tree condition up to the requested order, embedded weights
   (RK45 E: order 4; DOP853 E5/E3: orders 5/3), continuous extensions (RK45 P: order 4; DOP853 D: order 7) at 7 thetas.
M2 faithful stepping: fixed-step kernels (generic, Hamiltonian twin, centre-manifold copy _integrate_rk_ham) and the
   single-step kernels of RK45/DOP853 on random smooth time-dependent fields against the longdouble model.
M3 empirical order: 13 generic families + random polynomial Hamiltonians (Hamiltonian kernel and centre-manifold copy);
   a family's rate is the mean of its two finest rates inside the conclusive window, provided they agree to 0.35.
M4 adaptive accuracy on five output grids (coarse, comparable to / 50x finer than the step sequence, non-uniform with
   near-duplicates, end point only):  error <= K tol kappa scale sqrt(D/n) + 10 ref_accuracy [+ 10 x yardstick on
   interpolated times], kappa = max_{s<=t} ||Phi(t) Phi(s)^-1||, D/n = dilution of the controller's RMS norm by the
   constant components, yardstick = dense-output error of SciPy's implementation of the same published method at the
   same tolerances (the continuous extension is outside the step-size control: 1e2..1e3 x tol for both codes).
M5 System.propagate(method='fixed'|'adaptive', order=...) on CR3BP orbits against the sympy/SciPy reference flow.

Known finding F2 (mechanism "rk6-tableau-is-order-5"): the scheme requested as order 6 carried the Dormand-Prince
5(4) tableau; recognised by `classify_tableau` (orders <= 5 hold, order 6 fails) and `classify_rate` (rate ~ 5).
"""
from __future__ import annotations

import numpy as np

from ..core import guarded
from ..oracles import exactflows as ef
from ..oracles import rktrees as rt

LD = np.longdouble
MECH_RK6 = "rk6-tableau-is-order-5"
MECH_DOP_H = "dop853-error-norm-has-extra-factor-h"

TOL_TABLE = 1e-13          # residual of a satisfied order condition on float64 entries (measured <= 8.4e-16)
TOL_STEP = 1e-13           # relative agreement of a library step with the longdouble model (measured ~1e-15)
WINDOW_HI = 1e-3           # conclusive window of M3
WINDOW_LO = {4: 1e-11, 6: 1e-11, 8: 1e-12}   # p=8: few steps => round-off far below; closed forms accurate to 1e-13
K_ADAPTIVE = 200.0         # error <= K * tol * kappa * scale (+ reference accuracy)
SHRINK_SLOPE = 0.3         # d log(error) / d log(tol) over >= 4 decades of tolerance (asymptotically 0.8-0.9)
K_NODE = 100.0             # same at a step node (no interpolation): measured ratios <= 5
DENSE_ALLOW = 10.0         # allowance for the continuous extension: 10 x SciPy's same-method dense error


# ======================================================================================= helpers
def lower_square(A, s):
    """s x s strictly lower triangular matrix made of the entries an explicit kernel actually reads (A[i, j], j < i)."""
    A = np.asarray(A, dtype=float)
    out = np.zeros((s, s))
    for i in range(s):
        for j in range(min(i, A.shape[1])):
            out[i, j] = A[i, j]
    return out


_M1_CACHE = {}


def tableau_report(A, b, c, pmax):
    """Order-condition residuals (orders 1..pmax) and row-sum residual of a float64 tableau in 40-digit arithmetic."""
    s = len(b)
    Asq = lower_square(A, s)
    key = (Asq.tobytes(), np.asarray(b, float).tobytes(), np.asarray(c, float).tobytes(), pmax)
    hit = _M1_CACHE.get(key)
    if hit is None:
        W = rt.Weights(rt.mp_matrix(Asq))
        res = rt.order_residuals(None, rt.mp_vector(b), pmax, weights=W)
        rows = rt.row_sum_residual(rt.mp_matrix(Asq), rt.mp_vector(np.asarray(c, float)[:s]))
        hit = {"res": {n: float(v[0]) for n, v in res.items()}, "worst": {n: rt.tree_str(v[1]) for n, v in res.items()},
               "rows": float(rows), "Asq": Asq}
        _M1_CACHE[key] = hit
    return hit


def classify_tableau(requested, res, tol=TOL_TABLE):
    """F2: the scheme requested as order 6 satisfies every condition of order <= 5 and violates order 6."""
    if requested == 6 and all(res[n] <= tol for n in range(1, 6)) and res[6] > tol:
        return MECH_RK6
    return None


def classify_rate(requested, rate):
    """F2 seen from outside: the scheme requested as order 6 converges with rate ~5."""
    if requested == 6 and rate is not None and 4.5 <= rate <= 5.5:
        return MECH_RK6
    return None


def rk_model(f_ld, t, y, h, A, b, c):
    """One explicit RK step in numpy.longdouble (executable model). Returns (y_new, stages)."""
    s = len(b)
    t, h = LD(t), LD(h)
    y = np.asarray(y, dtype=LD)
    k = []
    for i in range(s):
        ys = y.copy()
        for j in range(i):
            if A[i, j] != 0:
                ys = ys + h * LD(A[i, j]) * k[j]
        k.append(f_ld(t + LD(c[i]) * h, ys))
    yn = y.copy()
    for j in range(s):
        if b[j] != 0:
            yn = yn + h * LD(b[j]) * k[j]
    return yn, k


def rk_model_path(f_ld, y0, t_vals, A, b, c):
    out = [np.asarray(y0, dtype=LD)]
    for i in range(len(t_vals) - 1):
        yn, _ = rk_model(f_ld, t_vals[i], out[-1], LD(t_vals[i + 1]) - LD(t_vals[i]), A, b, c)
        out.append(yn)
    return np.array(out)


# --------------------------------------------------------------------------------------- polynomial Hamiltonians
class PolyHam:
    """Own sparse polynomial H(q1,q2,q3,p1,p2,p3) = sum c_e x^e and its Hamiltonian field (independent of hiten)."""

    def __init__(self, mons):
        self.mons = dict(mons)
        self.grads = []
        for v in range(6):
            E, C = [], []
            for e, c in self.mons.items():
                if e[v] > 0:
                    ee = list(e)
                    ee[v] -= 1
                    E.append(ee)
                    C.append(c * e[v])
            self.grads.append((np.array(E, dtype=np.int64).reshape(-1, 6), np.array(C, dtype=float)))

    def grad(self, x):
        g = np.zeros(6, dtype=x.dtype)
        for v, (E, C) in enumerate(self.grads):
            if len(C):
                g[v] = np.sum(C.astype(x.dtype) * np.prod(x[None, :] ** E, axis=1))
        return g

    def field(self, t, x):
        g = self.grad(np.asarray(x))
        return np.concatenate([g[3:], -g[:3]])

    def energy(self, x):
        return float(sum(c * np.prod(np.asarray(x, float) ** np.array(e)) for e, c in self.mons.items()))


def random_polyham(rng):
    """Three coupled oscillators with random cubic and quartic couplings (bounded motion near the origin)."""
    mons = {}
    om = rng.uniform(0.6, 1.5, 3)
    for i in range(3):
        e = [0] * 6
        e[i] = 2
        mons[tuple(e)] = om[i] / 2
        e = [0] * 6
        e[3 + i] = 2
        mons[tuple(e)] = om[i] / 2
    for deg, amp, cnt in ((3, 0.15, 5), (4, 0.1, 5)):
        for _ in range(cnt):
            e = [0] * 6
            for v in rng.integers(0, 6, deg):
                e[int(v)] += 1
            mons[tuple(e)] = mons.get(tuple(e), 0.0) + float(rng.normal() * amp)
    x0 = rng.normal(size=6)
    x0 *= rng.uniform(0.45, 0.6) / np.linalg.norm(x0)
    return PolyHam(mons), x0, float(np.max(om))


def duffing_polyham(rng):
    """Three uncoupled Duffing oscillators at amplitude 1.5-3 (integrable: error growth is linear, kappa modest).  At loose
    tolerances the fifth-order controller is observed to REJECT steps on this problem, which the small-amplitude random
    Hamiltonians never make it do — the bookkeeping of rejected attempts (stage store, FSAL slope, dense output) is only
    exercised here."""
    mons = {}
    rate2 = 0.0
    x0 = np.zeros(6)
    for i in range(3):
        w2, c4 = float(rng.uniform(0.5, 2.0)), float(rng.uniform(0.5, 2.0))
        a = float(rng.uniform(1.5, 3.0)) * (1 if rng.random() < 0.5 else -1)
        e = [0] * 6
        e[3 + i] = 2
        mons[tuple(e)] = 0.5
        e = [0] * 6
        e[i] = 2
        mons[tuple(e)] = 0.5 * w2
        e = [0] * 6
        e[i] = 4
        mons[tuple(e)] = 0.25 * c4
        x0[i] = a * np.cos(0.3 * i)
        x0[3 + i] = a * np.sin(0.3 * i)
        rate2 = max(rate2, w2 + 3 * c4 * a * a)
    return PolyHam(mons), x0, float(np.sqrt(rate2))


class HamEnv:
    """Builds hiten polynomial Hamiltonian systems from a PolyHam (index tables of degree 4, built once)."""

    def __init__(self):
        from hiten.algorithms.polynomial.base import _create_encode_dict_from_clmo, _init_index_tables
        self.deg = 4
        self.psi, self.clmo = _init_index_tables(self.deg)
        self.enc = _create_encode_dict_from_clmo(self.clmo)

    def system(self, ham: PolyHam):
        from numba.typed import List
        from hiten.algorithms.dynamics.hamiltonian import create_hamiltonian_system
        from hiten.algorithms.dynamics.protocols import _HamiltonianSystemProtocol
        from hiten.algorithms.polynomial.base import _encode_multiindex
        H = [np.zeros(self.psi[6, d], dtype=np.complex128) for d in range(self.deg + 1)]
        for e, c in ham.mons.items():
            k = np.array(e, dtype=np.int64)
            d = int(k.sum())
            idx = _encode_multiindex(k, d, self.enc)
            if idx < 0:
                raise RuntimeError("monomial not found in hiten's index table")
            H[d][idx] += c
        Hl = List()
        for a in H:
            Hl.append(a)
        hs = create_hamiltonian_system(Hl, self.deg, self.psi, self.clmo, self.enc, 3, "hmon random polynomial")
        if not isinstance(hs, _HamiltonianSystemProtocol):
            raise RuntimeError("create_hamiltonian_system did not return a Hamiltonian-protocol system")
        return hs


class HamProblem:
    """Reference flow of a PolyHam by SciPy DOP853 at 1e-13 on the monitor's own gradient."""

    def __init__(self, ham, x0, rate, T):
        self.ham, self.x0, self.rate, self.T, self.t0, self.n = ham, np.asarray(x0, float), rate, T, 0.0, 6
        self.label = self.family = "polyham"
        self._sol = {}
        self._acc = None

    def flow(self, x0, t_eval, rtol=1e-13):
        from scipy.integrate import solve_ivp
        k = (np.asarray(x0).tobytes(), rtol)
        if k not in self._sol:
            s = solve_ivp(self.ham.field, (0.0, self.T), x0, method="DOP853", rtol=rtol, atol=rtol, dense_output=True,
                          max_step=0.4 / self.rate)
            if not s.success:
                raise RuntimeError("reference flow failed")
            self._sol[k] = s.sol
        return self._sol[k](np.atleast_1d(t_eval)).T.copy()

    def exact(self, t_eval):
        return self.flow(self.x0, t_eval)

    def accuracy(self):
        if self._acc is None:
            tt = np.linspace(0, self.T, 65)
            self._acc = max(float(np.max(np.abs(self.flow(self.x0, tt) - self.flow(self.x0, tt, rtol=1e-12)))), 1e-13)
        return self._acc

    def kappa(self):
        tt = np.linspace(0, self.T, 33)
        base = self.flow(self.x0, tt, rtol=1e-11)
        J = []
        for i in range(6):
            xp = self.x0.copy()
            xp[i] += 1e-6
            J.append((self.flow(xp, tt, rtol=1e-11) - base) / 1e-6)
        return ef.two_time_sensitivity(np.stack(J, axis=2))

    def key(self):
        return ["polyham", sorted((list(e), c) for e, c in self.ham.mons.items()), self.x0.tolist()]

    def describe(self):
        return {"family": "polyham", "monomials": {str(e): c for e, c in self.ham.mons.items()}, "x0": self.x0, "T": self.T}


class Env:
    """Live hiten objects shared by the sub-monitors (one rhs dispatcher => one specialisation per kernel)."""

    def __init__(self, ctx):
        from hiten.algorithms.dynamics.rhs import create_rhs_system
        self.ctx = ctx
        self._create = create_rhs_system
        self._sys = {}
        self.ham = None
        self.calls = {}

    def system(self, dim):
        if dim not in self._sys:
            self._sys[dim] = self._create(ef.universal_rhs, dim, name=f"hmon universal rhs dim {dim}")
        return self._sys[dim]

    def hamenv(self):
        if self.ham is None:
            self.ham = HamEnv()
        return self.ham

    def count_calls(self):
        """Interpose Python-level counters on the kernels (optional observability: which path ran)."""
        from hiten.algorithms.integrators import rk
        targets = [(rk._FixedStepRK, "_integrate_fixed_rk"), (rk._FixedStepRK, "_integrate_fixed_rk_ham"),
                   (rk._RK45, "_integrate_rk45"), (rk._RK45, "_integrate_rk45_ham"),
                   (rk._DOP853, "_integrate_dop853"), (rk._DOP853, "_integrate_dop853_ham")]
        for cls, name in targets:
            fn = cls.__dict__.get(name)
            if fn is None:
                continue
            inner = fn.__func__ if isinstance(fn, staticmethod) else fn
            self.calls[name] = 0

            def make(inner=inner, name=name):
                def wrapper(*a, **k):
                    self.calls[name] += 1
                    return inner(*a, **k)
                return wrapper
            setattr(cls, name, staticmethod(make()))


# ======================================================================================= M1
def _b_theta_rk45(P, theta):
    mp = rt.MP
    th = mp.mpf(theta)
    return [sum(mp.mpf(float(P[i, cc])) * th ** (cc + 1) for cc in range(P.shape[1])) for i in range(P.shape[0])]


def _b_theta_dop853(B, D, n_ext, power, theta):
    """Weights of the published DOP853 continuous extension (Hairer's contd8):
    y(th) = y0 + th(F0 + (1-th)(F1 + th(F2 + (1-th)(F3 + ...)))),
    F0 = dy, F1 = h f0 - dy, F2 = 2 dy - h (f1 + f0), F_{3+i} = h sum_r D[i, r] k_r ; k_s = f1 is the FSAL stage."""
    mp = rt.MP
    s = len(B)
    b = [mp.mpf(float(x)) for x in B] + [mp.mpf(0)] * (n_ext - s)

    def unit(i):
        v = [mp.mpf(0)] * n_ext
        v[i] = mp.mpf(1)
        return v
    e0, es = unit(0), unit(s)
    w = [b, [x - y for x, y in zip(e0, b)], [2 * x - y - z for x, y, z in zip(b, es, e0)]]
    for i in range(power - 3):
        w.append([mp.mpf(float(x)) for x in D[i]])
    th = mp.mpf(theta)
    acc = [mp.mpf(0)] * n_ext
    for i in range(power - 1, -1, -1):
        acc = [a + x for a, x in zip(acc, w[i])]
        fac = th if (power - 1 - i) % 2 == 0 else (1 - th)
        acc = [a * fac for a in acc]
    return acc


def m1_tableaux(ctx):
    from hiten.algorithms.integrators import rk
    from hiten.algorithms.integrators.rk import AdaptiveRK, FixedRK, RungeKutta
    from hiten.algorithms.poincare.centermanifold import backend as cmb

    sources = []
    for o, p in ((4, 4), (6, 6), (8, 8), (45, 5), (853, 8)):
        sources.append((f"RungeKutta(order={o})", lambda o=o: RungeKutta(order=o), p))
    for o in (4, 6, 8):
        sources.append((f"FixedRK(order={o})", lambda o=o: FixedRK(order=o), o))
    for o in (5, 8):
        sources.append((f"AdaptiveRK(order={o})", lambda o=o: AdaptiveRK(order=o), o))
    for o in (4, 6, 8):
        sources.append((f"_get_rk_coefficients({o})", lambda o=o: cmb._get_rk_coefficients(o), o))

    for name, make, p in sources:
        obj = make()
        if isinstance(obj, tuple):
            A, b, c = (np.asarray(v, dtype=float) for v in obj)
            inst = None
        else:
            inst = obj
            A, b, c = (np.asarray(v, dtype=float) for v in (inst._A, inst._B_HIGH, inst._C))
            ctx.check(inst.order == p, "M1:object returned by the factory declares the requested order",
                      {"source": name, "declared": inst.order, "requested": p})
        s = len(b)
        ctx.case("M1:tableau", [name, A.tolist(), b.tolist()], nontrivial=True)
        rep = tableau_report(A, b, c, p + 1)
        res = rep["res"]
        ctx.check(A.shape[0] >= s and A.shape[1] >= s - 1 and len(c) >= s, "M1:tableau shapes consistent",
                  {"source": name, "A": A.shape, "b": b.shape, "c": c.shape})
        ctx.stat(f"M1 row-sum residual [{name.split('(')[0]}]", rep["rows"])
        ctx.check(rep["rows"] <= TOL_TABLE, "M1:row sums c_i = sum_j a_ij", {"source": name, "residual": rep["rows"]})
        mech = classify_tableau(p, res)
        sat = max(res[n] for n in range(1, p + 1) if not (mech and n == 6))
        ctx.stat("M1 max residual of a satisfied order condition", sat if sat <= TOL_TABLE else 0.0)
        ctx.note(f"M1 residuals {name}", {str(n): res[n] for n in sorted(res)})
        for n in range(1, p + 1):
            ctx.check(res[n] <= TOL_TABLE, "M1:rooted-tree order conditions hold up to the requested order",
                      lambda n=n: {"source": name, "requested_order": p, "failing_order": n, "max_residual": res[n],
                                   "worst_tree": rep["worst"][n], "residual_per_order": res, "stages": s,
                                   "b": b, "c": c},
                      mech if n == 6 else None)

        if inst is None:
            continue
        # ---- embedded error weights and continuous extensions of the adaptive schemes
        if hasattr(inst, "_E") and not hasattr(inst, "_E5"):
            E = np.asarray(inst._E, dtype=float)
            ctx.check(len(E) == s + 1, "M1:RK45 error weights have s+1 entries (FSAL stage)", {"len": len(E), "s": s})
            Aext = rt.extend_fsal(rt.mp_matrix(rep["Asq"]), rt.mp_vector(b))
            W = rt.Weights(Aext)
            hom = rt.homogeneous_residuals(None, rt.mp_vector(E), 5, weights=W)
            for n in range(1, 5):
                ctx.stat("M1 RK45 E residual (orders<=4)", float(hom[n][0]))
                ctx.check(float(hom[n][0]) <= TOL_TABLE, "M1:RK45 embedded weights b - E have order 4",
                          {"source": name, "order": n, "residual": float(hom[n][0]), "tree": rt.tree_str(hom[n][1])})
            ctx.note("M1 RK45 E order-5 weight (must be nonzero for a usable estimator)", float(hom[5][0]))
            P = np.asarray(rk.RK45_P, dtype=float)
            ctx.check(P.shape[0] == s + 1, "M1:RK45 dense-output matrix has s+1 rows", {"shape": P.shape})
            for theta in (0.05, 0.2, 0.35, 0.5, 0.65, 0.85, 1.0):
                bth = _b_theta_rk45(P, theta)
                cr = rt.continuous_residuals(None, bth, rt.MP.mpf(theta), 4, weights=W)
                for n in range(1, 5):
                    ctx.stat("M1 RK45 P continuous residual (orders<=4)", float(cr[n][0]))
                    ctx.check(float(cr[n][0]) <= TOL_TABLE, "M1:RK45 dense output P satisfies the continuous order conditions to order 4",
                              {"source": name, "theta": theta, "order": n, "residual": float(cr[n][0]),
                               "tree": rt.tree_str(cr[n][1])})
            bth1 = _b_theta_rk45(P, 1.0)
            d1 = max(abs(float(x) - (b[i] if i < s else 0.0)) for i, x in enumerate(bth1))
            ctx.check(d1 <= TOL_TABLE, "M1:RK45 dense output reproduces the step at theta=1", {"max_diff": d1})
        if hasattr(inst, "_E5"):
            E5, E3 = np.asarray(inst._E5, float), np.asarray(inst._E3, float)
            Aext = rt.extend_fsal(rt.mp_matrix(rep["Asq"]), rt.mp_vector(b))
            W = rt.Weights(Aext)
            for nm, E, q in (("E5", E5, 5), ("E3", E3, 3)):
                ctx.check(len(E) == s + 1, "M1:DOP853 error weights have s+1 entries", {"which": nm, "len": len(E)})
                hom = rt.homogeneous_residuals(None, rt.mp_vector(E), q, weights=W)
                for n in range(1, q + 1):
                    ctx.stat(f"M1 DOP853 {nm} residual (orders<={q})", float(hom[n][0]))
                    ctx.check(float(hom[n][0]) <= TOL_TABLE, f"M1:DOP853 embedded weights {nm} have order {q}",
                              {"source": name, "order": n, "residual": float(hom[n][0]), "tree": rt.tree_str(hom[n][1])})
            Afull, Cfull, D = (np.asarray(v, float) for v in (rk.DOP853_A, rk.DOP853_C, rk.DOP853_D))
            next_, power = int(rk.DOP853_N_STAGES_EXTENDED), int(rk.DOP853_INTERPOLATOR_POWER)
            Afl = lower_square(Afull, next_)
            ctx.check(np.array_equal(Afl[:s, :s], rep["Asq"]) and np.array_equal(Afl[s, :s], b),
                      "M1:DOP853 extended tableau starts with the step tableau and the FSAL row", {"s": s})
            rows = float(rt.row_sum_residual(rt.mp_matrix(Afl), rt.mp_vector(Cfull[:next_])))
            ctx.stat("M1 row-sum residual [DOP853 extended]", rows)
            ctx.check(rows <= TOL_TABLE, "M1:row sums c_i = sum_j a_ij", {"source": name + " extended", "residual": rows})
            Wf = rt.Weights(rt.mp_matrix(Afl))
            for theta in (0.05, 0.2, 0.35, 0.5, 0.65, 0.85, 1.0):
                bth = _b_theta_dop853(b, D, next_, power, theta)
                cr = rt.continuous_residuals(None, bth, rt.MP.mpf(theta), 7, weights=Wf)
                for n in range(1, 8):
                    ctx.stat("M1 DOP853 D continuous residual (orders<=7)", float(cr[n][0]))
                    ctx.check(float(cr[n][0]) <= TOL_TABLE, "M1:DOP853 dense output D satisfies the continuous order conditions to order 7",
                              {"source": name, "theta": theta, "order": n, "residual": float(cr[n][0]),
                               "tree": rt.tree_str(cr[n][1])})


# ======================================================================================= M2
def _agree(lib, model, tol=TOL_STEP):
    lib = np.asarray(lib, dtype=float)
    mod = np.asarray(model, dtype=LD)
    d = float(np.max(np.abs(lib.astype(LD) - mod)))
    return d, d <= tol * (1.0 + float(np.max(np.abs(lib))))


def m2_stepping(ctx, env, n_fields):
    from hiten.algorithms.integrators import rk
    from hiten.algorithms.integrators.rk import AdaptiveRK, FixedRK
    from hiten.algorithms.poincare.centermanifold import backend as cmb
    rng = ctx.rng
    f_ld = ef.universal_rhs

    for it in range(n_fields):
        if not ctx.mine(it):
            continue
        kind = it % 4
        t0 = float(np.round(rng.uniform(-3, 3), 3))
        if kind in (0, 1):
            P = ef.make_randfield(rng, n=int(rng.integers(1, 5)), K=int(rng.integers(2, 5)), t0=t0)
        elif kind == 2:
            P = ef.make_forced(rng, n=int(rng.integers(1, 4)), t0=t0)
        else:
            P = ef.make_linrot(rng, n=int(rng.integers(2, 6)), time_dependent=True, t0=t0)
        nsteps = [1, 1, 3, 7][int(rng.integers(4))]
        hs = rng.uniform(0.02, 0.4, nsteps) / P.rate
        tv = np.concatenate([[P.t0], P.t0 + np.cumsum(hs)])
        y0 = P.y0
        sysm = env.system(P.dim)
        # the field really depends on t at the initial point (otherwise a dropped c_i*h is invisible)
        dfdt = float(np.max(np.abs(f_ld(LD(P.t0 + 0.05 / P.rate), y0.astype(LD)) - f_ld(LD(P.t0), y0.astype(LD)))))
        for order in (4, 6, 8):
            integ = FixedRK(order=order)
            A, b, c = (np.asarray(v, float) for v in (integ._A, integ._B_HIGH, integ._C))
            sol = integ.integrate(sysm, y0.copy(), tv.copy())
            model = rk_model_path(f_ld, y0, tv, lower_square(A, len(b)), b, c)
            d, ok = _agree(sol.states, model)
            ctx.case(f"M2:fixed{order}:generic", [P.key(), tv.tolist()], nontrivial=dfdt > 1e-6)
            ctx.stat("M2 |lib - longdouble model| fixed generic", d)
            ctx.check(ok and np.array_equal(sol.times, tv), "M2:fixed-step kernel == longdouble RK model with the loaded tableau [generic]",
                      lambda: {"problem": P.describe(), "order": order, "t_vals": tv, "max_abs_diff": d,
                               "lib_last": sol.states[-1], "model_last": model[-1].astype(float)})
        if it < 2:
            ctx.sample({"monitor": "M2", "problem": P.describe(), "t_vals": tv, "df_dt_probe": dfdt})
        # single-step kernels of the adaptive schemes
        h = float(hs[0])
        f = sysm.rhs
        i45 = AdaptiveRK(order=5)
        A, b, c, E = (np.asarray(v, float) for v in (i45._A, i45._B_HIGH, i45._C, i45._E))
        out = rk.rk45_step_jit_kernel(f, float(P.t0), y0.copy(), h, i45._A, i45._B_HIGH, i45._C, i45._E)
        yh, kst = rk_model(f_ld, P.t0, y0, h, lower_square(A, len(b)), b, c)
        kst = kst + [f_ld(LD(P.t0) + LD(h), yh)]
        err = LD(h) * sum(LD(E[j]) * kst[j] for j in range(len(E)))
        d1, ok1 = _agree(out[0], yh)
        d2 = float(np.max(np.abs(out[2].astype(LD) - err)))
        ctx.case("M2:rk45_step", [P.key(), h], nontrivial=dfdt > 1e-6)
        ctx.stat("M2 |lib - model| rk45 step", d1)
        ctx.stat("M2 |lib - model| rk45 error vector", d2)
        ctx.check(ok1 and d2 <= TOL_STEP * (1 + float(np.max(np.abs(y0)))), "M2:rk45_step_jit_kernel == longdouble model (state and error vector)",
                  lambda: {"problem": P.describe(), "h": h, "diff_state": d1, "diff_err": d2})
        i8 = AdaptiveRK(order=8)
        A, b, c = (np.asarray(v, float) for v in (i8._A, i8._B_HIGH, i8._C))
        E5, E3 = np.asarray(i8._E5, float), np.asarray(i8._E3, float)
        out = rk.dop853_step_jit_kernel(f, float(P.t0), y0.copy(), h, i8._A, i8._B_HIGH, i8._C, i8._E5, i8._E3)
        yh, kst = rk_model(f_ld, P.t0, y0, h, lower_square(A, len(b)), b, c)
        kst = kst + [f_ld(LD(P.t0) + LD(h), yh)]
        e5 = LD(h) * sum(LD(E5[j]) * kst[j] for j in range(len(E5)))
        e3 = LD(h) * sum(LD(E3[j]) * kst[j] for j in range(len(E3)))
        d1, ok1 = _agree(out[0], yh)
        d2 = max(float(np.max(np.abs(out[3].astype(LD) - e5))), float(np.max(np.abs(out[4].astype(LD) - e3))))
        ctx.case("M2:dop853_step", [P.key(), h], nontrivial=dfdt > 1e-6)
        ctx.stat("M2 |lib - model| dop853 step", d1)
        ctx.stat("M2 |lib - model| dop853 error vectors", d2)
        ctx.check(ok1 and d2 <= TOL_STEP * (1 + float(np.max(np.abs(y0)))), "M2:dop853_step_jit_kernel == longdouble model (state, err5, err3)",
                  lambda: {"problem": P.describe(), "h": h, "diff_state": d1, "diff_err": d2})

    # ---- Hamiltonian twin and the centre-manifold copy (autonomous polynomial fields)
    he = env.hamenv()
    for it in range(max(2, n_fields // 8)):
        if not ctx.mine(it):
            continue
        ham, x0, rate = random_polyham(rng)
        hs_sys = he.system(ham)
        nsteps = [1, 4][it % 2]
        hh = rng.uniform(0.05, 0.4, nsteps) / rate
        tv = np.concatenate([[0.0], np.cumsum(hh)])
        for order in (4, 6, 8):
            integ = FixedRK(order=order)
            A, b, c = (np.asarray(v, float) for v in (integ._A, integ._B_HIGH, integ._C))
            before = env.calls.get("_integrate_fixed_rk_ham", 0)
            sol = integ.integrate(hs_sys, x0.copy(), tv.copy())
            if env.calls and env.calls.get("_integrate_fixed_rk_ham", 0) == before:
                ctx.skip("Hamiltonian system did not take the Hamiltonian kernel")
            model = rk_model_path(ham.field, x0, tv, lower_square(A, len(b)), b, c)
            d, ok = _agree(sol.states, model)
            ctx.case(f"M2:fixed{order}:hamiltonian", [sorted(map(str, ham.mons.items())), tv.tolist()], nontrivial=True)
            ctx.stat("M2 |lib - longdouble model| fixed hamiltonian", d)
            ctx.check(ok, "M2:fixed-step kernel == longdouble RK model with the loaded tableau [hamiltonian]",
                      lambda: {"monomials": {str(e): cc for e, cc in ham.mons.items()}, "x0": x0, "order": order,
                               "t_vals": tv, "max_abs_diff": d})
            Ac, bc, cc_ = cmb._get_rk_coefficients(order)
            traj = cmb._integrate_rk_ham(x0.copy(), tv.copy(), Ac, bc, cc_, hs_sys.jac_H, hs_sys.clmo_H)
            modelc = rk_model_path(ham.field, x0, tv, lower_square(np.asarray(Ac, float), len(bc)), np.asarray(bc, float),
                                   np.asarray(cc_, float))
            d, ok = _agree(traj, modelc)
            ctx.case(f"M2:fixed{order}:cm-copy", [sorted(map(str, ham.mons.items())), tv.tolist()], nontrivial=True)
            ctx.stat("M2 |lib - longdouble model| centre-manifold copy", d)
            ctx.check(ok, "M2:_integrate_rk_ham == longdouble RK model with the tableau of _get_rk_coefficients",
                      lambda: {"monomials": {str(e): cc for e, cc in ham.mons.items()}, "x0": x0, "order": order,
                               "t_vals": tv, "max_abs_diff": d})


# ======================================================================================= M3
LEVEL_RATIO = {4: 2.0, 6: 2.0 ** (2.0 / 3.0), 8: 2.0 ** 0.4}
H0_RATE = {4: 0.5, 6: 0.8, 8: 1.5}        # coarsest step: h * (fastest rate of the problem)
HMAX_RATE = {4: 1.0, 6: 1.0, 8: 1.5}      # a rate is used only when the coarser step resolves the fastest rate
N_LEVELS = {4: 7, 6: 9, 8: 14}
RATE_STABLE = 0.35                         # the two finest conclusive rates must agree this well
NCHK = 8                                   # check-points per run


def convergence(run, ref_at, T, t0, rate, p, lo, scale):
    """RMS errors of run(t_nodes) -> states over NCHK check-points for a geometric sequence of step counts.

    Returns (levels m, errors, conclusive rates, family rate).  A rate is conclusive when both errors lie in
    [lo, WINDOW_HI] and the coarser step resolves the fastest rate.  The family rate is the mean of the two finest
    conclusive rates (the asymptotic end of the window) provided they agree to RATE_STABLE; None otherwise.  (A scheme
    whose leading error coefficient is small shows the order of the *next* term on coarse steps, and the dominant
    phase error a h^p + b h^(p+1) changes sign at some h: local rates overshoot before and undershoot after.)"""
    ratio = LEVEL_RATIO[p]
    m0 = max(1, int(np.ceil(T * rate / H0_RATE[p] / NCHK)))
    ms = []
    for k in range(N_LEVELS[p]):
        m = int(round(m0 * ratio ** k))
        if not ms or m > ms[-1]:
            ms.append(m)
    tc = t0 + T * np.arange(1, NCHK + 1) / NCHK
    ref = ref_at(tc)
    errs = []
    for m in ms:
        tn = np.linspace(t0, t0 + T, NCHK * m + 1)
        st = run(tn)
        if st.shape[0] != tn.size:
            raise RuntimeError("integrator returned a truncated trajectory")
        e = float(np.sqrt(np.mean((st[m::m][:NCHK] - ref) ** 2))) / scale
        errs.append(e)
        if e < lo / 30:
            break
    rates = []
    for k in range(len(errs) - 1):
        h = T / (NCHK * ms[k])
        if lo <= errs[k + 1] and errs[k] <= WINDOW_HI and h * rate <= HMAX_RATE[p] and errs[k + 1] > 0:
            rates.append(float(np.log(errs[k] / errs[k + 1]) / np.log(ms[k + 1] / ms[k])))
    fam = None
    if len(rates) >= 2 and abs(rates[-1] - rates[-2]) <= RATE_STABLE:
        fam = 0.5 * (rates[-1] + rates[-2])
    return ms[:len(errs)], errs, rates, fam


def _reaches_window(ctx, tag, p, problem, T, rate, ms, errs):
    """Gross loss of order: with the finest step used (h*rate <= 0.06) a scheme of order >= 4 is far below the top of
    the conclusive window (measured <= 1e-9); a first-order scheme (swapped weights, dropped c_i*h) never enters it."""
    h_rate = T / (NCHK * ms[-1]) * rate
    ctx.stat("M3 error at the finest step used", errs[-1])
    ctx.check(errs[-1] <= WINDOW_HI, "M3:error at the finest step lies below the top of the conclusive window (1e-3)",
              lambda: {"scheme": tag, "requested_order": p, "problem": problem, "steps": [NCHK * m for m in ms],
                       "errors": errs, "finest_h_times_rate": h_rate})


def _judge_scheme(ctx, tag, p, fam_rates, min_fams):
    """fam_rates: {family label: median conclusive rate}."""
    vals = np.array(list(fam_rates.values()), dtype=float)
    if vals.size < min_fams:
        ctx.mark_inconclusive(f"M3 {tag}: only {vals.size} families with a conclusive rate (need {min_fams})")
        return
    med, mn = float(np.median(vals)), float(np.min(vals))
    ctx.stat(f"M3 shortfall p - median rate [{tag}]", p - med)
    ctx.stat(f"M3 shortfall p - min family rate [{tag}]", p - mn)
    ctx.note(f"M3 family rates {tag}", {k: round(v, 3) for k, v in fam_rates.items()})
    wit = {"scheme": tag, "requested_order": p, "median_rate": med, "min_rate": mn, "n_families": int(vals.size),
           "family_rates": fam_rates}
    ctx.check(med >= p - 0.25, "M3:median conclusive convergence rate >= p - 0.25", wit, classify_rate(p, med))
    # a family of the order-5 scheme may sit anywhere in [5 - 0.7, 5.5]; only tagged when the scheme-level median is
    # per-family rates in a finite window scatter (thorough sweep, seed 3: 7.15 for one family of the order-8 scheme whose other eight
    # families gave 7.7-9.3); the scheme-level median above is the deciding clause, this one only guards against a single family
    # collapsing by more than one order
    ctx.check(mn >= p - 1.2, "M3:every family's conclusive convergence rate >= p - 1.2", wit,
              MECH_RK6 if classify_rate(p, med) and 4.3 <= mn <= 5.5 else None)


def _generic_table(env, P, p, factory):
    sysm = env.system(P.dim)
    y0 = P.y0
    scale = max(1.0, float(np.max(np.abs(P.exact(np.linspace(P.t0, P.t0 + P.T, 33))))))
    lo = max(WINDOW_LO[p], 10 * P.accuracy() / scale)

    def run(tn):
        return factory(order=p).integrate(sysm, y0.copy(), tn).states[:, :P.n]
    return convergence(run, P.exact, P.T, P.t0, P.rate, p, lo, scale)


def _ham_table(HP, hs_sys, p, path):
    from hiten.algorithms.integrators.rk import FixedRK
    from hiten.algorithms.poincare.centermanifold import backend as cmb
    lo = max(WINDOW_LO[p], 10 * HP.accuracy())
    if path == "hamiltonian":
        def run(tn):
            return FixedRK(order=p).integrate(hs_sys, HP.x0.copy(), tn).states
    else:
        A, b, c = cmb._get_rk_coefficients(p)

        def run(tn):
            return cmb._integrate_rk_ham(HP.x0.copy(), tn, A, b, c, hs_sys.jac_H, hs_sys.clmo_H)
    return convergence(run, HP.exact, HP.T, 0.0, HP.rate, p, lo, 1.0)


def new_ham(ctx, env):
    # a random cubic/quartic perturbation can let the chosen initial state escape (the reference flow then blows up and SciPy
    # gives up): such a draw is not a test problem — reject it here (counted) instead of failing the sub-monitor later
    for _ in range(40):
        ham, x0, rate = random_polyham(ctx.rng)
        HP = HamProblem(ham, x0, rate, T=4 * 2 * np.pi / rate)
        try:
            path = HP.exact(np.linspace(0.0, HP.T, 65))
            if np.all(np.isfinite(path)) and float(np.max(np.abs(path))) < 2.0 and HP.accuracy() < 1e-9:
                return HP, env.hamenv().system(ham)
        except RuntimeError:
            pass
        ctx.count("M3/M4:random polynomial Hamiltonian rejected (reference path escapes or is not accurate)")
    raise RuntimeError("no bounded random polynomial Hamiltonian in 40 draws")


def new_duffing(ctx, env):
    ham, x0, rate = duffing_polyham(ctx.rng)
    HP = HamProblem(ham, x0, rate, T=float(ctx.rng.uniform(10.0, 20.0)))
    HP.label = HP.family = "duffing"
    HP.tols = [1e-4, 1e-5, 1e-6, 1e-8]
    return HP, env.hamenv().system(ham)


def m3_order(ctx, env, probs, hams):
    """Empirical order.  A family whose finite-window estimate falls below p - 0.5 gets up to two further opinions on
    fresh random instances of the same family (a dip of the leading error term is instance specific, a loss of order is
    not); the best estimate is the family's rate."""
    from hiten.algorithms.integrators.rk import FixedRK, RungeKutta
    for p in (4, 6, 8):
        fam_rates = {}
        for P in probs:
            factory = RungeKutta if P.code % 2 else FixedRK
            ms, errs, rates, fam = _generic_table(env, P, p, factory)
            ctx.case(f"M3:fixed{p}:generic", [P.key(), ms], nontrivial=fam is not None)
            _reaches_window(ctx, f"fixed{p} generic", p, P.describe(), P.T, P.rate, ms, errs)
            for _ in range(2):
                if fam is None or fam >= p - 0.5:
                    break
                P2 = P.sibling(ctx.rng)
                ms2, errs2, rates2, fam2 = _generic_table(env, P2, p, factory)
                ctx.case(f"M3:fixed{p}:generic", [P2.key(), ms2], nontrivial=fam2 is not None)
                ctx.count("M3:second opinion on a sibling instance")
                if fam2 is not None:
                    fam = max(fam, fam2)
            if fam is not None:
                fam_rates[P.label] = fam
                ctx.count(f"M3:conclusive family [fixed{p} generic]")
            else:
                ctx.skip(f"M3 fixed{p}: family without two stable conclusive rates")
            if P is probs[0] or P is probs[-1]:
                ctx.sample({"monitor": "M3", "scheme": f"fixed{p}", "problem": P.describe(), "steps": [NCHK * m for m in ms],
                            "errors": errs, "conclusive_rates": rates, "family_rate": fam})
        _judge_scheme(ctx, f"fixed{p} generic", p, fam_rates, 6)

        # polynomial Hamiltonians: library's Hamiltonian kernel and the centre-manifold copy
        for path in ("hamiltonian", "cm-copy"):
            fam_rates = {}
            for i, (HP, hs_sys) in enumerate(hams):
                ms, errs, rates, fam = _ham_table(HP, hs_sys, p, path)
                ctx.case(f"M3:fixed{p}:{path}", [HP.key(), ms], nontrivial=fam is not None)
                _reaches_window(ctx, f"fixed{p} {path}", p, HP.describe(), HP.T, HP.rate, ms, errs)
                for _ in range(2):
                    if fam is None or fam >= p - 0.5:
                        break
                    HP2, hs2 = new_ham(ctx, env)
                    _, _, _, fam2 = _ham_table(HP2, hs2, p, path)
                    ctx.count("M3:second opinion on a sibling instance")
                    if fam2 is not None:
                        fam = max(fam, fam2)
                if fam is not None:
                    fam_rates[f"polyham{i}"] = fam
                    ctx.count(f"M3:conclusive family [fixed{p} {path}]")
                if i == 0 and path == "hamiltonian":
                    ctx.sample({"monitor": "M3", "scheme": f"fixed{p} hamiltonian", "problem": HP.describe(),
                                "steps": [NCHK * m for m in ms], "errors": errs, "conclusive_rates": rates})
            _judge_scheme(ctx, f"fixed{p} {path}", p, fam_rates, 2)


# ======================================================================================= M4
def _yardstick(P, order, tol):
    """SciPy's implementation of the same published method (RK45 = Dormand-Prince 5(4), DOP853) at the same
    tolerances on the same (augmented) system.  Used (a) to size the output grids relative to the step sequence and
    (b) as the yardstick for what the method's *continuous extension* can deliver: the error of a dense output is not
    controlled by the step-size controller and exceeds tol by factors of 1e2..1e3 for SciPy and hiten alike when the
    steps are long (measured: forced scalar problem, DOP853, tol 1e-10: SciPy 5.9e-8, hiten 1.1e-7)."""
    from scipy.integrate import solve_ivp
    if isinstance(P, HamProblem):
        fun, y0, n = P.ham.field, P.x0, 6
    else:
        f = ef.numba_rhs()

        def fun(t, y):
            return f(float(t), y)
        y0, n = P.y0, P.n
    s = solve_ivp(fun, (P.t0, P.t0 + P.T), y0, method="RK45" if order == 5 else "DOP853", rtol=tol, atol=tol,
                  dense_output=True)
    if not s.success:
        raise RuntimeError("yardstick integration failed")
    nst = max(2, s.t.size - 1)
    tt = np.linspace(P.t0, P.t0 + P.T, min(50 * nst, 40000) + 1)
    dense_err = float(np.max(np.abs(s.sol(tt)[:n].T - P.exact(tt))))
    return nst, dense_err


def _grids(rng, t0, T, nsteps, which):
    out = []
    for g in which:
        if g == "endpoint":
            out.append((g, np.array([t0, t0 + T])))
        elif g == "coarse":
            out.append((g, np.linspace(t0, t0 + T, max(3, min(7, nsteps // 3 + 2)))))
        elif g == "comparable":
            out.append((g, np.linspace(t0, t0 + T, nsteps + 1)))
        elif g == "fine":
            out.append((g, np.linspace(t0, t0 + T, min(50 * nsteps, 40000) + 1)))
        elif g == "nonuniform":
            m = int(min(3 * nsteps, 3000))
            u = np.sort(rng.uniform(0, 1, m))
            # clusters: near-duplicates, points hugging both ends
            extra = np.concatenate([u[: m // 10] + 1e-9, [1e-12, 1e-6, 1 - 1e-6, 1 - 1e-12]])
            u = np.unique(np.concatenate([[0.0], u, extra, [1.0]]))
            u = u[(u >= 0) & (u <= 1)]
            tg = t0 + T * u
            tg[-1] = t0 + T
            tg = np.unique(tg)
            out.append((g, tg))
    return out


def m4_adaptive(ctx, env, probs, hams, tols):
    from hiten.algorithms.integrators.rk import AdaptiveRK, RungeKutta
    rng = ctx.rng
    items = [(P, env.system(P.dim), ["coarse", "comparable", "fine", "nonuniform", "endpoint"]) for P in probs]
    items += [(HP, hs_sys, ["coarse", "fine", "endpoint"]) for HP, hs_sys in hams]
    for P, sysm, gridnames in items:
        is_ham = isinstance(P, HamProblem)
        kap, acc = P.kappa(), P.accuracy()
        y0 = P.x0.copy() if is_ham else P.y0
        n = P.n
        dil = float(np.sqrt(len(y0) / n))           # constant components dilute the RMS error norm of the controller
        tref = np.linspace(P.t0, P.t0 + P.T, 65)
        scale = 1.0 + float(np.max(np.abs(P.exact(tref))))
        for order in (5, 8):
            fine_err, nsteps, yard = {}, {}, {}
            if order == 8 and not is_ham and P.n == 1 and P.code == ef.FORCED:
                # guard: on the scalar forced problem (quadrature dominated, one component, steps of h*nu ~ 1-3) the
                # DOP853 error estimator is blind: SciPy's implementation misses the tolerance by > 200x in 5 % and
                # hiten's in 9 % of 120 runs (max 4e3 / 4e3); no other family exceeds 25x (hiten) / 140x (SciPy)
                ctx.skip("M4: DOP853 on the scalar forced problem is outside the method's reliable regime")
                continue
            tols_here = list(getattr(P, "tols", tols))
            for tol in tols_here:
                nst, e_yard = _yardstick(P, order, tol)
                nsteps[tol], yard[tol] = nst, e_yard
                for gname, tg in _grids(rng, P.t0, P.T, nst, gridnames):
                    if order == 5:
                        integ = AdaptiveRK(order=5, rtol=tol, atol=tol) if gname != "coarse" else RungeKutta(order=45, rtol=tol, atol=tol)
                    else:
                        integ = AdaptiveRK(order=8, rtol=tol, atol=tol) if gname != "coarse" else RungeKutta(order=853, rtol=tol, atol=tol)
                    tg_in = tg.copy()
                    sol = integ.integrate(sysm, y0.copy(), tg_in)
                    ref = P.exact(tg)
                    st = np.asarray(sol.states)
                    cls = f"M4:adaptive{order}:{('hamiltonian-' + P.family) if is_ham else 'generic'}:{gname}"
                    ctx.case(cls, [P.key(), order, tol, gname, tg.size], nontrivial=gname != "endpoint")

                    def wit(extra=None):
                        w = {"problem": P.describe(), "order": order, "tol": tol, "grid": gname, "n_times": tg.size,
                             "t_first": tg[0], "t_last": tg[-1], "kappa": kap, "ref_accuracy": acc}
                        w.update(extra or {})
                        return w
                    ctx.check(st.shape == (tg.size, len(y0)) and np.array_equal(np.asarray(sol.times), tg) and np.array_equal(tg_in, tg),
                              "M4:returned times equal the requested times", lambda: wit({"states_shape": st.shape}))
                    if st.shape != (tg.size, len(y0)):
                        continue
                    ctx.check(np.array_equal(st[0], y0), "M4:first sample equals y0 bit for bit",
                              lambda: wit({"y0": y0, "first": st[0]}))
                    ctx.check(np.array_equal(st[:, n:], np.broadcast_to(y0[n:], st[:, n:].shape)),
                              "M4:components with zero derivative stay constant", wit)
                    errt = np.max(np.abs(st[:, :n] - ref), axis=1)
                    e = float(np.max(errt))
                    # the end point is a step node (no interpolation); every other requested time goes through the
                    # continuous extension, whose error the controller does not see: allowance = 10 x yardstick
                    dense = gname != "endpoint"
                    bound = (K_ADAPTIVE if dense else K_NODE) * tol * kap * scale * dil + 10 * acc + (DENSE_ALLOW * e_yard if dense else 0.0)
                    ratio = max(0.0, e - 10 * acc) / (tol * kap * scale * dil)
                    ctx.stat(f"M4 error/(tol*kappa*scale) [adaptive{order}{' hamiltonian' if is_ham else ''}, {'dense' if dense else 'node'}]", ratio)
                    ctx.stat(f"M4 error/bound [grid {gname}]", e / bound)
                    if dense and e_yard > 0:
                        ctx.stat(f"M4 error/(SciPy same-method dense error) [adaptive{order}]", max(0.0, e - 10 * acc) / e_yard)
                    neighbours = []
                    if e > bound:
                        # embedded estimators are occasionally blind on a single step (SciPy's too); such a miss is gone
                        # at a neighbouring tolerance, a defect of the stepping or of the continuous extension is not
                        for fac in (0.5, 2.0):
                            s2 = AdaptiveRK(order=order, rtol=tol * fac, atol=tol * fac).integrate(sysm, y0.copy(), tg.copy())
                            e2 = float(np.max(np.abs(np.asarray(s2.states)[:, :n] - ref)))
                            neighbours.append(e2 / (bound * max(fac, 1.0)))
                        ctx.count("M4:bound exceeded, neighbouring tolerances consulted")
                    ctx.check(e <= bound or min(neighbours) <= 1.0,
                              "M4:error at every requested time <= K*tol*kappa (dense output included)",
                              lambda: wit({"max_error": e, "bound": bound, "t_worst": tg[int(np.argmax(errt))],
                                           "ratio_to_tol_kappa": ratio, "scipy_same_method_dense_error": e_yard,
                                           "error_over_bound_at_half_and_double_tol": neighbours}))
                    if gname == "fine":
                        fine_err[tol] = e
            # error shrinks with the tolerance: least-squares slope of log(sup error on the fine grid) against log(tol)
            # over all tolerances above the reference floor.  Asymptotically the slope is (q+1)/(p+1) ~ 0.8-0.9; single
            # long steps make the sup of a dense output jump by a factor ~10 either way (measured: one DOP853 run at
            # 1e-11 as inaccurate as at 1e-9, SciPy's own DOP853 gaining 11x from 1e-10 to 1e-12), so the clause asks
            # for slope >= SHRINK_SLOPE over a span of at least 1e4 - or an error already at the dense-output yardstick.
            floor = max(1e-13 * scale, 30 * acc)
            pts = [(tol, fine_err[tol]) for tol in tols_here if tol in fine_err and fine_err[tol] > floor]
            if len(pts) >= 3 and pts[0][0] / pts[-1][0] >= 1e4 * (1 - 1e-9):
                lx, ly = np.log([q[0] for q in pts]), np.log([q[1] for q in pts])
                slope = float(np.polyfit(lx, ly, 1)[0])
                tmin, emin = pts[-1]
                ctx.stat("M4 shortfall of the error-vs-tolerance slope below 0.8", 0.8 - slope)
                ctx.check(slope >= SHRINK_SLOPE or emin <= DENSE_ALLOW * yard[tmin],
                          "M4:error shrinks with the tolerance (log-log slope >= 0.3 over >= 4 decades)",
                          {"problem": P.describe(), "order": order, "tolerances": [q[0] for q in pts], "sup_errors": [q[1] for q in pts],
                           "slope": slope, "floor": floor, "scipy_same_method_dense_error_at_tightest": yard[tmin]})
            else:
                ctx.skip("M4 shrink clause: fewer than three tolerances above the reference floor")


# ======================================================================================= M4c mixed tolerances
K_MIXED = 400.0            # |err_i| <= K (atol + rtol max|y_i|): measured <= 25 on the unchanged tree (orders 5 and 8)


def m4_mixed_tolerances(ctx, env, n_cases):
    """rtol and atol far apart, state far from unit magnitude: the step-acceptance scale atol + rtol |y_i| must be the one the
    user asked for.  (With rtol == atol and |y| ~ 1 — every other M4 case — the two tolerances are interchangeable.)
    Problem: two uncoupled rotations (closed form), all components of one common magnitude so that no component's control
    forces small steps on another's behalf."""
    from hiten.algorithms.integrators.rk import AdaptiveRK
    rng = ctx.rng
    for it in range(n_cases):
        if not ctx.mine(it):
            continue
        regime = ["tiny_state_relative_control", "large_state_absolute_control"][it % 2]
        if regime == "tiny_state_relative_control":
            amp = 10.0 ** float(rng.uniform(-5, -3))
            rtol, atol = 10.0 ** float(rng.uniform(-7, -5)), 1e-14 * amp
        else:
            amp = 10.0 ** float(rng.uniform(2, 4))
            atol, rtol = 10.0 ** float(rng.uniform(-7, -5)), 1e-13
        om = rng.uniform(0.6, 1.6, 2)
        S = np.zeros((4, 4))
        for k in range(2):
            S[2 * k, 2 * k + 1], S[2 * k + 1, 2 * k] = om[k], -om[k]
        x0 = rng.normal(size=4)
        x0 *= amp / np.abs(x0).max()
        rate = float(om.max())
        P = ef.Problem(ef.LINROT, x0, np.concatenate([S.ravel(), [0.0, 0.0, 1.0, 0.0]]), 0.0, 3 * 2 * np.pi / rate, rate,
                       {"Q": np.eye(4), "omega": om}, "linrot4_uncoupled_scaled")
        tg = np.linspace(0.0, P.T, int(rng.choice([2, 61, 401])))
        ref_ = P.exact(tg)
        amp_i = np.abs(ref_).max(axis=0)
        for order in (5, 8):
            sol = AdaptiveRK(order=order, rtol=rtol, atol=atol).integrate(env.system(P.dim), P.y0.copy(), tg.copy())
            st = np.asarray(sol.states)[:, :4]
            err_i = np.abs(st - ref_).max(axis=0)
            req = atol + rtol * amp_i
            ratio = float(np.max(err_i / req))
            ctx.case(f"M4c:adaptive{order}:{regime}", [it, ctx.seed, order, regime, tg.size], nontrivial=True)
            ctx.stat(f"M4c max_i err_i/(atol + rtol max|y_i|) [adaptive{order}, {regime}]", ratio)
            ctx.check(ratio <= K_MIXED + 50 * 2e-16 * amp / float(req.min()),
                      "M4c:per-component error <= K (atol + rtol max|y_i|) with rtol != atol and |y| far from 1",
                      lambda: {"regime": regime, "order": order, "rtol": rtol, "atol": atol, "amplitude": amp, "omega": om, "x0": x0, "T": P.T,
                               "n_times": tg.size, "err_per_component": err_i, "requested_scale": req, "ratio": ratio})


# ======================================================================================= M4d restricted domain
def m4_restricted_domain(ctx, env, n_cases):
    """A vector field that is smooth on a domain containing the solution and NaN outside it (logarithm of a negative number), with
    two time scales so that the controller's first trial step — sized by the slow, large component — carries the small, fast
    component out of the domain: x0' = -a x0, x1' = -b x1 log(x1/c) (closed form).  A trial step with non-finite stages must be
    rejected and retried with a smaller step; the returned states must be finite and within the requested tolerance."""
    from hiten.algorithms.integrators.rk import AdaptiveRK
    rng = ctx.rng
    dim = 26                       # same augmented dimension as the M4c problems: no further kernel specialisation
    for it in range(n_cases):
        if not ctx.mine(it):
            continue
        a = 10.0 ** float(rng.uniform(-4, -2.5))
        b = float(rng.uniform(2.0, 8.0))
        c = 10.0 ** float(rng.uniform(-6, -5))
        x1 = c * 10.0 ** float(rng.uniform(0.7, 1.3))
        tol = 10.0 ** float(rng.uniform(-11, -7))
        T = float(rng.uniform(1.0, 3.0))
        tg = np.linspace(0.0, T, int(rng.choice([2, 31, 301])))
        y0 = ef.logdecay_state(1.0, x1, a, b, c, dim)
        ref_ = ef.logdecay_exact(1.0, x1, a, b, c, tg)
        # model evidence that the hostile path is driven: an explicit Euler trial of the length given by the standard initial-step
        # heuristic (0.01 |y0/scale| / |f0/scale|) leaves the domain
        f0 = ef.universal_rhs(0.0, y0)[:2]
        sc = tol + tol * np.abs(y0[:2])
        h0 = 0.01 * np.linalg.norm(y0[:2] / sc) / np.linalg.norm(f0 / sc)
        if y0[1] + h0 * f0[1] < 0:
            ctx.count("M4d:trial step of the standard initial-step heuristic leaves the domain (model)")
        for order in (5, 8):
            ctx.case(f"M4d:adaptive{order}:restricted_domain", [it, ctx.seed, order, tg.size, tol], nontrivial=True)
            wit = lambda: {"order": order, "rtol=atol": tol, "a": a, "b": b, "c": c, "x0": [1.0, x1], "T": T, "n_times": tg.size}
            try:
                sol = AdaptiveRK(order=order, rtol=tol, atol=tol).integrate(env.system(dim), y0.copy(), tg.copy())
            except (RuntimeError, ValueError, FloatingPointError) as exc:
                # declining with an error is not a silently wrong answer; the statement does not forbid it
                ctx.count("M4d:integrator declined the restricted-domain problem with an error — accepted")
                continue
            st = np.asarray(sol.states)[:, :2]
            finite = bool(np.all(np.isfinite(st)))
            ctx.check(finite, "M4d:states returned for a field with a restricted domain are finite (non-finite trial stages are rejected, not accepted)",
                      lambda: {**wit(), "first_nonfinite_row": int(np.argmax(~np.isfinite(st).all(axis=1)))})
            if not finite:
                continue
            err = np.abs(st - ref_).max(axis=0)
            ratio = float(np.max(err / (tol + tol * np.abs(ref_).max(axis=0))))
            ctx.stat(f"M4d max_i err_i/(atol + rtol max|y_i|) [adaptive{order}]", ratio)
            ctx.check(ratio <= K_MIXED, "M4d:error <= K (atol + rtol max|y_i|) on a field with a restricted domain (contracting flow, kappa <= 1)",
                      lambda: {**wit(), "err": err, "ratio": ratio})


# ======================================================================================= M4e user-limited step
def m4_max_step(ctx, env, n_cases):
    """A smooth feature of the vector field far narrower than the step the error controller would choose (a Gaussian bump of width
    sigma in a time-dependent forcing next to a slow oscillator): no embedded error estimate can see what no stage samples, so the
    user bounds the step (max_step = sigma/2).  With that legitimate setting the requested tolerance must be met at every output
    time; a driver that lets the step grow past max_step after an accepted step jumps over the bump."""
    from hiten.algorithms.integrators.rk import AdaptiveRK
    rng = ctx.rng
    dim = 26
    for it in range(n_cases):
        if not ctx.mine(it):
            continue
        sigma = 10.0 ** float(rng.uniform(-2.7, -2.0))
        T = float(rng.uniform(4.0, 8.0))
        tc = float(rng.uniform(0.25, 0.85)) * T
        A = float(rng.uniform(0.5, 2.0)) / (sigma * np.sqrt(2 * np.pi))          # bump integral of order 1
        x, v = rng.normal(size=2)
        tol = 10.0 ** float(rng.uniform(-10, -7))
        tg = np.linspace(0.0, T, int(rng.choice([2, 9])))
        y0 = ef.bump_state(A, tc, sigma, x, v, dim)
        ref_ = ef.bump_exact(A, tc, sigma, x, v, tg)
        for order in (5, 8):
            ctx.case(f"M4e:adaptive{order}:max_step", [it, ctx.seed, order, tg.size, tol], nontrivial=True)
            sol = AdaptiveRK(order=order, rtol=tol, atol=tol, max_step=sigma / 2).integrate(env.system(dim), y0.copy(), tg.copy())
            st = np.asarray(sol.states)[:, :3]
            err = float(np.abs(st - ref_).max())
            # quadrature error of ~T/(sigma/2) steps accumulates at most linearly: K tol (1 + number of steps / 100) is generous
            bound = K_ADAPTIVE * tol * (1.0 + np.abs(ref_).max()) * (1.0 + T / sigma / 100.0)
            ctx.stat(f"M4e err/bound [adaptive{order}]", err / bound)
            ctx.check(err <= bound, "M4e:error <= K*tol with a user-limited step (max_step) on a field with a narrow feature",
                      lambda: {"order": order, "rtol=atol": tol, "sigma": sigma, "t_bump": tc, "T": T, "max_step": sigma / 2, "n_times": tg.size,
                               "err": err, "bound": bound, "u_end_lib": st[-1, 0], "u_end_exact": ref_[-1, 0]})


# ======================================================================================= M4b time-unit invariance
def classify_timescale(order, c, ratio_scaled, ratio_base, rk45_scaled, rk45_base):
    """The DOP853 drivers multiply an error estimate that already carries one factor h by |h| once more, so a step is
    accepted when h * err <= 1: the same problem written in a c-times faster time unit (steps c times shorter) is
    integrated ~c^(8/9) times less accurately (measured: x50 for c = 1e2, x2100 for c = 1e4), while RK45 (correct norm)
    is not affected.  Recognised by exactly that: order 8, c >= 100, accuracy loss >= min(c^0.5, 100) relative to the
    unscaled twin on the same output grid (the loss saturates for c >= 1e6), RK45 twin unchanged (within a factor 5 or
    still below a tenth of its bound)."""
    if order != 8 or c < 100:
        return None
    growth = ratio_scaled / max(ratio_base, 1e-3)
    twin_unaffected = rk45_scaled <= max(5.0 * rk45_base, 10.0)      # ratios are in units of tol*kappa*scale; the bound is >= 100
    return MECH_DOP_H if growth >= min(c ** 0.5, 100.0) and twin_unaffected else None


def m4_timescale(ctx, env, n_base, scales, tols):
    """The quantifier of the property includes the time unit: the same closed-form problem with all rates multiplied by
    c (span divided by c) has the same solution values, hence the same bound K*tol*kappa."""
    from hiten.algorithms.integrators.rk import AdaptiveRK
    rng = ctx.rng
    makers = [lambda: ef.make_linrot(rng, n=3, damped=True), lambda: ef.make_forced(rng, n=2),
              lambda: ef.make_logistic(rng), lambda: ef.make_linrot(rng, n=2), lambda: ef.make_forced(rng, n=3),
              lambda: ef.make_linrot(rng, n=4, time_dependent=True)]
    for ib in range(n_base):
        if not ctx.mine(ib):
            continue
        P = makers[ib % len(makers)]()
        kap, acc = P.kappa(), P.accuracy()
        scale = 1.0 + float(np.max(np.abs(P.exact(np.linspace(P.t0, P.t0 + P.T, 65)))))
        dil = float(np.sqrt(P.dim / P.n))

        def measure(R, order, tol):
            nst, e_yard = _yardstick(R, order, tol)
            out = {}
            for gname, tg in _grids(rng, R.t0, R.T, nst, ["endpoint", "fine"]):
                sol = AdaptiveRK(order=order, rtol=tol, atol=tol).integrate(env.system(R.dim), R.y0, tg.copy())
                st = np.asarray(sol.states)
                e = float(np.max(np.abs(st[:, :R.n] - R.exact(tg))))
                dense = gname != "endpoint"
                bound = (K_ADAPTIVE if dense else K_NODE) * tol * kap * scale * dil + 10 * acc + (DENSE_ALLOW * e_yard if dense else 0.0)
                ok = e <= bound
                if not ok:      # same second opinion as in M4: a single blind step does not survive a neighbouring tolerance
                    for fac in (0.5, 2.0):
                        s2 = AdaptiveRK(order=order, rtol=tol * fac, atol=tol * fac).integrate(env.system(R.dim), R.y0, tg.copy())
                        e2 = float(np.max(np.abs(np.asarray(s2.states)[:, :R.n] - R.exact(tg))))
                        ok = ok or e2 <= bound * max(fac, 1.0)
                    ctx.count("M4:bound exceeded, neighbouring tolerances consulted")
                out[gname] = (e, bound, max(e - 10 * acc, 0.0) / (tol * kap * scale * dil), np.array_equal(st[0], R.y0), ok)
            return out
        for tol in tols:
            base = {order: measure(P, order, tol) for order in (5, 8)}
            for c in scales:
                R = P.rescaled(c)
                got = {order: measure(R, order, tol) for order in (5, 8)}
                for order in (5, 8):
                    for gname in ("endpoint", "fine"):
                        e, bound, ratio, first_ok, ok = got[order][gname]
                        ctx.case(f"M4b:adaptive{order}:time unit x{c:g}", [P.key(), c, order, tol, gname], nontrivial=True)
                        ctx.stat(f"M4b error/bound [adaptive{order}, time unit x{c:g}]", e / bound)
                        mech = classify_timescale(order, c, got[8][gname][2], base[8][gname][2], got[5][gname][2], base[5][gname][2])
                        ctx.check(ok, "M4b:error <= K*tol*kappa for the same problem in every time unit",
                                  lambda: {"problem": R.describe(), "time_unit_factor": c, "order": order, "tol": tol, "grid": gname,
                                           "max_error": e, "bound": bound, "error_over_tol_kappa": ratio,
                                           "same_problem_unscaled_error_over_tol_kappa": base[order][gname][2],
                                           "rk45_error_over_tol_kappa": got[5][gname][2],
                                           "rk45_unscaled_error_over_tol_kappa": base[5][gname][2], "kappa": kap},
                                  mech)
                        ctx.check(first_ok, "M4:first sample equals y0 bit for bit", {"problem": R.describe(), "order": order})


# ======================================================================================= M5 System.propagate
def m5_cr3bp(ctx, n_cases):
    from hiten import System
    from ..oracles import cr3bp as ref
    rng = ctx.rng
    mus = [0.012150585609624, 0.04]
    systems = {}
    case_rates = {4: [], 6: [], 8: []}
    for it in range(n_cases):
        if not ctx.mine(it):
            continue
        mu = mus[it % len(mus)]
        sysm = systems.setdefault(mu, System.from_mu(mu))
        # inclined orbit around the larger primary, well inside the secondary's orbit (moderate sensitivity)
        r0 = float(rng.uniform(0.3, 0.45))
        x0 = -mu + r0
        y0 = np.array([x0, float(rng.normal() * 0.02), float(rng.uniform(0.02, 0.08)), float(rng.normal() * 0.05),
                       float(rng.uniform(0.9, 1.15) * np.sqrt((1 - mu) / r0) - r0), float(rng.normal() * 0.05)])
        tf = float(rng.uniform(3.5, 5.0))
        tfine = np.linspace(0, tf, 2001)
        rfine = ref.flow(y0, mu, tfine)
        d1 = np.min(np.hypot(np.hypot(rfine[:, 0] + mu, rfine[:, 1]), rfine[:, 2]))
        d2 = np.min(np.hypot(np.hypot(rfine[:, 0] - 1 + mu, rfine[:, 1]), rfine[:, 2]))
        if min(d1, d2) < 0.15:
            ctx.skip("M5: reference trajectory approaches a primary")
            continue
        ts = np.linspace(0, tf, 41)
        _, stm = ref.flow_stm(y0, mu, tf, t_eval=ts)
        kap = ef.two_time_sensitivity(stm)
        acc = max(float(np.max(np.abs(ref.flow(y0, mu, tfine[::50], rtol=1e-12, atol=1e-12) - rfine[::50]))), 1e-13)
        scale = 1.0 + float(np.max(np.abs(rfine)))
        rate = float(np.max(np.linalg.norm(rfine[:, 3:], axis=1) / np.hypot(np.hypot(rfine[:, 0] + mu, rfine[:, 1]), rfine[:, 2]))) + 1.0
        # ---- fixed: empirical order through the public entry point
        for p in (4, 6, 8):
            def run(tn):
                tr = sysm.propagate(y0.copy(), tf=float(tn[-1]), steps=tn.size, method="fixed", order=p)
                if not np.allclose(np.asarray(tr.times), tn, rtol=0, atol=1e-14):
                    raise RuntimeError("System.propagate returned other times than linspace(0, tf, steps)")
                return np.asarray(tr.states)
            ms, errs, rates, r = convergence(run, lambda t: ref.flow(y0, mu, t), tf, 0.0, rate, p, max(WINDOW_LO[p], 10 * acc), 1.0)
            ctx.case(f"M5:propagate fixed{p}", [mu, y0.tolist(), tf, ms], nontrivial=r is not None)
            if it < 2:
                ctx.sample({"monitor": "M5", "mu": mu, "y0": y0, "tf": tf, "order": p, "steps": [NCHK * m for m in ms],
                            "errors": errs, "conclusive_rates": rates, "kappa": kap})
            _reaches_window(ctx, f"System.propagate fixed{p}", p, {"mu": mu, "y0": y0, "tf": tf}, tf, rate, ms, errs)
            if r is None:
                ctx.skip(f"M5 fixed{p}: case without two stable conclusive rates")
                continue
            ctx.count(f"M5:conclusive case [propagate fixed{p}]")
            case_rates[p].append({"mu": mu, "y0": y0.tolist(), "tf": tf, "steps": [NCHK * m for m in ms], "errors": errs,
                                  "rate": r})
        # ---- adaptive (rtol = atol = 1e-12 inside the library)
        from scipy.integrate import solve_ivp
        tol = 1e-12
        for p in (5, 8):
            ys = solve_ivp(lambda t, y: ref.field(y, mu), (0.0, tf), y0, method="RK45" if p == 5 else "DOP853", rtol=tol, atol=tol,
                           dense_output=True)
            e_yard = float(np.max(np.abs(ys.sol(tfine).T - rfine)))       # same-method yardstick for the dense output
            for steps in (2, 9, 2001):
                tr = sysm.propagate(y0.copy(), tf=tf, steps=steps, method="adaptive", order=p)
                tt = np.linspace(0, tf, steps)
                st = np.asarray(tr.states)
                ctx.case(f"M5:propagate adaptive{p}", [mu, y0.tolist(), tf, steps], nontrivial=steps > 2)
                ctx.check(np.array_equal(np.asarray(tr.times), tt) and st.shape == (steps, 6),
                          "M5:System.propagate returns linspace(0, tf, steps)", {"steps": steps, "shape": st.shape})
                ctx.check(np.array_equal(st[0], y0), "M5:first sample equals the initial condition bit for bit", {"y0": y0, "first": st[0]})
                rr = rfine if steps == 2001 else (ref.flow(y0, mu, tt) if steps > 2 else np.vstack([y0, rfine[-1]]))
                e = float(np.max(np.abs(st - rr)))
                bound = (K_ADAPTIVE if steps > 2 else K_NODE) * tol * kap * scale + 10 * acc + (DENSE_ALLOW * e_yard if steps > 2 else 0.0)
                ctx.stat(f"M5 error/(tol*kappa*scale) [propagate adaptive{p}]", max(0.0, e - 10 * acc) / (tol * kap * scale))
                ctx.stat("M5 error/bound [propagate adaptive]", e / bound)
                ctx.check(e <= bound, "M5:System.propagate(method='adaptive') error <= K*tol*kappa",
                          {"mu": mu, "y0": y0, "tf": tf, "order": p, "steps": steps, "max_error": e, "bound": bound, "kappa": kap,
                           "scipy_same_method_dense_error": e_yard})


    # one judgement per order over this run's cases (single cases dip like single families do: see convergence())
    for p, lst in case_rates.items():
        if len(lst) < 2:
            ctx.skip(f"M5 fixed{p}: fewer than two conclusive cases")
            continue
        med = float(np.median([c["rate"] for c in lst]))
        ctx.stat(f"M5 shortfall p - median rate [propagate fixed{p}]", p - med)
        ctx.check(med >= p - 0.5, "M5:System.propagate(method='fixed', order=p) converges with median rate >= p - 0.5",
                  {"order": p, "median_rate": med, "cases": lst}, classify_rate(p, med))


# ======================================================================================= entry point
def run(ctx):
    ctx.note("rule", "case = one tableau source (M1), one (kernel, random time-dependent field, step sequence) comparison (M2), "
                     "one (scheme, problem) convergence table (M3, non-trivial iff >=1 rate inside the conclusive window), one "
                     "(scheme, tolerance, problem, output grid) adaptive run (M4, non-trivial iff the grid has interior points), one "
                     "System.propagate call or table (M5); distinct by the concrete problem parameters")
    env = Env(ctx)
    guarded(ctx, "interpose", env.count_calls)
    if ctx.mine(0):
        guarded(ctx, "M1", m1_tableaux, ctx)
    guarded(ctx, "M2", m2_stepping, ctx, env, ctx.pick(40, 400))

    nrep = ctx.pick(1, 5 * ctx.nshards)
    tols = ctx.pick([1e-6, 1e-8, 1e-10], [1e-6, 1e-7, 1e-8, 1e-9, 1e-10, 1e-11, 1e-12])
    for rep in range(nrep):
        if not ctx.mine(rep):
            continue
        probs = ef.catalogue(ctx.rng)
        hams = []

        def build_hams():
            for _ in range(3):
                hams.append(new_ham(ctx, env))
        guarded(ctx, "hamiltonian setup", build_hams)
        guarded(ctx, "M3", m3_order, ctx, env, probs, hams)
        duff = []
        guarded(ctx, "duffing setup", lambda: duff.extend(new_duffing(ctx, env) for _ in range(2)))
        guarded(ctx, "M4", m4_adaptive, ctx, env, probs, hams + duff, tols)
    guarded(ctx, "M4b", m4_timescale, ctx, env, ctx.pick(3, 6 * ctx.nshards), ctx.pick([1e-2, 1e2, 1e4], [1e-4, 1e-2, 1e1, 1e2, 1e3, 1e4, 1e6]),
            ctx.pick([1e-7, 1e-10], [1e-6, 1e-8, 1e-10, 1e-12]))
    guarded(ctx, "M4c", m4_mixed_tolerances, ctx, env, ctx.pick(8, 40 * ctx.nshards))
    guarded(ctx, "M4d", m4_restricted_domain, ctx, env, ctx.pick(8, 40 * ctx.nshards))
    guarded(ctx, "M4e", m4_max_step, ctx, env, ctx.pick(6, 30 * ctx.nshards))
    guarded(ctx, "M5", m5_cr3bp, ctx, ctx.pick(4, 8 * ctx.nshards))
    ctx.note("kernel_calls", dict(env.calls))

    one = ctx.nshards == 1
    ctx.require("M1:rooted-tree order conditions hold up to the requested order", 70)
    ctx.require("M1:RK45 dense output P satisfies the continuous order conditions to order 4", 28)
    ctx.require("M1:DOP853 dense output D satisfies the continuous order conditions to order 7", 49)
    ctx.require("M2:fixed-step kernel == longdouble RK model with the loaded tableau [generic]", 30 if one else 3)
    ctx.require("M2:fixed-step kernel == longdouble RK model with the loaded tableau [hamiltonian]", 3)
    ctx.require("M2:_integrate_rk_ham == longdouble RK model with the tableau of _get_rk_coefficients", 3)
    ctx.require("M2:rk45_step_jit_kernel == longdouble model (state and error vector)", 10 if one else 1)
    ctx.require("M2:dop853_step_jit_kernel == longdouble model (state, err5, err3)", 10 if one else 1)
    ctx.require("M3:median conclusive convergence rate >= p - 0.25", 9)
    ctx.require("M4:error at every requested time <= K*tol*kappa (dense output included)", 300)
    ctx.require("M4:error shrinks with the tolerance (log-log slope >= 0.3 over >= 4 decades)", 10)
    ctx.require("M4:first sample equals y0 bit for bit", 300)
    ctx.require("M4b:error <= K*tol*kappa for the same problem in every time unit", 40)
    ctx.require("M4d:states returned for a field with a restricted domain are finite (non-finite trial stages are rejected, not accepted)", 8 if one else 2)
    ctx.require("M4e:error <= K*tol with a user-limited step (max_step) on a field with a narrow feature", 8 if one else 2)
    ctx.require("M4d:trial step of the standard initial-step heuristic leaves the domain (model)", 4 if one else 1)
    ctx.require("M5:System.propagate(method='fixed', order=p) converges with median rate >= p - 0.5", 2)
    ctx.require("M5:System.propagate(method='adaptive') error <= K*tol*kappa", 6)
