"""C16 — the symplectic integrator is symplectic, reversible and energy-bounded, and has its declared order.

Events: _recursive_update_poly(q_ext, h, order, omega, jac_H, clmo) as a map on R^12; ExtendedSymplectic(order).integrate(...).
Oracle: finite-difference Jacobian + extended canonical form; SciPy DOP853 (1e-13) on J grad H computed independently from the
coefficient dictionary; exact energy from the dictionary.
"""
from __future__ import annotations

import itertools

import numpy as np
from scipy.integrate import solve_ivp

from ..core import guarded
from .. import polyutil as pu

MECH_ORDER = "triple-jump-exponent-gives-order-2"

# extended canonical form for the ordering (Q, P, X, Y)
_Z = np.zeros((3, 3))
_I = np.eye(3)
J12 = np.block([[_Z, _I, _Z, _Z], [-_I, _Z, _Z, _Z], [_Z, _Z, _Z, _I], [_Z, _Z, -_I, _Z]])


def random_hamiltonian(rng, kind, degree):
    """dict {exponents: coeff}: positive quadratic part + random higher-order terms."""
    H = {}
    w = rng.uniform(0.5, 2.0, 3)
    for i in range(3):
        k = [0] * 6
        k[i] = 2
        H[tuple(k)] = 0.5 * w[i]
        k = [0] * 6
        k[3 + i] = 2
        H[tuple(k)] = 0.5 * rng.uniform(0.7, 1.5)
    if kind != "separable":
        # quadratic q.p coupling (rotating-frame like) makes it non separable already at second order
        H[(0, 1, 0, 1, 0, 0)] = rng.uniform(-0.5, 0.5)
        H[(1, 0, 0, 0, 1, 0)] = rng.uniform(-0.5, 0.5)
    n_terms = int(rng.integers(3, 9))
    for _ in range(n_terms):
        d = int(rng.integers(3, degree + 1))
        if kind == "separable":
            vars_ = [0, 1, 2] if rng.random() < 0.6 else [3, 4, 5]
        elif kind == "cross":
            vars_ = [0, 1, 2, 3, 4, 5]
        else:
            vars_ = [0, 1, 2, 3, 4, 5] if rng.random() < 0.5 else [0, 1, 2]
        k = [0] * 6
        for v in rng.choice(vars_, size=d):
            k[int(v)] += 1
        H[tuple(k)] = H.get(tuple(k), 0.0) + rng.uniform(-0.3, 0.3)
    return H


def step_map(sys_, order, omega):
    from hiten.algorithms.integrators.symplectic import _recursive_update_poly

    def S(z, h):
        q = np.array(z, dtype=float, copy=True)
        _recursive_update_poly(q, float(h), int(order), float(omega), sys_.jac_H, sys_.clmo_H)
        return q
    return S


def ref_flow(H, y0, T):
    sol = solve_ivp(lambda t, y: pu.ham_field(H, y), (0.0, T), y0, method="DOP853", rtol=1e-13, atol=1e-13)
    return sol.y[:, -1]


def one_step_structure(ctx, n_cases):
    rng = ctx.rng
    it = -1
    for kind, order in itertools.product(["separable", "nonseparable", "cross"], [2, 4, 6, 8]):
        for rep in range(max(1, n_cases // 12)):
            it += 1
            if not ctx.mine(it):
                continue
            degree = int(rng.integers(3, 7))
            H = random_hamiltonian(rng, kind, degree)
            hs = pu.hamiltonian_system(H, degree)
            omega = float(np.exp(rng.uniform(np.log(0.5), np.log(50))))
            h = float(rng.choice([-1, 1]) * np.exp(rng.uniform(np.log(1e-3), np.log(0.2))))
            z = rng.uniform(-0.3, 0.3, 12)
            S = step_map(hs, order, omega)
            ctx.case(f"step:{kind}:order{order}", [it, ctx.seed, degree], nontrivial=True)
            if it < 3:
                ctx.sample({"kind": kind, "order": order, "degree": degree, "omega": omega, "h": h, "n_terms": len(H)})

            def wit():
                return {"kind": kind, "order": order, "degree": degree, "omega": omega, "h": h, "z": z, "H": {str(k): v for k, v in H.items()}}
            # (1) symplecticity on the extended space
            d = 1e-6
            D = np.zeros((12, 12))
            for j in range(12):
                e = np.zeros(12)
                e[j] = d
                D[:, j] = (S(z + e, h) - S(z - e, h)) / (2 * d)
            defect = np.abs(D.T @ J12 @ D - J12).max()
            ctx.stat(f"symplectic_defect[order{order}]", defect)
            ctx.check(defect <= 2e-7 * max(1.0, np.linalg.norm(D, 2) ** 2), "1:one step is a symplectic map of the extended phase space",
                      lambda: {**wit(), "defect": defect})
            # (2) reversibility
            zb = S(S(z, h), -h)
            rdef = np.abs(zb - z).max()
            ctx.stat(f"reversibility_defect[order{order}]", rdef)
            ctx.check(rdef <= 1e-12 * max(1.0, np.abs(z).max()) * max(1.0, omega * abs(h) * 10), "2:opposite step restores the state up to rounding",
                      lambda: {**wit(), "defect": rdef})
            # (2b) the same with the coupling constant the integrator itself would use for +h and for -h (its documented heuristic):
            # a step of the integrator and the opposite step of the integrator must undo each other
            from hiten.algorithms.integrators.symplectic import _get_tao_omega, _recursive_update_poly
            hh = abs(h) if abs(h) > 5e-3 else 5e-3     # keep omega*h moderate so that rounding in the rotation stays at 1e-12 level
            cc = float(rng.choice([5.0, 20.0]))
            w_p, w_m = float(_get_tao_omega(hh, order, cc)), float(_get_tao_omega(-hh, order, cc))
            zz = np.array(z, dtype=float, copy=True)
            _recursive_update_poly(zz, hh, int(order), w_p, hs.jac_H, hs.clmo_H)
            _recursive_update_poly(zz, -hh, int(order), w_m, hs.jac_H, hs.clmo_H)
            rdef2 = np.abs(zz - z).max()
            ctx.stat(f"reversibility_defect_with_heuristic_omega[order{order}]", rdef2)
            ctx.check(rdef2 <= 1e-9 * max(1.0, np.abs(z).max()), "2b:opposite step with the integrator's own coupling constant restores the state",
                      lambda: {**wit(), "h_used": hh, "c": cc, "omega(+h)": w_p, "omega(-h)": w_m, "defect": rdef2})
            # diagonal invariance is NOT required of the numerical map; but a step with h = 0 must be the identity
            z0 = S(z, 0.0)
            ctx.check(np.abs(z0 - z).max() <= 1e-15, "2:zero step is the identity", wit)


def convergence(ctx, n_cases):
    """(3) with omega fixed and X=Q, Y=P initially, errors against the exact flow of H show the declared order."""
    rng = ctx.rng
    rates = {2: [], 4: [], 6: [], 8: []}
    it = -1
    for rep in range(n_cases):
        for order in (2, 4, 6, 8):
            it += 1
            if not ctx.mine(it):
                continue
            kind = ["separable", "nonseparable", "cross"][rep % 3]
            degree = int(rng.integers(3, 6))
            H = random_hamiltonian(rng, kind, degree)
            hs = pu.hamiltonian_system(H, degree)
            omega = float(rng.uniform(1.0, 6.0))
            y0 = rng.uniform(-0.25, 0.25, 6)
            T = 1.0
            yref = ref_flow(H, y0, T)
            S = step_map(hs, order, omega)
            errs = []
            ns = {2: (40, 80, 160, 320), 4: (10, 20, 40, 80), 6: (10, 20, 40, 80), 8: (8, 16, 32, 64)}[order]
            for n in ns:
                z = np.concatenate([y0, y0])
                h = T / n
                for _ in range(n):
                    z = S(z, h)
                errs.append(np.abs(z[:6] - yref).max())
            ctx.case(f"convergence:order{order}", [it, ctx.seed, kind, degree], nontrivial=True)
            # asymptotic rate: the finest pair of resolutions whose errors lie in the conclusive window
            r = []
            for a, b in zip(errs[:-1], errs[1:]):
                if 2e-12 < b and a < 1e-3:
                    r.append(np.log2(max(a / b, 1e-3)))
            if r:
                rate = float(r[-1])
                rates[order].append(rate)
                ctx.count(f"3:conclusive rate[order{order}]")
                ctx.stat(f"min_rate[order{order}]", -rate)
            if rep == 0:
                ctx.note(f"errors_example[order{order}]", [float(e) for e in errs])
    for order, rr in rates.items():
        if len(rr) >= 3:
            med = float(np.median(rr))
            ctx.note(f"median_rate[order{order}]", med)
            ctx.note(f"rates[order{order}]", [round(v, 2) for v in rr[:20]])
            mech = MECH_ORDER if (order > 2 and 1.6 <= med <= 2.4) else None
            ctx.check(med >= order - 0.5, f"3:converges at its declared order with omega fixed[order{order}]",
                      {"order": order, "median_rate": med, "rates": [round(v, 2) for v in rr[:20]]}, mech)
        elif ctx.nshards == 1:
            ctx.mark_inconclusive(f"too few conclusive convergence rates for order {order}: {len(rr)}")


def energy_longrun(ctx, n_cases):
    """(4) bounded energy error over long integrations through the public integrator."""
    from hiten.algorithms.integrators.symplectic import ExtendedSymplectic
    rng = ctx.rng
    it = -1
    for rep in range(n_cases):
        for order in (2, 4):
            it += 1
            if not ctx.mine(it):
                continue
            kind = ["separable", "nonseparable", "cross"][rep % 3]
            H = random_hamiltonian(rng, kind, 4)
            # keep the motion bounded: small amplitude
            y0 = rng.uniform(-0.12, 0.12, 6)
            hs = pu.hamiltonian_system(H, 4)
            n = ctx.pick(20000, 60000)
            dt = 0.01
            t = np.arange(n + 1) * dt
            integ = ExtendedSymplectic(order=order)
            sol = integ.integrate(hs, y0, t)
            S = np.asarray(sol.states)
            if not np.all(np.isfinite(S)) or np.abs(S).max() > 1.0:
                ctx.skip("trajectory left the small-amplitude region (unbounded polynomial Hamiltonian)")
                continue
            E = np.array([pu.eval_dict(H, s).real for s in S[::20]])
            dE = E - E[0]
            half = len(dE) // 2
            a1, a2 = np.abs(dE[:half]).max(), np.abs(dE[half:]).max()
            tt = t[::20]
            slope = np.polyfit(tt, dE, 1)[0]
            amp = np.abs(dE).max()
            ctx.case(f"energy:order{order}", [it, ctx.seed, kind], nontrivial=True)
            ctx.stat(f"energy_amp[order{order}]", amp)
            ctx.stat("energy_drift*T/amp", abs(slope) * tt[-1] / (amp + 1e-300))
            ctx.check(a2 <= 3 * a1 + 1e-13 and abs(slope) * tt[-1] <= 0.5 * amp + 1e-13, "4:energy error stays bounded (no secular drift)",
                      {"order": order, "kind": kind, "first_half_max": a1, "second_half_max": a2, "slope": slope, "T": tt[-1], "amp": amp, "y0": y0})
            # faithful composition: public integrator == repeated one-step map with the documented omega heuristic
            from hiten.algorithms.integrators.symplectic import _get_tao_omega
            Sm = step_map(hs, order, _get_tao_omega(dt, order, integ.c_omega_heuristic))
            z = np.concatenate([y0, y0])
            for _ in range(50):
                z = Sm(z, dt)
            ctx.check(np.abs(z[:6] - S[50]).max() <= 1e-9, "5:integrate() is the composition of one-step maps", {"err": np.abs(z[:6] - S[50]).max()})
            ctx.check(np.array_equal(S[0], y0) and np.array_equal(np.asarray(sol.times), t), "5:first sample is y0, times as requested", {})
            # the same on grids whose node spacing changes (alternating and graded): one step per node interval, coupling constant from
            # that interval, ONE extended state carried through the whole call (lifted from y0 once) — what makes each step undoable
            for gname, tg in (("alternating", np.concatenate([[0.0], np.cumsum(np.tile([0.6 * dt, 1.4 * dt], 30))])),
                              ("graded", 0.8 * np.linspace(0.0, 1.0, 61) ** float(rng.uniform(1.3, 2.0)))):
                soln = integ.integrate(hs, y0, tg.copy())
                Sn = np.asarray(soln.states)
                z = np.concatenate([y0, y0])
                worst = 0.0
                for k_ in range(len(tg) - 1):
                    hk = float(tg[k_ + 1] - tg[k_])
                    z = step_map(hs, order, _get_tao_omega(hk, order, integ.c_omega_heuristic))(z, hk)
                    worst = max(worst, float(np.abs(z[:6] - Sn[k_ + 1]).max()))
                ctx.case(f"composition:{gname}:order{order}", [it, ctx.seed, kind, gname], nontrivial=True)
                ctx.stat(f"composition_defect[{gname}]", worst)
                ctx.check(worst <= 1e-9, "5:integrate() on a grid with changing node spacing is the composition of one-step maps of one extended state",
                          {"order": order, "kind": kind, "grid": gname, "err": worst, "y0": y0, "grid_head": tg[:5]})


def run(ctx):
    ctx.note("rule", "case = (random polynomial Hamiltonian of degree<=6 in 3 dof: separable / non-separable / with q.p cross terms; order; "
                     "step; omega; state); all non-trivial; distinct by generator index and seed")
    guarded(ctx, "structure", one_step_structure, ctx, ctx.pick(48, 2400))
    guarded(ctx, "convergence", convergence, ctx, ctx.pick(6, 60))
    guarded(ctx, "energy", energy_longrun, ctx, ctx.pick(3, 18))
    ctx.require("1:one step is a symplectic map of the extended phase space", 12 if ctx.nshards == 1 else 2)
    ctx.require("2:opposite step restores the state up to rounding", 12 if ctx.nshards == 1 else 2)
    ctx.require("4:energy error stays bounded (no secular drift)", 2 if ctx.nshards == 1 else 1)
