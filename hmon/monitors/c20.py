"""C20 — cached and reloaded objects always reflect their current logical state.

Events : return values of public methods / properties of Orbit, System, LibrationPoint, CenterManifold and Manifold
         along operation histories (including save -> load -> continue and delete -> gc -> re-create).
Oracle : cache-free twin (hmon/oracles/twin.py): the same history replayed on a freshly built object while every
         memo is bypassed (get_or_create interposed, pipeline registry private, attribute memos cleared).
         For the id()-keyed process-wide caches: a direct key/owner invariant and the SciPy CR3BP flow.
Verdict: value of step n on the long-lived object == value of step n on the twin (arrays 1e-9 relative to the array
         magnitude, exceptions by type).  The first mismatch of a history is one violation; its mechanism is decided
         by a classifier predicate over the witness (culprit step = first step after which return value or passive
         logical state of the two sides differ, cache events of that step).
"""
from __future__ import annotations

import dataclasses
import gc
import itertools
import os
import shutil
import tempfile
import warnings

import numpy as np

from ..core import guarded
from ..oracles import twin as tw
from ..oracles.twin import Op

RTOL = 1e-9

MECH_A = "correct-memo-key-drops-nested-option-values"
MECH_B = "trajectory-attribute-not-updated-when-propagate-served-from-memo"
MECH_C = "correct-memo-served-although-orbit-state-changed-since-it-was-made"
MECH_D = "cm-hamiltonian-degree-switch-skipped-on-memo-hit"
MECH_E = "get-center-manifold-returns-memo-whose-degree-was-changed"
MECH_F = "scale-factor-memo-key-ignores-its-arguments"
MECH_G = "stability-memo-entries-alias-one-mutable-pipeline"
MECH_H = "manifold-memo-not-invalidated-when-generating-orbit-changes"
MECH_I = "manifold-result-attribute-not-updated-when-compute-served-from-memo"
MECH_J = "save-evaluates-every-dynamics-property-and-fails-when-one-raises"
MECH_K = "reload-resurrects-computed-data-dropped-since-the-previous-load"

MU_B = 0.05
AMPS = (0.01, 0.02, 0.03)


# =============================================================================== environment
class Env:
    """Long-lived shared objects (one System per mass ratio: every new System recompiles the integrators)."""

    def __init__(self, ctx, spy):
        from hiten.system.base import System
        self.ctx, self.spy = ctx, spy
        self.sa = System.from_bodies("earth", "moon")
        self.sb = None
        self.L1 = self.sa.get_libration_point(1)
        self.tmp = tempfile.mkdtemp(prefix="c20_", dir=os.environ.get("HITEN_SCRATCH") or None)
        self._n = 0
        self._pref = {}
        self._xref = {}
        self._pexact = {}

    def system_b(self):
        if self.sb is None:
            from hiten.system.base import System
            self.sb = System.from_mu(MU_B)
        return self.sb

    def path(self, stem):
        self._n += 1
        return os.path.join(self.tmp, f"{stem}_{self._n}.pkl")

    def p_ref(self, A):
        """Reference period of the amplitude-A Lyapunov orbit, rounded so that it never equals a corrected period."""
        if A not in self._pref:
            o = self.L1.create_orbit("lyapunov", amplitude_x=A)
            o.correct()
            self._pref[A] = round(float(o.period), 6)
            self._xref[A] = np.array(o.initial_state, dtype=float)
            self._pexact[A] = float(o.period)
        return self._pref[A]

    def close(self):
        shutil.rmtree(self.tmp, ignore_errors=True)


def _traj(t):
    return {"times": np.array(t.times, dtype=float), "states": np.array(t.states, dtype=float)}


def _ham(h):
    return {"degree": int(h.degree), "poly_H": tuple(np.array(p) for p in h.poly_H)}


def _f(v):
    return None if v is None else float(v)


# =============================================================================== Orbit
class OrbitFamily:
    name = "orbit"

    def __init__(self, env):
        self.env = env
        tmpl = env.L1.create_orbit("lyapunov", amplitude_x=AMPS[0]).correction_options

        def conv(**kw):
            base = tmpl.base
            return dataclasses.replace(tmpl, base=dataclasses.replace(base, convergence=dataclasses.replace(base.convergence, **kw)))
        # D: object default | L: looser tolerance | M: other max_attempts | X: impossible (must raise)
        self.opts = {"D": None, "L": conv(tol=1e-8), "M": conv(max_attempts=25), "X": conv(max_attempts=1, tol=1e-15)}
        self.tols = {"D": tmpl.base.convergence.tol, "L": 1e-8, "M": tmpl.base.convergence.tol, "X": 1e-15}
        self.ops = {}
        for v in self.opts:
            self._add(Op(f"correct_{v}", self._correct(v), mutates=True, memo_tag="correct", kind="correct", arg=v))
        for which in ("P", "half", "exact"):
            self._add(Op(f"set_period_{which}", self._set_period(which), mutates=True, kind="set_period", arg=which))
        for steps in (30, 60):
            for meth, order in (("adaptive", 8), ("fixed", 4), ("fixed", 6)):
                self._add(Op(f"propagate_{steps}_{meth}{order}", self._propagate(steps, meth, order), mutates=True,
                             memo_tag="propagate", kind="propagate", arg=(steps, meth, order)))
        self._add(Op("trajectory", lambda h: _traj(h["o"].trajectory), kind="trajectory"))
        self._add(Op("monodromy", lambda h: np.array(h["o"].monodromy), memo_tag="monodromy"))
        self._add(Op("stability_indices", lambda h: np.array(h["o"].stability_indices), memo_tag="stability"))
        self._add(Op("eigenvalues", lambda h: np.array(h["o"].eigenvalues), memo_tag="stability"))
        self._add(Op("energy", lambda h: float(h["o"].energy)))
        self._add(Op("jacobi", lambda h: float(h["o"].jacobi)))
        self._add(Op("period", lambda h: _f(h["o"].period)))
        self._add(Op("initial_state", lambda h: np.array(h["o"].initial_state)))
        self._add(Op("saveload", self._saveload, twin_fn=lambda h: "reloaded", kind="saveload"))

    def _add(self, op):
        self.ops[op.name] = op

    def _correct(self, v):
        def fn(h):
            o = h["o"]
            r = o.correct() if self.opts[v] is None else o.correct(self.opts[v])
            return {"converged": bool(r.converged), "x_corrected": np.array(r.x_corrected), "half_period": float(r.half_period),
                    "residual_within_requested_tol": bool(r.residual_norm <= self.tols[v])}
        return fn

    def _set_period(self, which):
        def fn(h):
            P = self.env.p_ref(h["A"])
            if which == "exact":
                # bitwise the period a correction of this orbit returns (taken from a twin corrected outside any monitored step):
                # a later correct() then changes the state but not the period, so invalidation cannot ride on the period setter
                h["o"].period = self.env._pexact[h["A"]]
            else:
                h["o"].period = P if which == "P" else 0.5 * P
            return None
        return fn

    @staticmethod
    def _propagate(steps, meth, order):
        return lambda h: _traj(h["o"].propagate(steps=steps, method=meth, order=order))

    def _saveload(self, h):
        p = self.env.path("orbit")
        h["o"].save(p)
        h["o"] = type(h["o"]).load(p)
        os.remove(p)
        return "reloaded"

    # -- family protocol
    def fresh(self, params, twin):
        # start = "guess": analytical first guess of amplitude A (correction needs ~12 Newton steps)
        # start = "ref"  : constructed from an already corrected state (correction converges at once: cheap prefix)
        if params.get("start", "guess") == "ref":
            self.env.p_ref(params["A"])
            o = self.env.L1.create_orbit("lyapunov", initial_state=self.env._xref[params["A"]].copy())
        else:
            o = self.env.L1.create_orbit("lyapunov", amplitude_x=params["A"])
        return {"o": o, "A": params["A"]}

    def dispose(self, h):
        h.clear()

    def params_key(self, params):
        return (params["A"], params.get("start", "guess"))

    def clear_twin_memos(self, h):
        o = h["o"]
        o.dynamics._stability_info = None
        o._correction._corrector = None

    def fingerprint(self, h):
        d = h["o"].dynamics
        tr = d._trajectory
        trs = None
        if tr is not None:
            st = np.asarray(tr.states, dtype=float)
            trs = (len(tr.times), float(tr.times[-1]), tuple(map(float, st[-1])), tuple(map(float, st[len(st) // 2])))
        return (tuple(map(float, d._initial_state)), _f(d._period), trs)

    def fp_equal(self, a, b):
        return tw.compare(a, b, RTOL)[0]

    def relevant(self, opname):
        """Fingerprint components (0 initial_state, 1 period, 2 stored trajectory) the operation's value depends on."""
        return (2,) if self.ops[opname].kind == "trajectory" else (0, 1)

    def nontrivial(self, history):
        seen_mut = False
        for n in history:
            op = self.ops[n]
            if seen_mut and not op.mutates:
                return True
            seen_mut = seen_mut or op.mutates or op.kind == "saveload"
        return False

    # -- classifier over the witness
    @staticmethod
    def classify_correct(ops, steps, k):
        """Culprit step k is a correct(options) call: which memo defect (if any) explains it?"""
        op = ops[steps[k].op]
        hit = [key for (t, h, key) in steps[k].events if t == "correct" and h]
        if not hit:
            return None
        j = next((i for i in range(k) if not isinstance(steps[i].real, tw.Exc) for (t, h, key) in steps[i].events
                  if t == "correct" and not h and key == hit[0]), None)   # the step that stored the entry
        if j is None:
            return None
        creator = ops[steps[j].op]
        if creator.kind == "correct" and creator.arg != op.arg:
            return MECH_A          # entry created for other option values served for these
        if creator.arg == op.arg and k >= 1 and steps[k - 1].fp_real[:2] != steps[j].fp_real[:2]:
            return MECH_C          # same options, but (initial_state, period) changed since: neither re-run nor re-applied
        return None

    def classify(self, res):
        steps, n = res["steps"], res["mismatch"]
        k = tw.first_divergence(self, steps, n, RTOL)
        op = self.ops[steps[k].op]
        if op.kind == "correct":
            mech = self.classify_correct(self.ops, steps, k)
            if mech:
                return k, mech
        if op.kind == "propagate" and steps[k].own_hit and self.ops[steps[n].op].kind == "trajectory" and n > k:
            last_exec = next((i for i in range(k - 1, -1, -1) if self.ops[steps[i].op].kind == "propagate"
                              and any(t == "propagate" and not h for (t, h, _) in steps[i].events)), None)
            if (last_exec is not None and self.ops[steps[last_exec].op].arg != op.arg
                    and not isinstance(steps[n].real, tw.Exc) and not isinstance(steps[last_exec].real, tw.Exc)
                    and tw.compare(steps[n].real, steps[last_exec].real, 0.0)[0]
                    and tw.compare(steps[n].twin, steps[k].real, RTOL)[0]):
                return k, MECH_B                  # attribute still holds the previously *executed* propagation
        hist_ops = [self.ops[st.op] for st in steps[:k + 1]]
        if (op.kind == "saveload" and sum(1 for o in hist_ops if o.kind == "saveload") >= 2
                and isinstance(steps[n].twin, tw.Exc) and not isinstance(steps[n].real, tw.Exc)
                and self.ops[steps[n].op].kind in ("trajectory", "read")):
            return k, MECH_K                      # a second save/load brought back data the object had dropped after the first load
        return k, None



# =============================================================================== Manifold
MTAG = "adaptive"           # compute_manifold's key has no tag of its own; its first string is the integration method
STAG = "<untagged:4>"       # compute_stability's key of a libration point: (id(point), option items)


class ManifoldFamily:
    """Unstable (thorough: also stable) manifold of a corrected Lyapunov orbit; the generating orbit is part of the state."""
    name = "manifold"
    ARGS = {"A": dict(step=0.25, integration_fraction=0.2), "B": dict(step=0.5, integration_fraction=0.2),
            "C": dict(step=0.25, integration_fraction=0.3)}

    def __init__(self, env, orbit_family):
        self.env, self.of = env, orbit_family
        self.ops = {}
        for v in self.ARGS:
            self._add(Op(f"m.compute_{v}", self._compute(v), mutates=True, memo_tag=MTAG, kind="m_compute", arg=v))
        self._add(Op("m.trajectories", lambda h: self._trajs(h["m"].trajectories), kind="m_read"))
        self._add(Op("m.result", lambda h: self._res(h["m"].result), kind="m_read"))
        self._add(Op("o.set_period_half", orbit_family.ops["set_period_half"].fn, mutates=True, kind="set_period"))
        self._add(Op("o.set_period_P", orbit_family.ops["set_period_P"].fn, mutates=True, kind="set_period"))
        self._add(Op("o.correct_D", orbit_family.ops["correct_D"].fn, mutates=True, memo_tag="correct", kind="correct", arg="D"))
        self._add(Op("o.period", orbit_family.ops["period"].fn))
        self._add(Op("m.saveload", self._saveload, twin_fn=lambda h: "reloaded", kind="saveload"))

    def _add(self, op):
        self.ops[op.name] = op

    @staticmethod
    def _trajs(tl):
        return None if tl is None else tuple(_traj(t) for t in tl)

    @staticmethod
    def _res(r):
        if r is None:
            return None
        ysos, dysos, states, times, n_ok, n_all = r
        return {"ysos": tuple(np.array(a) for a in ysos), "dysos": tuple(np.array(a) for a in dysos),
                "states": tuple(np.array(a) for a in states), "times": tuple(np.array(a) for a in times),
                "n_success": int(n_ok), "n_total": int(n_all)}

    def _compute(self, v):
        return lambda h: self._res(h["m"].compute(show_progress=False, **self.ARGS[v]))

    def _saveload(self, h):
        p = self.env.path("manifold")
        h["m"].save(p)
        h["m"] = type(h["m"]).load(p)
        h["o"] = h["m"].generating_orbit
        os.remove(p)
        return "reloaded"

    def fresh(self, params, twin):
        # generating orbit built from a corrected state with its exact period (no correct() call: no memo is made here)
        h = self.of.fresh({"A": params["A"], "start": "ref"}, twin)
        h["o"].period = self.env._pexact[params["A"]]
        h["m"] = h["o"].manifold(stable=params.get("stable", False), direction="positive")
        return h

    def dispose(self, h):
        h.clear()

    def params_key(self, params):
        return (params["A"], params.get("stable", False))

    def clear_twin_memos(self, h):
        self.of.clear_twin_memos(h)
        h["m"].dynamics._generator = None

    def fingerprint(self, h):
        r = h["m"].dynamics._manifold_result
        rs = None
        if r is not None:
            st = r[2]
            rs = (len(st), int(r[4]), int(r[5])) + ((len(st[0]), tuple(map(float, np.asarray(st[0])[-1]))) if len(st) else ())
        return self.of.fingerprint(h)[:2] + (rs,)

    def fp_equal(self, a, b):
        return tw.compare(a, b, RTOL)[0]

    def relevant(self, opname):
        return (2,) if self.ops[opname].kind == "m_read" else (0, 1)

    def nontrivial(self, history):
        seen = False
        for n in history:
            op = self.ops[n]
            if seen and (not op.mutates or op.kind == "m_compute"):
                return True
            seen = seen or op.mutates or op.kind == "saveload"
        return False

    def classify(self, res):
        steps, n = res["steps"], res["mismatch"]
        k = tw.first_divergence(self, steps, n, RTOL)
        op = self.ops[steps[k].op]
        if op.kind == "correct":
            return k, OrbitFamily.classify_correct(self.ops, steps, k)   # defect of the generating orbit, not of the manifold
        if op.kind != "m_compute":
            return k, None

        def orbit_state_before(i):
            return (steps[i - 1].fp_real if i >= 1 else res["fp0"])[:2]
        if n == k:
            # some memo of the manifold service (result, STM, stability) served at this step was computed while the
            # generating orbit had another (initial_state, period)
            for (t, h, key) in steps[k].events:
                if not (h and t in (MTAG, "<untagged:4>", "<untagged:5>")):
                    continue
                j = next((i for i in range(k) if not isinstance(steps[i].real, tw.Exc) for (t2, h2, key2) in steps[i].events
                          if t2 == t and not h2 and key2 == key), None)
                if j is not None and orbit_state_before(j) != orbit_state_before(k):
                    return k, MECH_H
            return k, None
        if not steps[k].own_hit:
            return k, None
        if n > k and self.ops[steps[n].op].kind == "m_read":
            last_exec = next((i for i in range(k - 1, -1, -1) if self.ops[steps[i].op].kind == "m_compute"
                              and any(t == MTAG and not h for (t, h, _) in steps[i].events)), None)
            if last_exec is not None and self.ops[steps[last_exec].op].arg != op.arg:
                return k, MECH_I                  # attribute still holds the previously *executed* computation
        return k, None


# =============================================================================== LibrationPoint
class PointFamily:
    """Three fresh points per history: pa = L1(Earth-Moon), pb = L4(mu=.05, linearly unstable), pc = L2(mu=.05)."""
    name = "point"

    def __init__(self, env):
        from hiten.algorithms.linalg.options import EigenDecompositionOptions
        self.env = env
        self.eopts = {"D": EigenDecompositionOptions(delta=1e-6, tol=1e-6), "B": EigenDecompositionOptions(delta=0.9, tol=1e-6)}
        self.linear_modes_error = {}
        self.ops = {}
        for p in ("pa", "pb", "pc"):
            self._add(Op(f"{p}.position", lambda h, p=p: np.array(h[p].position), memo_tag="position"))
            self._add(Op(f"{p}.energy", lambda h, p=p: float(h[p].energy), memo_tag="energy"))
            self._add(Op(f"{p}.jacobi", lambda h, p=p: float(h[p].jacobi), memo_tag="jacobi_constant"))
            self._add(Op(f"{p}.linear_modes", lambda h, p=p: tuple(h[p].dynamics.linear_modes), memo_tag="linear_modes"))
            self._add(Op(f"{p}.normal_form_transform", lambda h, p=p: tuple(np.array(m) for m in h[p].normal_form_transform),
                         memo_tag="normal_form_transform"))
            self._add(Op(f"{p}.eigenvalues", lambda h, p=p: tuple(np.array(e) for e in h[p].eigenvalues),
                         memo_tag=STAG, kind="stability", arg="D"))
            self._add(Op(f"{p}.is_stable", lambda h, p=p: bool(h[p].is_stable), memo_tag=STAG, kind="stability", arg="D"))
            for v in ("D", "B"):
                self._add(Op(f"{p}.compute_stability_{v}", self._stab(p, v), memo_tag=STAG, kind="stability", arg=v))
        for p in ("pa", "pb"):
            self._add(Op(f"{p}.saveload", self._saveload(p), twin_fn=lambda h: "reloaded", kind="saveload"))
        for p in ("pa", "pc"):
            self._add(Op(f"{p}.gamma", lambda h, p=p: float(h[p].dynamics.gamma), memo_tag="gamma"))
            for n in (2, 3):
                self._add(Op(f"{p}.cn{n}", lambda h, p=p, n=n: float(h[p].dynamics.cn(n)), memo_tag="cn"))
            for d in (4, 5):
                self._add(Op(f"{p}.get_center_manifold({d}).degree", lambda h, p=p, d=d: int(h[p].get_center_manifold(d).degree),
                             memo_tag="center_manifold", kind="gcm_degree", arg=d))
            for d, e in ((4, 5), (5, 4)):
                self._add(Op(f"{p}.get_center_manifold({d}).degree={e}", self._gcm_set(p, d, e), mutates=True,
                             memo_tag="center_manifold", kind="gcm_set", arg=(d, e)))
            self._add(Op(f"{p}.hamiltonian(4)", lambda h, p=p: _ham(h[p].hamiltonian(4, "center_manifold_real")),
                         memo_tag="hamiltonian", kind="point_ham", arg=4))
            for a in ((3.5, 2.5), (3.0, 2.4)):
                self._add(Op(f"{p}.dynamics.scale_factor{a}", lambda h, p=p, a=a: tuple(map(float, h[p].dynamics.scale_factor(*a))),
                             memo_tag="scale_factor", kind="scale_factor", arg=a))

    def _add(self, op):
        self.ops[op.name] = op

    def _stab(self, p, v):
        def fn(h):
            r = h[p].dynamics.compute_stability(options=self.eopts[v])
            return {"eigenvalues": tuple(np.array(e) for e in r.eigenvalues), "is_stable": bool(r.is_stable)}
        return fn

    def _saveload(self, p):
        def fn(h):
            path = self.env.path("point")
            h[p].save(path)
            h[p] = type(h[p]).load(path)
            os.remove(path)
            return "reloaded"
        return fn

    @staticmethod
    def _gcm_set(p, d, e):
        def fn(h):
            h[p].get_center_manifold(d).degree = e
            return None
        return fn

    def fresh(self, params, twin):
        from hiten.system.libration.collinear import L1Point, L2Point
        from hiten.system.libration.triangular import L4Point
        sb = self.env.system_b()
        h = {"pa": L1Point(self.env.sa), "pb": L4Point(sb), "pc": L2Point(sb)}
        if twin and not self.linear_modes_error:
            # what a plain read of .linear_modes gives on each point (pb: RuntimeError, the point is linearly unstable)
            for p in ("pa", "pb", "pc"):
                self.linear_modes_error[p] = tw.capture(lambda: h[p].dynamics.linear_modes)
        return h

    def dispose(self, h):
        h.clear()

    def params_key(self, params):
        return 0

    def clear_twin_memos(self, h):
        for p in ("pa", "pb", "pc"):
            h[p].dynamics._generator = None

    def fingerprint(self, h):
        return ()

    def fp_equal(self, a, b):
        return True

    def relevant(self, opname):
        return ()

    def nontrivial(self, history):
        # a point has no setters of its own: a history is non-trivial when a request that can be served from a memo
        # follows an operation that changes what that memo should hold (stability with other options, degree change)
        ks = [self.ops[n] for n in history]
        for i, a in enumerate(ks):
            for b in ks[i + 1:]:
                if a.kind == "gcm_set" and b.kind in ("gcm_degree", "point_ham") and a.name[:2] == b.name[:2]:
                    return True
                if a.kind == "stability" and b.kind == "stability" and a.arg != b.arg and a.name[:2] == b.name[:2]:
                    return True
                if a.kind == "saveload" and b.kind != "saveload" and a.name[:2] == b.name[:2]:
                    return True
                if b.kind == "scale_factor" and a.name[:2] == b.name[:2] and a.name != b.name and (
                        a.kind == "scale_factor" or "normal_form_transform" in a.name):
                    return True
        return False

    def classify(self, res):
        steps, n = res["steps"], res["mismatch"]
        s = steps[n]
        op = self.ops[s.op]
        p = s.op[:2]
        if (op.kind == "saveload" and isinstance(s.real, tw.Exc) and s.twin == "reloaded" and s.real.type == "RuntimeError"
                and isinstance(self.linear_modes_error.get(p), tw.Exc) and s.real.msg == self.linear_modes_error[p].msg):
            return n, MECH_J                      # save() died of the exception that reading .linear_modes raises on this point
        if isinstance(s.real, tw.Exc) or isinstance(s.twin, tw.Exc):
            return n, None
        cm_hit = any(t == "center_manifold" and h for (t, h, _) in s.events)
        if op.kind == "gcm_degree" and cm_hit and s.twin == op.arg and s.real != op.arg:
            return n, MECH_E
        if op.kind == "point_ham" and cm_hit and s.twin["degree"] == op.arg and s.real["degree"] != op.arg:
            return n, MECH_E
        sf_key = next((key for (t, h, key) in s.events if t == "scale_factor" and h), None)
        if sf_key is not None:
            j = next((i for i in range(n) if not isinstance(steps[i].real, tw.Exc) for (t, h, k2) in steps[i].events
                      if t == "scale_factor" and not h and k2 == sf_key), None)
            if j is not None and steps[j].op != s.op and "scale_factor" in (op.kind, self.ops[steps[j].op].kind):
                return n, MECH_F                  # the one scale_factor entry, made for other (lambda1, omega1), served here
        if op.kind == "stability" and s.own_hit:
            last_exec = next((i for i in range(n - 1, -1, -1) if steps[i].op[:2] == p and self.ops[steps[i].op].kind == "stability"
                              and any(t == STAG and not h for (t, h, _) in steps[i].events)), None)
            if last_exec is not None and self.ops[steps[last_exec].op].arg != op.arg:
                def eig_part(o):
                    return o["eigenvalues"] if isinstance(o, dict) else o
                a, b = steps[last_exec].real, s.real
                same = (tw.compare(eig_part(a), eig_part(b), 0.0)[0] if not isinstance(b, bool) and not isinstance(a, bool)
                        else (a if isinstance(a, bool) else a["is_stable"]) == (b if isinstance(b, bool) else b["is_stable"]))
                if same:
                    return n, MECH_G              # the served entry shows the result of the last computation, made for other options
        return n, None


# =============================================================================== CenterManifold
class CMFamily:
    """Two centre manifolds on ONE fresh L1 point (they share the global pipeline registry entry of that point)."""
    name = "cm"
    CM_POINT = np.array([0.01, 0.0, 0.02, 0.0])
    SYN = np.array([0.8470, 0.0280, 0.0200, 0.0170, 0.0630, 0.0])

    def __init__(self, env):
        self.env = env
        self.ops = {}
        for c in ("c1", "c2"):
            for d in (3, 4):
                self._add(Op(f"{c}.degree={d}", self._set_deg(c, d), mutates=True, kind="set_degree", arg=d))
                self._add(Op(f"{c}.hamiltonian({d})", lambda h, c=c, d=d: _ham(h[c].hamiltonian(d)), mutates=True,
                             memo_tag="hamiltonian", kind="ham", arg=d))
            self._add(Op(f"{c}.degree", lambda h, c=c: int(h[c].degree)))
            self._add(Op(f"{c}.compute()", lambda h, c=c: _ham(h[c].compute()), memo_tag="pipeline"))
            self._add(Op(f"{c}.compute(physical)", lambda h, c=c: _ham(h[c].compute("physical")), memo_tag="pipeline"))
            self._add(Op(f"{c}.to_synodic", lambda h, c=c: np.array(h[c].to_synodic(self.CM_POINT)), memo_tag="pipeline"))
            self._add(Op(f"{c}.to_cm", lambda h, c=c: np.array(h[c].to_cm(self.SYN)), memo_tag="pipeline"))
            self._add(Op(f"{c}.saveload", self._saveload(c), twin_fn=lambda h: "reloaded", kind="saveload"))

    def _add(self, op):
        self.ops[op.name] = op

    @staticmethod
    def _set_deg(c, d):
        def fn(h):
            h[c].degree = d
            return None
        return fn

    def _saveload(self, c):
        def fn(h):
            p = self.env.path("cm")
            h[c].save(p)
            h[c] = type(h[c]).load(p)
            os.remove(p)
            return "reloaded"
        return fn

    def fresh(self, params, twin):
        from hiten.system.center import CenterManifold
        from hiten.system.libration.collinear import L1Point
        pt = L1Point(self.env.sa)
        return {"pt": pt, "c1": CenterManifold(pt, params["d1"]), "c2": CenterManifold(pt, params["d2"])}

    def dispose(self, h):
        h.clear()

    def params_key(self, params):
        return (params["d1"], params["d2"])

    def clear_twin_memos(self, h):
        for c in ("c1", "c2"):
            h[c].dynamics._hamsys = None

    def fingerprint(self, h):
        return (int(h["c1"].dynamics._degree), int(h["c2"].dynamics._degree))

    def fp_equal(self, a, b):
        return a == b

    def relevant(self, opname):
        return (0,) if opname.startswith("c1") else (1,)

    def nontrivial(self, history):
        seen = set()
        for n in history:
            op = self.ops[n]
            if op.mutates or op.kind == "saveload":
                seen.add(n[:2])
            elif n[:2] in seen:
                return True
        return False

    def classify(self, res):
        steps, n = res["steps"], res["mismatch"]
        k = tw.first_divergence(self, steps, n, RTOL)
        op = self.ops[steps[k].op]
        if op.kind == "ham" and steps[k].own_hit:
            idx = 0 if steps[k].op.startswith("c1") else 1
            if steps[k].fp_twin[idx] == op.arg and steps[k].fp_real[idx] != op.arg:
                return k, MECH_D
        return k, None


# =============================================================================== System
class SystemFamily:
    """Long-lived systems (sa Earth-Moon, sb mu=.05) across all histories; twin = same object with memos bypassed."""
    name = "system"
    ICS = {"i1": np.array([0.85, 0.0, 0.0, 0.0, -0.15, 0.0]), "i2": np.array([0.80, 0.05, 0.01, 0.02, 0.10, 0.0])}

    def __init__(self, env):
        self.env = env
        self.ops = {}
        self.holder = {"sa": env.sa, "sb": env.system_b()}
        combos_a = [("adaptive", 8, 1), ("adaptive", 8, -1), ("fixed", 4, 1), ("fixed", 6, 1)]
        combos_b = [("adaptive", 8, 1)]
        for s, combos in (("sa", combos_a), ("sb", combos_b)):
            self._add(Op(f"{s}.mu", lambda h, s=s: float(h[s].mu), memo_tag="mu"))
            self._add(Op(f"{s}.get_libration_point(1)", self._glp(s, 1)))
            for ic in self.ICS:
                for tf in (1.0, 1.5):
                    for meth, order, fwd in combos:
                        self._add(Op(f"{s}.propagate({ic},{tf},{meth}{order},{fwd:+d})", self._prop(s, ic, tf, meth, order, fwd),
                                     memo_tag="propagate", kind="propagate", arg=(ic, tf, meth, order, fwd)))
        # a NEGATIVE final time (same magnitude as a positive one in the alphabet): another quantity, which must not share a memo entry
        # with +tf (fixed-step scheme: it integrates the descending grid; the adaptive one declines negative spans)
        for ic in self.ICS:
            for meth, order, fwd in (("fixed", 4, 1),):
                self._add(Op(f"sa.propagate({ic},-1.0,{meth}{order},{fwd:+d})", self._prop("sa", ic, -1.0, meth, order, fwd),
                             memo_tag="propagate", kind="propagate", arg=(ic, -1.0, meth, order, fwd)))
        self._add(Op("sa.saveload", self._saveload("sa"), twin_fn=lambda h: "reloaded", kind="saveload"))

    def _add(self, op):
        self.ops[op.name] = op

    def _prop(self, s, ic, tf, meth, order, fwd):
        return lambda h: _traj(h[s].propagate(self.ICS[ic].copy(), tf=tf, steps=25, method=meth, order=order, forward=fwd))

    def _glp(self, s, i):
        def fn(h):
            p = h[s].get_libration_point(i)
            q = h[s].get_libration_point(i)
            return {"class": type(p).__name__, "mu": float(p.mu), "position": np.array(p.position), "same_object_twice": p is q}
        return fn

    def _saveload(self, s):
        def fn(h):
            p = self.env.path("system")
            h[s].save(p)
            h[s] = type(h[s]).load(p)
            os.remove(p)
            return "reloaded"
        return fn

    def fresh(self, params, twin):
        if twin:
            return dict(self.twin_holder)
        return self.holder                  # long lived: cache state carries over from history to history

    @property
    def twin_holder(self):
        return {"sa": self.env.sa, "sb": self.env.system_b()}

    def dispose(self, h):
        pass

    def params_key(self, params):
        return 0

    def clear_twin_memos(self, h):
        pass

    def fingerprint(self, h):
        return ()

    def fp_equal(self, a, b):
        return True

    def relevant(self, opname):
        return ()

    def nontrivial(self, history):
        return len(set(history)) < len(history) or any(self.ops[n].kind == "saveload" for n in history)

    def classify(self, res):
        return res["mismatch"], None


# =============================================================================== exploration
def exhaustive(letters, maxlen, prefix=()):
    for L in range(1, maxlen + 1):
        for tail in itertools.product(letters, repeat=L):
            yield tuple(prefix) + tail


def walk(rng, letters, weights=None, lo=8, hi=15, prefix=()):
    n = int(rng.integers(lo, hi + 1))
    p = None
    if weights is not None:
        p = np.asarray(weights, dtype=float)
        p = p / p.sum()
    return tuple(prefix) + tuple(letters[int(i)] for i in rng.choice(len(letters), size=n, p=p))


class Explorer:
    def __init__(self, ctx, spy):
        self.ctx, self.spy = ctx, spy
        self.twin_memo = {}
        self.ok_obs = {}
        self.n_obs = {}
        self.max_pass = {}
        self.n_hist = 0
        self.sampled = set()

    def run(self, fam, params, history, cls):
        ctx = self.ctx
        with warnings.catch_warnings():
            warnings.simplefilter("ignore")
            res = tw.run_history(self.spy, fam, params, list(history), self.twin_memo, RTOL)
        self.n_hist += 1
        nontriv = fam.nontrivial(history)
        ctx.case(f"{fam.name}:{cls}", [fam.name, fam.params_key(params), list(history)], nontrivial=nontriv)
        ctx.count("histories")
        if nontriv:
            ctx.count("nontrivial_histories")
        ctx.count("memo_hits_served_by_real_object(excluding compiled vector fields)", res["hits"])
        ctx.count("steps_served_from_their_own_memo", res["own_hits"])
        if res["own_hits"]:
            ctx.count("histories_with_a_step_served_from_memo")
        ctx.stat(f"rel_diff_real_vs_twin[{fam.name}]", res["rel"])
        if res["rel"] > self.max_pass.get(fam.name, (1e-13,))[0]:
            self.max_pass[fam.name] = (res["rel"], {"params": params, "history": list(history)})
        for s in res["steps"]:
            key = (fam.name, s.op)
            good = not (isinstance(s.real, tw.Exc) and isinstance(s.twin, tw.Exc))
            self.ok_obs[key] = self.ok_obs.get(key, False) or good
            self.n_obs[key] = self.n_obs.get(key, 0) + 1
        n = res["mismatch"]
        mech, k = None, None
        if n is not None:
            k, mech = fam.classify(res)
        steps = res["steps"]

        def wit():
            return {"family": fam.name, "params": params, "history": list(history), "failed_step": n, "failed_op": steps[n].op,
                    "culprit_step": k, "culprit_op": steps[k].op, "where": res["where"], "rel_diff": res["mismatch_rel"],
                    "real": tw.brief(steps[n].real), "twin": tw.brief(steps[n].twin),
                    "cache_events_at_culprit": [[t, bool(h)] for (t, h, _) in steps[k].events][:12],
                    "state_after_culprit": {"real": tw.brief(steps[k].fp_real), "twin": tw.brief(steps[k].fp_twin)},
                    "seed": ctx.seed}
        for i, s in enumerate(steps):
            if n is None or i < n:
                ctx.check(True, f"{fam.name}: value on long-lived object == value on cache-free twin")
        if n is not None:
            ctx.check(False, f"{fam.name}: value on long-lived object == value on cache-free twin", wit, mech)
        if fam.name not in self.sampled and nontriv and res["own_hits"] and n is None and len(history) >= 3:
            self.sampled.add(fam.name)
            ctx.sample({"family": fam.name, "params": params, "history": list(history),
                        "steps": [{"op": s.op, "memo_events": [[t, bool(h)] for (t, h, _) in s.events][:6],
                                   "real": tw.brief(s.real), "twin": tw.brief(s.twin)} for s in steps][:6]})
        return res


# ------------------------------------------------------------------------------- per-family workloads
def orbit_workload(ctx, ex, env):
    fam = OrbitFamily(env)
    rng = ctx.rng
    L = ctx.pick(3, 4)
    work = []
    # reduced alphabets (bounded-exhaustive); the prefix puts the orbit into a state where the letters are defined
    subs = [
        ("guess", (), ["correct_D", "correct_X", "correct_L", "set_period_half", "period"], L),
        ("ref", ("correct_D",), ["propagate_30_adaptive8", "propagate_60_adaptive8", "propagate_30_fixed4", "propagate_30_fixed6", "trajectory"], L),
        ("ref", ("correct_D",), ["propagate_30_adaptive8", "propagate_60_adaptive8", "trajectory"], 4),
        ("ref", ("correct_D",), ["set_period_P", "set_period_half", "monodromy", "stability_indices", "correct_D"], L),
        # period pre-set to exactly the value the correction returns: read memo, correct, read again
        ("guess", ("set_period_exact",), ["monodromy", "stability_indices", "correct_D", "eigenvalues"], L),
        ("guess", ("set_period_exact", "propagate_30_adaptive8"), ["correct_D", "trajectory", "propagate_30_adaptive8"], 2),
    ]
    if not ctx.quick:
        subs += [
            ("guess", (), ["correct_D", "correct_M", "correct_L", "initial_state", "energy", "monodromy"], L),
            ("ref", ("correct_D",), ["propagate_60_fixed4", "propagate_60_fixed6", "set_period_half", "trajectory", "eigenvalues", "jacobi"], L),
        ]
    seen = set()
    for start, prefix, letters, depth in subs:
        for h in exhaustive(letters, depth, prefix):
            if (start, h) not in seen:
                seen.add((start, h))
                work.append(("exhaustive", start, h))
    letters = [n for n in fam.ops if n != "saveload"]
    w = [3.0 if fam.ops[n].kind in ("correct", "propagate", "set_period") else 1.5 for n in letters]
    for _ in range(ctx.pick(40, 600)):
        pre = ("correct_D",) if rng.random() < 0.7 else ()
        work.append(("walk", "ref" if rng.random() < 0.5 else "guess", walk(rng, letters, w, 8, 15, pre)))
    # save -> load -> continue (every reload recompiles the vector fields of the unpickled System copy: few, read-heavy)
    sl = [
        ("correct_D", "propagate_30_adaptive8", "stability_indices", "saveload", "period", "initial_state", "trajectory",
         "stability_indices", "energy", "jacobi", "monodromy"),
        ("correct_D", "set_period_half", "monodromy", "saveload", "period", "eigenvalues", "trajectory", "initial_state"),
        ("saveload", "period", "initial_state", "energy", "correct_D", "period", "initial_state"),
        # load -> mutate (drops computed data) -> save -> load: nothing dropped in between may come back from the first file
        ("correct_D", "propagate_30_adaptive8", "saveload", "set_period_half", "saveload", "trajectory", "period", "stability_indices"),
        ("correct_D", "propagate_30_adaptive8", "stability_indices", "saveload", "set_period_P", "correct_D", "saveload", "trajectory", "period"),
    ]
    for _ in range(ctx.pick(0, 12)):
        cheap = ["period", "initial_state", "energy", "jacobi", "trajectory", "stability_indices", "eigenvalues", "set_period_half", "set_period_P"]
        a = walk(rng, letters, w, 3, 6, ("correct_D",))
        b = walk(rng, cheap, None, 3, 6)
        tail = (("monodromy",) if rng.random() < 0.5 else ("propagate_30_adaptive8", "trajectory"))
        if rng.random() < 0.5:
            tail = ("saveload",) + walk(rng, cheap, None, 2, 4) + tail
        sl.append(a + ("saveload",) + b + tail)
    for h in sl:
        work.append(("saveload", "guess", h))
    for i, (cls, start, h) in enumerate(work):
        if not ctx.mine(i):
            continue
        ex.run(fam, {"A": AMPS[i % len(AMPS)], "start": start}, h, cls)


def point_workload(ctx, ex, env):
    fam = PointFamily(env)
    rng = ctx.rng
    L = ctx.pick(3, 4)
    work = []
    subs = [
        ["pb.eigenvalues", "pb.is_stable", "pb.compute_stability_B", "pb.compute_stability_D", "pa.eigenvalues"],
        ["pa.get_center_manifold(4).degree", "pa.get_center_manifold(4).degree=5", "pa.hamiltonian(4)",
         "pa.get_center_manifold(5).degree", "pc.get_center_manifold(4).degree"],
    ]
    subs.append(["pa.dynamics.scale_factor(3.5, 2.5)", "pa.dynamics.scale_factor(3.0, 2.4)", "pa.normal_form_transform", "pa.saveload"])
    if not ctx.quick:
        subs.append(["pc.eigenvalues", "pc.compute_stability_B", "pa.compute_stability_B", "pb.compute_stability_B", "pb.is_stable"])
    for letters in subs:
        for h in exhaustive(letters, L):
            work.append(("exhaustive", h))
    letters = list(fam.ops)
    w = [0.15 if fam.ops[n].kind == "scale_factor" else 1.0 for n in letters]   # (poisons the point: rare in walks)
    for _ in range(ctx.pick(60, 800)):
        work.append(("walk", walk(rng, letters, w, 8, 15)))
    for i, (cls, h) in enumerate(work):
        if not ctx.mine(i):
            continue
        ex.run(fam, {}, h, cls)


def cm_workload(ctx, ex, env):
    fam = CMFamily(env)
    rng = ctx.rng
    work = []
    L = ctx.pick(3, 4)
    subs = [(["c1.hamiltonian(3)", "c1.hamiltonian(4)", "c1.degree=4", "c1.degree", "c1.to_synodic"], L),
            (["c1.hamiltonian(3)", "c1.hamiltonian(4)", "c1.degree", "c1.to_synodic"], 4),
            (["c1.degree=3", "c1.degree=4", "c2.degree=3", "c1.to_synodic", "c2.to_cm"], L)]
    if not ctx.quick:
        subs.append((["c1.degree=3", "c2.hamiltonian(3)", "c1.compute()", "c2.compute(physical)", "c2.degree", "c1.to_cm"], L))
    for letters, depth in subs:
        for h in exhaustive(letters, depth):
            work.append(("exhaustive", h))
    letters = [n for n in fam.ops if "saveload" not in n]
    for _ in range(ctx.pick(30, 500)):
        work.append(("walk", walk(rng, letters, None, 8, 15)))
    sl_letters = list(fam.ops)
    for _ in range(ctx.pick(6, 60)):
        work.append(("saveload", walk(rng, sl_letters, [4.0 if "saveload" in n else 1.0 for n in sl_letters], 6, 10)))
    seen = set()
    for i, (cls, h) in enumerate(work):
        if (cls, h) in seen:
            continue
        seen.add((cls, h))
        if not ctx.mine(i):
            continue
        ex.run(fam, {"d1": 4 if i % 2 == 0 else 3, "d2": 3 if i % 4 < 2 else 4}, h, cls)



def manifold_workload(ctx, ex, env):
    fam = ManifoldFamily(env, OrbitFamily(env))
    rng = ctx.rng
    work = []
    L = ctx.pick(3, 4)
    for h in exhaustive(["m.compute_A", "m.compute_B", "m.trajectories", "o.set_period_half", "o.correct_D"], L):
        work.append(("exhaustive", h))
    for h in exhaustive(["m.compute_A", "m.compute_B", "m.trajectories"], 4):
        work.append(("exhaustive", h))
    letters = [n for n in fam.ops if n != "m.saveload"]
    for _ in range(ctx.pick(12, 200)):
        work.append(("walk", walk(rng, letters, None, 8, 15)))
    work.append(("saveload", ("m.compute_A", "m.saveload", "m.trajectories", "m.result", "o.period")))
    work.append(("saveload", ("m.saveload", "m.trajectories", "o.period", "m.result")))
    # load -> change the generating orbit (the manifold's data no longer belong to it) -> save -> load -> read
    work.append(("saveload", ("m.compute_A", "m.saveload", "o.set_period_half", "m.saveload", "m.trajectories", "m.result", "o.period")))
    work.append(("saveload", ("m.compute_A", "m.saveload", "m.compute_B", "m.saveload", "m.trajectories", "m.result")))
    seen = set()
    for i, (cls, h) in enumerate(work):
        if (cls, h) in seen:
            continue
        seen.add((cls, h))
        if not ctx.mine(i):
            continue
        ex.run(fam, {"A": AMPS[i % 3], "stable": (not ctx.quick) and i % 5 == 0}, h, cls)


def system_workload(ctx, ex, env):
    fam = SystemFamily(env)
    rng = ctx.rng
    letters = [n for n in fam.ops if "saveload" not in n]
    work = []
    for _ in range(ctx.pick(14, 120)):
        work.append(("walk", walk(rng, letters, None, 8, 15)))
    # one reload of the long-lived Earth-Moon system, then the walk continues on the reloaded object
    work.insert(len(work) // 2, ("saveload", ("sa.mu", "sa.propagate(i1,1.0,adaptive8,+1)", "sa.saveload", "sa.mu",
                                              "sa.get_libration_point(1)", "sa.propagate(i1,1.0,adaptive8,+1)",
                                              "sa.propagate(i1,1.0,adaptive8,+1)")))
    for i, (cls, h) in enumerate(work):
        if ctx.nshards > 1 and not ctx.mine(i):
            continue
        ex.run(fam, {}, h, cls)


# ------------------------------------------------------------------------------- id()-keyed caches
def id_reuse(ctx, ex, env):
    """delete -> gc.collect() -> create with other parameters; values must belong to the NEW parameters.

    Also the direct invariant of the two process-wide id()-keyed caches: a key never denotes another object than the
    one the entry was built from (so a recycled id cannot be served somebody else's entry)."""
    from hiten.algorithms.dynamics.base import _DirectedSystem
    from hiten.algorithms.types.services import get_hamiltonian_services
    from hiten.system.base import System
    from hiten.system.center import CenterManifold
    from ..oracles import cr3bp
    rng, spy = ctx.rng, ex.spy
    seen_ids = {"point": set(), "system": set(), "orbit": set(), "cm": set()}
    reused = 0
    n = ctx.pick(12, 120)
    for it in range(n):
        if not ctx.mine(it):
            continue
        mu = float(rng.uniform(0.004, 0.09))
        idx = int(rng.integers(1, 3))
        deg = int(rng.integers(3, 5))
        with warnings.catch_warnings():
            warnings.simplefilter("ignore")
            s = System.from_mu(mu)
            p = s.get_libration_point(idx)
            cm = CenterManifold(p, deg)
            with spy.real_step():
                real = {"mu": float(s.mu), "position": np.array(p.position), "H": _ham(cm.compute()),
                        "to_synodic": np.array(cm.to_synodic(CMFamily.CM_POINT)), "gcm": int(p.get_center_manifold(deg).degree)}
            ids = {"point": id(p), "system": id(s), "cm": id(cm)}
            for k, v in ids.items():
                reused += int(v in seen_ids[k])
                seen_ids[k].add(v)
            with spy.twin_step():
                s2 = System.from_mu(mu)
                p2 = s2.get_libration_point(idx)
                cm2 = CenterManifold(p2, deg)
                twin = {"mu": float(s2.mu), "position": np.array(p2.position), "H": _ham(cm2.compute()),
                        "to_synodic": np.array(cm2.to_synodic(CMFamily.CM_POINT)), "gcm": int(p2.get_center_manifold(deg).degree)}
        ok, rel, where = tw.compare(real, twin, RTOL)
        ctx.case("idreuse:point+cm", [mu, idx, deg], nontrivial=True)
        ctx.stat("rel_diff_real_vs_twin[idreuse]", rel if np.isfinite(rel) else 0.0)
        ctx.check(ok, "idreuse: values of a newly created object belong to its own parameters",
                  lambda: {"mu": mu, "point": idx, "degree": deg, "where": where, "real": tw.brief(real), "twin": tw.brief(twin)})
        # independent closed form: the collinear point is a root of dOmega/dx for THIS mu
        x = real["position"][0]
        g = abs(cr3bp.field(np.array([x, 0, 0, 0, 0, 0.0]), mu)[3])
        ctx.stat("idreuse |Omega_x(position, mu)|", g)
        ctx.check(g < 1e-9, "idreuse: libration point of the new system is an equilibrium of the new mu",
                  lambda: {"mu": mu, "x": x, "residual": g})
        del s, p, cm, s2, p2, cm2
        gc.collect()
    # systems / points that nothing retains (no pipeline was built for them): their ids do get recycled
    for it in range(ctx.pick(40, 400)):
        if not ctx.mine(it):
            continue
        mu = float(rng.uniform(0.004, 0.09))
        s = System.from_mu(mu)
        p = s.get_libration_point(1 + it % 2)
        with spy.real_step():
            real = {"mu": float(s.mu), "position": np.array(p.position), "cn2": float(p.dynamics.cn(2)), "cn3": float(p.dynamics.cn(3)),
                    "modes": tuple(p.dynamics.linear_modes), "energy": float(p.energy)}
        for k, v in (("point", id(p)), ("system", id(s))):
            reused += int(v in seen_ids[k])
            seen_ids[k].add(v)
        with spy.twin_step():
            s2 = System.from_mu(mu)
            p2 = s2.get_libration_point(1 + it % 2)
            twin = {"mu": float(s2.mu), "position": np.array(p2.position), "cn2": float(p2.dynamics.cn(2)), "cn3": float(p2.dynamics.cn(3)),
                    "modes": tuple(p2.dynamics.linear_modes), "energy": float(p2.energy)}
        ok, rel, where = tw.compare(real, twin, RTOL)
        ctx.case("idreuse:point", [mu, 1 + it % 2], nontrivial=True)
        ctx.check(ok, "idreuse: values of a newly created object belong to its own parameters",
                  lambda: {"mu": mu, "where": where, "real": tw.brief(real), "twin": tw.brief(twin)})
        del s, p, s2, p2
        gc.collect()
    # orbits: same id()-recycling pattern on the cheapest object
    prev = None
    for it in range(ctx.pick(9, 60)):
        if not ctx.mine(it):
            continue
        A = AMPS[it % 3]
        o = env.L1.create_orbit("lyapunov", amplitude_x=A)
        with spy.real_step():
            o.correct()
            per = float(o.period)
        reused += int(id(o) in seen_ids["orbit"])
        seen_ids["orbit"].add(id(o))
        ctx.case("idreuse:orbit", [it, A], nontrivial=prev is not None and prev != A)
        ctx.check(abs(per - env.p_ref(A)) <= 2e-6, "idreuse: corrected period of a newly created orbit belongs to its own amplitude",
                  lambda: {"A": A, "period": per, "expected": env.p_ref(A)})
        prev = A
        del o
        gc.collect()
    ctx.note("n_id_values_recycled_by_the_allocator", reused)
    # key/owner invariant of the process-wide id()-keyed caches
    bad = []
    for (idk, fwd, flip), disp in list(_DirectedSystem._rhs_cache.items()):
        ctx.count("idcache_entries_checked")
        d = getattr(getattr(disp, "py_func", None), "__defaults__", None)
        if not d or id(d[0]) != idk:
            bad.append(("_DirectedSystem._rhs_cache", idk))
    for idk, per in list(get_hamiltonian_services().pipeline._pipelines.items()):
        for dg, pl in per.items():
            ctx.count("idcache_entries_checked")
            if id(pl._point) != idk or pl._max_degree != dg:
                bad.append(("_HamiltonianPipelineService._pipelines", idk, dg))
    ctx.check(not bad, "idreuse: every id()-keyed global cache entry is still owned by the object its key denotes",
              lambda: {"bad": bad[:5]})


def system_flow_reference(ctx, env):
    """The compiled vector fields are exempt from the twin bypass; pin them to the SciPy CR3BP flow instead."""
    from ..oracles import cr3bp
    for name, s in (("sa", env.sa), ("sb", env.system_b())):
        mu = float(s.mu)
        y0 = SystemFamily.ICS["i1"]
        tr = s.propagate(y0.copy(), tf=1.0, steps=25, method="adaptive", order=8)
        ref = cr3bp.flow(y0, mu, np.array([0.0, 1.0]))[-1]
        d = float(np.max(np.abs(np.asarray(tr.states)[-1] - ref)))
        ctx.stat("system flow vs SciPy reference (abs)", d)
        ctx.case("system:flow_reference", [name, mu], nontrivial=True)
        ctx.check(d < 1e-7, "system: memoised propagate == SciPy flow of the system's own mu", lambda: {"system": name, "mu": mu, "diff": d})


# =============================================================================== entry points
def _setup(ctx):
    import hiten  # noqa: F401
    import numba
    # the polynomial kernels of the degree-3..5 normal forms open thousands of tiny parallel regions; with the
    # passive OpenMP wait policy of ./check every region costs a futex wake-up (measured: 12 min of system time)
    numba.set_num_threads(1)
    spy = tw.CacheSpy()
    spy.install()
    env = Env(ctx, spy)
    for A in AMPS:                      # reference periods / corrected states, computed outside any monitored step
        env.p_ref(A)
    return spy, env, Explorer(ctx, spy)


def run(ctx):
    ctx.note("rule", "case = one operation history on one family (orbit | point | cm | manifold | system | idreuse); generated bounded-"
                     "exhaustively over reduced alphabets (length <= 3 quick / 4 thorough, one 4-letter alphabet to length 4) and "
                     "as seeded random walks of length 8-15; non-trivial = a logical mutation (or save/load) is followed by a "
                     "read of the same object (point: a memo-served request follows a conflicting one; system: a repeated call); "
                     "distinct by hash of (family, constructor parameters, history)")
    spy, env, ex = _setup(ctx)
    import time
    # development aid: C20_ONLY=orbit,cm runs a subset of the families (the requirements below then report INCONCLUSIVE)
    only = os.environ.get("C20_ONLY", "").split(",") if os.environ.get("C20_ONLY") else None
    walls = {}
    try:
        for label, fn, args in (("orbit", orbit_workload, (ctx, ex, env)), ("point", point_workload, (ctx, ex, env)),
                                ("cm", cm_workload, (ctx, ex, env)), ("manifold", manifold_workload, (ctx, ex, env)),
                                ("system", system_workload, (ctx, ex, env)),
                                ("system_flow_reference", system_flow_reference, (ctx, env)), ("id_reuse", id_reuse, (ctx, ex, env))):
            if only and label not in only:
                continue
            t0 = time.time()
            h0 = ex.n_hist
            guarded(ctx, label, fn, *args)
            walls[label] = [round(time.time() - t0, 1), ex.n_hist - h0]
        ctx.note("wall_s_and_histories_per_family", walls)
    finally:
        spy.uninstall()
        env.close()
    # an operation that raised on BOTH sides every time it was tried was never really compared (harness error?)
    # (correct_X must raise by construction; linear modes / normal form are undefined for the unstable L4 point pb)
    never_ok = sorted(f"{f}:{o}" for (f, o), good in ex.ok_obs.items() if not good and ex.n_obs[(f, o)] >= 5
                      and not o.endswith("correct_X") and not o.startswith(("pb.linear_modes", "pb.normal_form_transform")))
    if never_ok:
        ctx.mark_inconclusive(f"operations that never returned a value on both sides: {never_ok[:6]}")
    if ex.max_pass:
        ctx.note("largest_nonzero_difference_that_passed", {f: {"rel": r, **w} for f, (r, w) in ex.max_pass.items()})
    ctx.note("memo_hits_by_tag", dict(spy.hits.most_common(20)))
    ctx.note("memo_misses_by_tag", dict(spy.misses.most_common(20)))
    ctx.note("twin_factory_calls_by_tag", dict(spy.twin_factory_calls.most_common(20)))
    ctx.note("n_twin_read_results_memoised_by_state_fingerprint", len(ex.twin_memo))
    ctx.note("distinct_logical_states_of_twin", len({(k[0], k[1], k[2]) for k in ex.twin_memo}))
    m = 1 if ctx.nshards > 1 else 4
    ctx.require("histories", 50 * m)
    ctx.require("nontrivial_histories", 25 * m)
    ctx.require("steps_served_from_their_own_memo", 50 * m)
    ctx.require("histories_with_a_step_served_from_memo", 25 * m)
    for f in ("orbit", "point", "cm", "manifold", "system"):
        ctx.require(f"{f}: value on long-lived object == value on cache-free twin", 20 * m)


def replay(ctx, w):
    """Re-run the history of a recorded witness."""
    wit = w.get("witness") or {}
    spy, env, ex = _setup(ctx)
    try:
        fams = {"orbit": OrbitFamily, "point": PointFamily, "cm": CMFamily, "system": SystemFamily,
                "manifold": lambda e: ManifoldFamily(e, OrbitFamily(e))}
        fam = fams[wit["family"]](env)
        ex.run(fam, wit.get("params") or {}, tuple(wit["history"]), "replay")
    finally:
        spy.uninstall()
        env.close()
