"""C14 — centre-manifold Poincare maps stay on section and energy level, are genuine returns, and do not depend on the schedule.

Events (all on FRESH CenterManifold / CenterManifoldMap objects -- the service memo key ignores nested option values, so a
reused object would compare a result with itself):
  * ``CenterManifoldMap.compute(section_coord, options)`` -> points / states / labels / times;
  * ``_CenterManifoldBackend.run`` interposed from the harness: (call index, thread id, iteration, seeds in, flags / states /
    times out, numba thread count seen in the worker thread), i.e. every predecessor -> successor pair; the interposer also
    sets the numba thread count *inside the worker thread* (``numba.set_num_threads`` is thread local) and optionally sleeps
    0-5 ms around the kernel to scramble the completion order of the ThreadPoolExecutor in engine.py.
Oracle (nothing below uses the library's polynomial evaluation or integrators):
  * H_cm and J grad H_cm from the library's coefficient blocks through ``polyutil.unpack`` (a vectorised evaluation of the same
    dictionary, cross-checked against ``polyutil.eval_dict`` / ``polyutil.ham_field`` at run time);
  * SciPy DOP853 (rtol 1e-12) on the reduced flow (q1 = p1 = 0) from each predecessor, all zero crossings of the section
    coordinate located on the dense output (Brent), admissibility of each crossing three valued.
Clauses: 1 on section / points are the labelled columns; 2 energy level within K_E dt^p and shrinking with dt; 3 genuine first
admissible return; 4 multiset of returned states bit-identical over n_workers x numba threads x sleep injection (x layer).
"""
from __future__ import annotations

import hashlib
import json
import os
import subprocess
import sys
import threading
import time
from dataclasses import asdict, dataclass, field

import numpy as np

from ..core import Inconclusive, guarded
from .. import polyutil as pu

MECH_F11 = "cm-map-points-wrong-columns-for-q2-p2-sections"

COLS = {"q2": 0, "p2": 1, "q3": 2, "p3": 3}          # column of a name in a 4-D centre-manifold state (q2, p2, q3, p3)
CONJ = {"q2": "p2", "p2": "q2", "q3": "p3", "p3": "q3"}
SECTIONS = ("q3", "p3", "q2", "p2")
STRATEGIES = ("axis_aligned", "single", "level_sets", "radial", "random")


# ====================================================================== independent reduced Hamiltonian
class ReducedH:
    """H_cm(q2, p2, q3, p3) and its Hamiltonian field from the library's packed coefficient blocks (via polyutil.unpack)."""

    def __init__(self, blocks):
        H = pu.unpack([np.asarray(b) for b in blocks], 0.0)
        self.Hdict = H
        self.max_imag = max((abs(c.imag) for c in H.values()), default=0.0)
        self.hyperbolic_terms = sum(1 for k in H if k[0] or k[3])
        keys = [k for k in H if not (k[0] or k[3])]
        # state order (q2, p2, q3, p3)  <-  exponent positions (1, 4, 2, 5) of (q1,q2,q3,p1,p2,p3)
        self.E = np.array([[k[1], k[4], k[2], k[5]] for k in keys], dtype=np.int64).reshape(-1, 4)
        self.C = np.array([H[k].real for k in keys], dtype=float)
        self.deg = int(self.E.sum(axis=1).max()) if len(keys) else 0
        self.Em1 = np.maximum(self.E - 1, 0)
        self.Ef = self.E.astype(float)
        self._ar = np.arange(self.deg + 1)
        # linear frequencies (for horizons only)
        quad = {k: v for k, v in H.items() if sum(k) == 2}
        self.omega = sorted({round(2 * abs(v.real), 12) for v in quad.values()}, reverse=True)

    def _pw(self, y):
        return np.power(np.asarray(y, dtype=float)[:, None], self._ar[None, :])      # (4, deg+1)

    def energy(self, y):
        pw = self._pw(y)
        E = self.E
        return float(np.sum(self.C * pw[0, E[:, 0]] * pw[1, E[:, 1]] * pw[2, E[:, 2]] * pw[3, E[:, 3]]))

    def energies(self, Y):
        return np.array([self.energy(y) for y in np.atleast_2d(Y)])

    def grad(self, y):
        pw = self._pw(y)
        E, M, Ef = self.E, self.Em1, self.Ef
        F = [pw[j, E[:, j]] for j in range(4)]
        D = [Ef[:, j] * pw[j, M[:, j]] for j in range(4)]
        C = self.C
        return np.array([np.sum(C * D[0] * F[1] * F[2] * F[3]), np.sum(C * F[0] * D[1] * F[2] * F[3]),
                         np.sum(C * F[0] * F[1] * D[2] * F[3]), np.sum(C * F[0] * F[1] * F[2] * D[3])])

    def rhs(self, t, y):
        g = self.grad(y)
        # (q2', p2', q3', p3') = (dH/dp2, -dH/dq2, dH/dp3, -dH/dq3)
        return np.array([g[1], -g[0], g[3], -g[2]])

    @staticmethod
    def to6(y):
        return np.array([0.0, y[0], y[2], 0.0, y[1], y[3]])

    def selfcheck(self, rng, n=6, amp=0.5):
        """max deviation of the vectorised evaluation from polyutil.eval_dict / polyutil.ham_field (6-D, q1=p1=0)."""
        worst = 0.0
        for _ in range(n):
            y = rng.uniform(-amp, amp, 4)
            y6 = self.to6(y)
            e = pu.eval_dict(self.Hdict, y6).real
            f6 = pu.ham_field(self.Hdict, y6)
            f4 = np.array([f6[1], f6[4], f6[2], f6[5]])
            worst = max(worst, abs(e - self.energy(y)), float(np.abs(f4 - self.rhs(0.0, y)).max()),
                        abs(f6[0]), abs(f6[3]))           # q1' = p1' = 0 on the centre manifold
        return worst


# ====================================================================== reference flow and crossings
@dataclass
class Crossing:
    t: float
    x: np.ndarray
    slope: float            # d(section coordinate)/dt at the crossing
    gmin: float             # range of the library's direction function over [t, t + dt]
    gmax: float
    fpp: float              # max |f''| over [t - dt, t + dt] (conditioning of the linear crossing fraction)
    speed: float            # max |x'| at the crossing


def direction_value(red: ReducedH, section: str, Y):
    """The library's documented direction function g: conjugate momentum for q-sections, dq_i/dt for p-sections."""
    Y = np.atleast_2d(Y)
    if section in ("q2", "q3"):
        return Y[:, COLS[CONJ[section]]].copy()
    j = COLS[CONJ[section]]            # column of q_i whose velocity is tested
    return np.array([red.rhs(0.0, y)[j] for y in Y])


def reference_crossings(red: ReducedH, section: str, x0, T, dt, grid=None):
    """Integrate the reduced flow from x0 over [0, T]; all zero crossings of the section coordinate for t > 0."""
    from scipy.integrate import solve_ivp
    from scipy.optimize import brentq
    idx = COLS[section]
    sol = solve_ivp(red.rhs, (0.0, T), np.asarray(x0, dtype=float), method="DOP853", rtol=1e-12, atol=1e-14, dense_output=True)
    if not sol.success:
        raise Inconclusive(f"reference integration failed: {sol.message}")
    h = grid or min(dt / 4.0, 2.5e-3)
    n = max(8, int(np.ceil(T / h)))
    tg = np.linspace(0.0, T, n + 1)
    Yg = sol.sol(tg)
    f = Yg[idx]
    out = []
    # t = 0 is on the section by construction: start looking at the first grid point with f != 0
    k0 = 1
    sgn = np.sign(f)
    for k in range(k0, n):
        a, b = sgn[k], sgn[k + 1]
        if a == 0 or a * b >= 0:
            if not (a != 0 and b == 0 and k + 2 <= n and sgn[k + 2] * a < 0):
                continue
            tb = tg[k + 2]
        else:
            tb = tg[k + 1]
        tc = brentq(lambda t: sol.sol(t)[idx], tg[k], tb, xtol=1e-14, rtol=1e-15, maxiter=200)
        xc = sol.sol(tc)
        fc = red.rhs(tc, xc)
        ts = np.linspace(tc, min(tc + dt, T), 9)
        g = direction_value(red, section, sol.sol(ts).T)
        tw = np.linspace(max(0.0, tc - dt), min(T, tc + dt), 9)
        fd = np.array([red.rhs(0.0, y)[idx] for y in sol.sol(tw).T])
        fpp = float(np.abs(np.gradient(fd, tw)).max())
        out.append(Crossing(float(tc), np.array(xc), float(fc[idx]), float(g.min()), float(g.max()), fpp, float(np.abs(fc).max())))
    return out, sol


# ====================================================================== configuration of one map computation
@dataclass(frozen=True)
class Cfg:
    point: str = "L1"
    degree: int = 6
    energy: float = 0.6
    section: str = "q3"
    strategy: str = "axis_aligned"
    seed_axis: str | None = None
    explicit_config: bool = True      # False: leave the default map config and only pass section_coord to compute()
    method: str = "fixed"
    order: int = 4
    dt: float = 0.01
    n_iter: int = 3
    n_seeds: int = 20
    max_steps: int = 2000
    n_workers: int = 1
    nthreads: int = 1
    sleep: bool = False

    def scheme(self):
        return f"{'rk' if self.method == 'fixed' else 'symp'}{self.order}"

    def physics_key(self):
        d = asdict(self)
        for k in ("n_workers", "nthreads", "sleep"):
            d.pop(k)
        return d

    def with_(self, **kw):
        d = asdict(self)
        d.update(kw)
        return Cfg(**d)


@dataclass
class Record:
    call: int
    thread: int
    iteration: int | None
    seeds: np.ndarray
    flags: np.ndarray
    states: np.ndarray
    times: np.ndarray
    nthreads_seen: int
    section: str
    dt: float
    order: int
    method: str
    max_steps: int


@dataclass
class Obs:
    cfg: Cfg
    error: str | None = None
    points: np.ndarray | None = None
    states: np.ndarray | None = None
    times: np.ndarray | None = None
    labels: tuple | None = None
    records: list = field(default_factory=list)
    wall: float = 0.0


class Recorder:
    """Harness-side interposition on ``_CenterManifoldBackend.run`` (class attribute; restored by ``uninstall``)."""

    def __init__(self, rng):
        self.lock = threading.Lock()
        self.records = []
        self.sleep = False
        self.nthreads = None
        self._delays = rng.uniform(0.0, 5e-3, 4096)
        self._k = 0
        self.installed = False

    def _delay(self):
        with self.lock:
            d = self._delays[self._k % len(self._delays)]
            self._k += 1
        return float(d)

    def install(self):
        import numba
        from hiten.algorithms.poincare.centermanifold.backend import _CenterManifoldBackend as B
        if self.installed:
            return
        self.B, self.orig = B, B.run
        rec = self

        def run(backend_self, request):
            if rec.nthreads:
                numba.set_num_threads(int(rec.nthreads))          # thread local: must happen in the worker thread
            if rec.sleep:
                time.sleep(rec._delay())
            seeds = np.array(request.seeds, dtype=float, copy=True).reshape(-1, 4)
            resp = rec.orig(backend_self, request)
            seen = int(numba.get_num_threads())
            if rec.sleep:
                time.sleep(rec._delay())
            it = request.metadata.get("iteration") if isinstance(request.metadata, dict) else None
            r = Record(call=-1, thread=threading.get_ident(), iteration=it, seeds=seeds,
                       flags=np.array(resp.flags, copy=True), states=np.array(resp.states, dtype=float, copy=True).reshape(-1, 4),
                       times=np.array(resp.times, dtype=float, copy=True).reshape(-1), nthreads_seen=seen,
                       section=str(request.section_coord), dt=float(request.dt), order=int(request.order),
                       method=str(request.method), max_steps=int(request.max_steps))
            with rec.lock:
                r.call = len(rec.records)
                rec.records.append(r)
            return resp
        B.run = run
        self.installed = True

    def uninstall(self):
        if self.installed:
            self.B.run = self.orig
            self.installed = False

    def take(self):
        with self.lock:
            out, self.records = self.records, []
        return out


class Env:
    """One libration point and truncation degree: library objects + the independent reduced Hamiltonian."""

    def __init__(self, point: str, degree: int, system=None):
        from hiten.system import System
        from hiten.system.center import CenterManifold
        t0 = time.time()
        self.point_name, self.degree = point, int(degree)
        self.system = system or System.from_bodies("earth", "moon")
        self.point = self.system.get_libration_point(int(point[1]))
        cm = CenterManifold(self.point, self.degree)
        self.hamsys = cm.dynamics.hamsys
        self.red = ReducedH(self.hamsys.poly_H())
        self.build_s = time.time() - t0

    def fresh_map(self, energy):
        from hiten.system.center import CenterManifold
        from hiten.system.maps import CenterManifoldMap
        cm = CenterManifold(self.point, self.degree)
        return cm, CenterManifoldMap(cm, float(energy))


def compute_map(env: Env, cfg: Cfg, rec: Recorder) -> Obs:
    import numba
    from hiten.algorithms.poincare.centermanifold.config import CenterManifoldMapConfig
    from hiten.algorithms.poincare.centermanifold.options import CenterManifoldMapOptions
    from hiten.algorithms.poincare.core.options import IterationOptions, SeedingOptions
    from hiten.algorithms.types.configs import IntegrationConfig
    from hiten.algorithms.types.options import IntegrationOptions, WorkerOptions
    cm, pm = env.fresh_map(cfg.energy)
    if cfg.explicit_config:
        pm.config = CenterManifoldMapConfig(seed_strategy=cfg.strategy, seed_axis=cfg.seed_axis if cfg.strategy == "single" else None,
                                            section_coord=cfg.section, integration=IntegrationConfig(method=cfg.method))
    opts = CenterManifoldMapOptions(
        integration=IntegrationOptions(dt=cfg.dt, order=cfg.order, max_steps=cfg.max_steps, c_omega_heuristic=20.0),
        iteration=IterationOptions(n_iter=cfg.n_iter), seeding=SeedingOptions(n_seeds=cfg.n_seeds),
        workers=WorkerOptions(n_workers=cfg.n_workers))
    nmax = int(numba.config.NUMBA_NUM_THREADS)
    rec.nthreads = max(1, min(int(cfg.nthreads), nmax))
    rec.sleep = bool(cfg.sleep)
    rec.take()
    numba.set_num_threads(rec.nthreads)
    obs = Obs(cfg)
    t0 = time.time()
    try:
        res = pm.compute(section_coord=cfg.section, options=opts)
        obs.points = np.array(res.points, dtype=float, copy=True)
        obs.states = np.array(res.states, dtype=float, copy=True)
        obs.times = None if res.times is None else np.array(res.times, dtype=float, copy=True)
        obs.labels = tuple(res.labels)
    except Exception as e:           # a refusal to compute is not decided by the property text
        obs.error = f"{type(e).__name__}: {e}"
    obs.wall = time.time() - t0
    obs.records = rec.take()
    if cm.dynamics.hamsys is not env.hamsys:
        raise Inconclusive("fresh CenterManifold did not share the Hamiltonian system the oracle was built from")
    return obs


# ====================================================================== helpers on observations
def enforce(states, section):
    out = np.array(states, dtype=float, copy=True).reshape(-1, 4)
    out[:, COLS[section]] = 0.0
    return out


def _rows_sorted(A):
    A = np.ascontiguousarray(A, dtype=np.float64)
    if A.size == 0:
        return A
    A = A + 0.0                                  # -0.0 -> +0.0 so that the byte comparison is a value comparison
    order = np.lexsort(A.T[::-1])
    return A[order]


def multiset_hash(A):
    return hashlib.sha1(_rows_sorted(A).tobytes()).hexdigest()[:20]


def same_multiset(A, B):
    A, B = _rows_sorted(A), _rows_sorted(B)
    return A.shape == B.shape and np.array_equal(A, B)


def pairs_of(records):
    """(predecessor, raw successor, time, iteration) for every successful seed and the list of failed seeds."""
    ok, failed = [], []
    for r in records:
        nz = np.nonzero(r.flags)[0]
        if len(nz) != len(r.states) or len(r.flags) != len(r.seeds):
            raise Inconclusive("backend response rows do not match its flags (harness assumption on the response layout)")
        for j, i in enumerate(nz):
            ok.append((r.seeds[i], r.states[j], float(r.times[j]) if len(r.times) > j else float("nan"), r.iteration, r))
        for i in np.nonzero(r.flags == 0)[0]:
            failed.append((r.seeds[i], r.iteration, r))
    return ok, failed
