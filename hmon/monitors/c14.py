"""C14 — centre-manifold Poincare maps stay on section and energy level, are genuine returns, and do not depend on the schedule.

Events (all on FRESH CenterManifold / CenterManifoldMap objects -- the service memo key ignores nested option values, so a
reused object would compare a result with itself):
  * ``CenterManifoldMap.compute(section_coord, options)`` -> points / states / labels / times;
  * ``_CenterManifoldBackend.run`` interposed from the harness: (call index, thread id, iteration, seeds in, flags / states /
    times out, numba thread count seen in the worker thread), i.e. every predecessor -> successor pair; the interposer also
    sets the numba thread count *inside the worker thread* (``numba.set_num_threads`` is thread local) and optionally sleeps
    0-5 ms around the kernel to scramble the completion order of the ThreadPoolExecutor in engine.py.
Oracle (nothing below uses the library's polynomial evaluation or integrators):
  * H_cm and J grad H_cm from the library's coefficient blocks through ``polyutil.unpack`` (a vectorised evaluation of the same
    dictionary, cross-checked against ``polyutil.eval_dict`` / ``polyutil.ham_field`` at run time);
  * SciPy DOP853 (rtol 1e-12) on the reduced flow (q1 = p1 = 0) from each predecessor, all zero crossings of the section
    coordinate located on the dense output (Brent), admissibility of each crossing three valued.
Clauses: 1 on section / points (and get_points / get_states) are the labelled columns; 2 energy level within K_E dt^p and
shrinking with dt; 3 genuine first admissible return (+ bookkeeping: returned rows = back-end successors, seeds fed back);
4 multiset of returned states bit-identical over n_workers x numba threads x sleep injection, and (thorough) under the
workqueue threading layer in sub-processes (one worker / several workers).
"""
from __future__ import annotations

import hashlib
import json
import os
import subprocess
import sys
import threading
import time
from dataclasses import asdict, dataclass, field

import numpy as np

from ..core import Inconclusive, guarded
from .. import polyutil as pu

MECH_F11 = "cm-map-points-wrong-columns-for-q2-p2-sections"

COLS = {"q2": 0, "p2": 1, "q3": 2, "p3": 3}          # column of a name in a 4-D centre-manifold state (q2, p2, q3, p3)
CONJ = {"q2": "p2", "p2": "q2", "q3": "p3", "p3": "q3"}
SECTIONS = ("q3", "p3", "q2", "p2")
STRATEGIES = ("axis_aligned", "single", "level_sets", "radial", "random")
PLANE = {"q3": ("q2", "p2"), "p3": ("q2", "p2"), "q2": ("q3", "p3"), "p2": ("q3", "p3")}   # the two coordinates left free


# ====================================================================== independent reduced Hamiltonian
class ReducedH:
    """H_cm(q2, p2, q3, p3) and its Hamiltonian field from the library's packed coefficient blocks (via polyutil.unpack)."""

    def __init__(self, blocks):
        H = pu.unpack([np.asarray(b) for b in blocks], 0.0)
        self.Hdict = H
        self.max_imag = max((abs(c.imag) for c in H.values()), default=0.0)
        self.hyperbolic_terms = sum(1 for k in H if k[0] or k[3])
        keys = [k for k in H if not (k[0] or k[3])]
        # state order (q2, p2, q3, p3)  <-  exponent positions (1, 4, 2, 5) of (q1,q2,q3,p1,p2,p3)
        self.E = np.array([[k[1], k[4], k[2], k[5]] for k in keys], dtype=np.int64).reshape(-1, 4)
        self.C = np.array([H[k].real for k in keys], dtype=float)
        self.deg = int(self.E.sum(axis=1).max()) if len(keys) else 0
        self.Em1 = np.maximum(self.E - 1, 0)
        self.Ef = self.E.astype(float)
        self._ar = np.arange(self.deg + 1)
        # linear frequencies (for horizons only)
        quad = {k: v for k, v in H.items() if sum(k) == 2}
        self.omega = sorted({round(2 * abs(v.real), 12) for v in quad.values()}, reverse=True)

    def _pw(self, y):
        return np.power(np.asarray(y, dtype=float)[:, None], self._ar[None, :])      # (4, deg+1)

    def energy(self, y):
        pw = self._pw(y)
        E = self.E
        return float(np.sum(self.C * pw[0, E[:, 0]] * pw[1, E[:, 1]] * pw[2, E[:, 2]] * pw[3, E[:, 3]]))

    def energies(self, Y):
        return np.array([self.energy(y) for y in np.atleast_2d(Y)])

    def grad(self, y):
        pw = self._pw(y)
        E, M, Ef = self.E, self.Em1, self.Ef
        F = [pw[j, E[:, j]] for j in range(4)]
        D = [Ef[:, j] * pw[j, M[:, j]] for j in range(4)]
        C = self.C
        return np.array([np.sum(C * D[0] * F[1] * F[2] * F[3]), np.sum(C * F[0] * D[1] * F[2] * F[3]),
                         np.sum(C * F[0] * F[1] * D[2] * F[3]), np.sum(C * F[0] * F[1] * F[2] * D[3])])

    def rhs(self, t, y):
        g = self.grad(y)
        # (q2', p2', q3', p3') = (dH/dp2, -dH/dq2, dH/dp3, -dH/dq3)
        return np.array([g[1], -g[0], g[3], -g[2]])

    @staticmethod
    def to6(y):
        return np.array([0.0, y[0], y[2], 0.0, y[1], y[3]])

    def selfcheck(self, rng, n=6, amp=0.5):
        """max deviation of the vectorised evaluation from polyutil.eval_dict / polyutil.ham_field (6-D, q1=p1=0)."""
        worst = 0.0
        for _ in range(n):
            y = rng.uniform(-amp, amp, 4)
            y6 = self.to6(y)
            e = pu.eval_dict(self.Hdict, y6).real
            f6 = pu.ham_field(self.Hdict, y6)
            f4 = np.array([f6[1], f6[4], f6[2], f6[5]])
            worst = max(worst, abs(e - self.energy(y)), float(np.abs(f4 - self.rhs(0.0, y)).max()),
                        abs(f6[0]), abs(f6[3]))           # q1' = p1' = 0 on the centre manifold
        return worst


# ====================================================================== reference flow and crossings
@dataclass
class Crossing:
    t: float
    x: np.ndarray
    slope: float            # d(section coordinate)/dt at the crossing
    gmin: float             # range of the library's direction function over [t, t + dt]
    gmax: float
    fpp: float              # max |f''| over [t - dt, t + dt] (conditioning of the linear crossing fraction)
    speed: float            # max |x'| at the crossing
    excursion: float = 0.0  # min(|f(t - 2dt)|, |f(t + 2dt)|): how far the section coordinate moves away on both sides


def direction_value(red: ReducedH, section: str, Y):
    """The library's documented direction function g: conjugate momentum for q-sections, dq_i/dt for p-sections."""
    Y = np.atleast_2d(Y)
    if section in ("q2", "q3"):
        return Y[:, COLS[CONJ[section]]].copy()
    j = COLS[CONJ[section]]            # column of q_i whose velocity is tested
    return np.array([red.rhs(0.0, y)[j] for y in Y])


def reference_crossings(red: ReducedH, section: str, x0, T, dt, grid=None):
    """Integrate the reduced flow from x0 over [0, T]; all zero crossings of the section coordinate for t > 0."""
    from scipy.integrate import solve_ivp
    from scipy.optimize import brentq
    idx = COLS[section]
    sol = solve_ivp(red.rhs, (0.0, T), np.asarray(x0, dtype=float), method="DOP853", rtol=1e-12, atol=1e-14, dense_output=True)
    if not sol.success:
        raise Inconclusive(f"reference integration failed: {sol.message}")
    h = grid or min(dt / 4.0, 2.5e-3)
    n = max(8, int(np.ceil(T / h)))
    tg = np.linspace(0.0, T, n + 1)
    Yg = sol.sol(tg)
    f = Yg[idx]
    out = []
    # t = 0 is on the section by construction: start looking at the first grid point with f != 0
    k0 = 1
    sgn = np.sign(f)
    for k in range(k0, n):
        a, b = sgn[k], sgn[k + 1]
        if a == 0 or a * b >= 0:
            if not (a != 0 and b == 0 and k + 2 <= n and sgn[k + 2] * a < 0):
                continue
            tb = tg[k + 2]
        else:
            tb = tg[k + 1]
        tc = brentq(lambda t: sol.sol(t)[idx], tg[k], tb, xtol=1e-14, rtol=1e-15, maxiter=200)
        xc = sol.sol(tc)
        fc = red.rhs(tc, xc)
        ts = np.linspace(tc, min(tc + dt, T), 9)
        g = direction_value(red, section, sol.sol(ts).T)
        tw = np.linspace(max(0.0, tc - dt), min(T, tc + dt), 9)
        fd = np.array([red.rhs(0.0, y)[idx] for y in sol.sol(tw).T])
        fpp = float(np.abs(np.gradient(fd, tw)).max())
        exc = float(np.abs(sol.sol(np.array([max(0.0, tc - 2.0 * dt), min(T, tc + 2.0 * dt)]))[idx]).min())
        out.append(Crossing(float(tc), np.array(xc), float(fc[idx]), float(g.min()), float(g.max()), fpp, float(np.abs(fc).max()), exc))
    return out, sol


# ====================================================================== configuration of one map computation
@dataclass(frozen=True)
class Cfg:
    point: str = "L1"
    degree: int = 6
    energy: float = 0.6
    section: str = "q3"
    strategy: str = "axis_aligned"
    seed_axis: str | None = None
    explicit_config: bool = True      # False: leave the default map config and only pass section_coord to compute()
    method: str = "fixed"
    order: int = 4
    dt: float = 0.01
    n_iter: int = 3
    n_seeds: int = 20
    max_steps: int = 2000
    c_omega: float = 20.0
    n_workers: int = 1
    nthreads: int = 1
    sleep: bool = False

    def scheme(self):
        return f"{'rk' if self.method == 'fixed' else 'symp'}{self.order}"

    def physics_key(self):
        d = asdict(self)
        for k in ("n_workers", "nthreads", "sleep"):
            d.pop(k)
        return d

    def with_(self, **kw):
        d = asdict(self)
        d.update(kw)
        return Cfg(**d)


@dataclass
class Record:
    call: int
    thread: int
    iteration: int | None
    seeds: np.ndarray
    flags: np.ndarray
    states: np.ndarray
    times: np.ndarray
    nthreads_seen: int
    section: str
    dt: float
    order: int
    method: str
    max_steps: int


@dataclass
class Obs:
    cfg: Cfg
    error: str | None = None
    points: np.ndarray | None = None
    states: np.ndarray | None = None
    times: np.ndarray | None = None
    labels: tuple | None = None
    records: list = field(default_factory=list)
    wall: float = 0.0
    got_points: np.ndarray | None = None      # CenterManifoldMap.get_points(section_coord)
    axes: tuple | None = None                 # axes asked from CenterManifoldMap.get_states(section_coord, axes)
    got_axes: np.ndarray | None = None
    accessor_error: str | None = None


class Recorder:
    """Harness-side interposition on ``_CenterManifoldBackend.run`` (class attribute; restored by ``uninstall``)."""

    def __init__(self, rng):
        self.lock = threading.Lock()
        self.records = []
        self.sleep = False
        self.nthreads = None
        self._delays = rng.uniform(0.0, 5e-3, 4096)
        self._k = 0
        self.installed = False

    def _delay(self):
        with self.lock:
            d = self._delays[self._k % len(self._delays)]
            self._k += 1
        return float(d)

    def install(self):
        import numba
        from hiten.algorithms.poincare.centermanifold.backend import _CenterManifoldBackend as B
        if self.installed:
            return
        self.B, self.orig = B, B.run
        rec = self

        def run(backend_self, request):
            if rec.nthreads:
                numba.set_num_threads(int(rec.nthreads))          # thread local: must happen in the worker thread
            if rec.sleep:
                time.sleep(rec._delay())
            seeds = np.array(request.seeds, dtype=float, copy=True).reshape(-1, 4)
            resp = rec.orig(backend_self, request)
            seen = int(numba.get_num_threads())
            if rec.sleep:
                time.sleep(rec._delay())
            it = request.metadata.get("iteration") if isinstance(request.metadata, dict) else None
            r = Record(call=-1, thread=threading.get_ident(), iteration=it, seeds=seeds,
                       flags=np.array(resp.flags, copy=True), states=np.array(resp.states, dtype=float, copy=True).reshape(-1, 4),
                       times=np.array(resp.times, dtype=float, copy=True).reshape(-1), nthreads_seen=seen,
                       section=str(request.section_coord), dt=float(request.dt), order=int(request.order),
                       method=str(request.method), max_steps=int(request.max_steps))
            with rec.lock:
                r.call = len(rec.records)
                rec.records.append(r)
            return resp
        B.run = run
        self.installed = True

    def uninstall(self):
        if self.installed:
            self.B.run = self.orig
            self.installed = False

    def take(self):
        with self.lock:
            out, self.records = self.records, []
        return out


class Env:
    """One libration point and truncation degree: library objects + the independent reduced Hamiltonian."""

    def __init__(self, point: str, degree: int, system=None):
        from hiten.system import System
        from hiten.system.center import CenterManifold
        t0 = time.time()
        self.point_name, self.degree = point, int(degree)
        self.system = system or System.from_bodies("earth", "moon")
        self.point = self.system.get_libration_point(int(point[1]))
        cm = CenterManifold(self.point, self.degree)
        self.hamsys = cm.dynamics.hamsys
        self.red = ReducedH(self.hamsys.poly_H())
        self.build_s = time.time() - t0

    def fresh_map(self, energy):
        from hiten.system.center import CenterManifold
        from hiten.system.maps import CenterManifoldMap
        cm = CenterManifold(self.point, self.degree)
        return cm, CenterManifoldMap(cm, float(energy))


def compute_map(env: Env, cfg: Cfg, rec: Recorder, axes=None) -> Obs:
    import numba
    from hiten.algorithms.poincare.centermanifold.config import CenterManifoldMapConfig
    from hiten.algorithms.poincare.centermanifold.options import CenterManifoldMapOptions
    from hiten.algorithms.poincare.core.options import IterationOptions, SeedingOptions
    from hiten.algorithms.types.configs import IntegrationConfig
    from hiten.algorithms.types.options import IntegrationOptions, WorkerOptions
    cm, pm = env.fresh_map(cfg.energy)
    if cfg.explicit_config:
        axis = (cfg.seed_axis or PLANE[cfg.section][0]) if cfg.strategy == "single" else None
        pm.config = CenterManifoldMapConfig(seed_strategy=cfg.strategy, seed_axis=axis, section_coord=cfg.section,
                                            integration=IntegrationConfig(method=cfg.method))
    opts = CenterManifoldMapOptions(
        integration=IntegrationOptions(dt=cfg.dt, order=cfg.order, max_steps=cfg.max_steps, c_omega_heuristic=cfg.c_omega),
        iteration=IterationOptions(n_iter=cfg.n_iter), seeding=SeedingOptions(n_seeds=cfg.n_seeds),
        workers=WorkerOptions(n_workers=cfg.n_workers))
    nmax = int(numba.config.NUMBA_NUM_THREADS)
    rec.nthreads = max(1, min(int(cfg.nthreads), nmax))
    rec.sleep = bool(cfg.sleep)
    rec.take()
    numba.set_num_threads(rec.nthreads)
    obs = Obs(cfg)
    t0 = time.time()
    try:
        res = pm.compute(section_coord=cfg.section, options=opts)
        obs.points = np.array(res.points, dtype=float, copy=True)
        obs.states = np.array(res.states, dtype=float, copy=True)
        obs.times = None if res.times is None else np.array(res.times, dtype=float, copy=True)
        obs.labels = tuple(res.labels)
    except Exception as e:           # a refusal to compute is not decided by the property text
        obs.error = f"{type(e).__name__}: {e}"
    obs.wall = time.time() - t0
    obs.records = rec.take()
    if obs.error is None and axes is not None and len(obs.states):
        try:                         # accessors of the same (memoised) section: no further back-end call expected
            obs.axes = tuple(axes)
            obs.got_points = np.array(pm.get_points(section_coord=cfg.section), dtype=float, copy=True)
            obs.got_axes = np.array(pm.get_states(section_coord=cfg.section, axes=tuple(axes)), dtype=float, copy=True)
        except Exception as e:
            obs.accessor_error = f"{type(e).__name__}: {e}"
        extra = rec.take()
        if extra:
            obs.accessor_error = (obs.accessor_error or "") + f" accessors triggered {len(extra)} further back-end calls"
    if cm.dynamics.hamsys is not env.hamsys:
        raise Inconclusive("fresh CenterManifold did not share the Hamiltonian system the oracle was built from")
    return obs


# ====================================================================== helpers on observations
def enforce(states, section):
    out = np.array(states, dtype=float, copy=True).reshape(-1, 4)
    out[:, COLS[section]] = 0.0
    return out


def _rows_sorted(A):
    A = np.ascontiguousarray(A, dtype=np.float64)
    if A.size == 0:
        return A
    A = A + 0.0                                  # -0.0 -> +0.0 so that the byte comparison is a value comparison
    order = np.lexsort(A.T[::-1])
    return A[order]


def multiset_hash(A):
    return hashlib.sha1(_rows_sorted(A).tobytes()).hexdigest()[:20]


def same_multiset(A, B):
    A, B = _rows_sorted(A), _rows_sorted(B)
    return A.shape == B.shape and np.array_equal(A, B)


def pairs_of(records):
    """(predecessor, raw successor, time, iteration) for every successful seed and the list of failed seeds."""
    ok, failed = [], []
    for r in records:
        nz = np.nonzero(r.flags)[0]
        if len(nz) != len(r.states) or len(r.flags) != len(r.seeds):
            raise Inconclusive("backend response rows do not match its flags (harness assumption on the response layout)")
        for j, i in enumerate(nz):
            ok.append((r.seeds[i], r.states[j], float(r.times[j]) if len(r.times) > j else float("nan"), r.iteration, r))
        for i in np.nonzero(r.flags == 0)[0]:
            failed.append((r.seeds[i], r.iteration, r))
    return ok, failed


# ====================================================================== tolerances (calibrated on the real code, see report)
# Energy: measured max of |H - h0| / (iteration index + 1) at dt = 0.01 over energies, strategies, RK orders and both points
# (L1 h <= 1.3, L2 h <= 1.0): q3 1.4e-7, p3 5.7e-7, q2 5.0e-7, p2 3.4e-6; the table is 1.5 x that after the thorough sweep
# (largest observed |H - h0| / tolerance there: 0.14 with the old table).  The error comes from zeroing the section
# coordinate of the Hermite point taken at the *linear* crossing fraction (residual ~ f'' dt^2 / 8), so it scales like
# dt^2 (p2) .. dt^4 (q3): envelope max(r^2, r^4), r = dt / 0.01 (measured 0.02 -> 0.01 ratios 3.9 .. 14, 0.01 -> 0.005
# ratios 3 .. 8); energy dependence min(1, h / h_ref)^1.25 (measured exponents 1.5 .. 2 below h_ref).  Margin 10.
K_E_RK = {"q3": 4.5e-7, "p3": 9.0e-7, "q2": 9.0e-7, "p2": 6.0e-6}
H_REF = {"L1": 1.0, "L2": 0.6}
# Symplectic (Tao extended phase space, omega = (c dt)^-order, re-initialised every step): measured per-iteration energy
# error and state error at h_ref over sections / points / strategies (quick + thorough sweeps); not monotone in dt.
K_E_SYMP = {4: {0.02: 5.0e-3, 0.01: 1.0e-3, 0.005: 1.0e-4}, 6: {0.02: 1.2e-2, 0.01: 2.5e-3, 0.005: 2.6e-3}}
K_S_SYMP = {4: {0.02: 1.6e-2, 0.01: 4.5e-3, 0.005: 6.0e-4}, 6: {0.02: 1.4e-2, 0.01: 2.5e-3, 0.005: 1.6e-3}}
MARGIN = 10.0
STATE_MARGIN_RK = 8.0          # on the conditioning bound speed * dt^2 * max|f''| / (8 |f'|); measured ratio <= 1.00
SHRINK = 0.75                  # E(dt/2) <= SHRINK * E(dt) inside the conclusive window; measured ratios 0.07 .. 0.44 (RK)
SHRINK_FLOOR = 1e-9
MECH_SYMP_STALL = "symplectic-tao-omega-heuristic-energy-error-does-not-shrink-with-dt"


def _hfac(point, h, expo):
    return min(1.0, float(h) / H_REF.get(point, 0.6)) ** expo


def _symp_table(tab, order, dt):
    t = tab.get(int(order))
    if t is None:
        return None
    ks = sorted(t)
    # piecewise constant from above: never tighter than the nearest calibrated step size >= dt
    for k in ks:
        if dt <= k * (1 + 1e-9):
            return t[k] if abs(dt - k) <= 1e-9 * k else max(t[k], t[ks[max(0, ks.index(k) - 1)]])
    return None


def tol_energy(point, section, method, order, dt, h, k):
    """Tolerance on |H_cm - h0| of a state of iterate k (0 based); None if the scheme/step is not calibrated."""
    r = dt / 0.01
    if method == "fixed":
        if order not in (4, 6, 8) or not (0.004 <= dt <= 0.021):
            return None
        return MARGIN * (k + 1) * K_E_RK[section] * _hfac(point, h, 1.25) * max(r ** 2, r ** 4) + 1e-11
    K = _symp_table(K_E_SYMP, order, dt)
    return None if K is None else MARGIN * (k + 1) * K * _hfac(point, h, 1.0)


def tol_state(point, method, order, dt, h, c: Crossing):
    r = dt / 0.01
    if method == "fixed":
        if order not in (4, 6, 8) or not (0.004 <= dt <= 0.021):
            return None
        bound = c.speed * dt ** 2 * c.fpp / (8.0 * max(abs(c.slope), 1e-300))
        return STATE_MARGIN_RK * bound + 5e-7 * r ** 4 + 1e-10
    K = _symp_table(K_S_SYMP, order, dt)
    return None if K is None else MARGIN * K * _hfac(point, h, 1.0)


def direction_margin(point, method, order, dt, h):
    """Uncertainty of the library's direction value at its step end (global error of its trajectory)."""
    r = dt / 0.01
    if method == "fixed":
        return max(1e-6, 1e-5 * r ** 4)
    K = _symp_table(K_S_SYMP, order, dt)
    return 1e-2 if K is None else max(1e-6, MARGIN * K * _hfac(point, h, 1.0))


# ====================================================================== per-map checks
def _cfg_key(cfg):
    return [cfg.physics_key(), cfg.n_workers, cfg.nthreads, cfg.sleep]


def f11_classifier(section, labels, points, states):
    """points are state columns (q2, p2) although labels name (q3, p3) -- sections q2 / p2 only."""
    if section not in ("q2", "p2") or tuple(labels) != ("q3", "p3") or len(states) == 0:
        return False
    if points.shape != (len(states), 2):
        return False
    return bool(np.array_equal(points, states[:, [COLS["q2"], COLS["p2"]]]) and not np.array_equal(points, states[:, [COLS["q3"], COLS["p3"]]]))


def check_structure(ctx, env, obs):
    """Clause 1 and the predecessor/successor bookkeeping of clause 3.  Returns (ok_pairs, failed_seeds) or None."""
    cfg, sec = obs.cfg, obs.cfg.section
    if obs.error is not None:
        ctx.case("map:refused", _cfg_key(cfg), nontrivial=False)
        ctx.skip("compute() refused: " + obs.error.split(":")[0])
        return None
    ctx.count("back-end invocations", len(obs.records))
    if not obs.records:
        ctx.case("map:no-backend-call", _cfg_key(cfg), nontrivial=False)
        ctx.mark_inconclusive("compute() returned without any back-end invocation (memoised result?)")
        return None
    ok, failed = pairs_of(obs.records)
    ctx.case(f"map:{cfg.point}/{cfg.degree}:{sec}:{cfg.scheme()}", _cfg_key(cfg), nontrivial=len(ok) >= 4)
    ctx.count("predecessor->successor pairs recorded", len(ok))
    ctx.count("seeds reported as not returning", len(failed))
    S, P, T, labels = obs.states, obs.points, obs.times, obs.labels
    base = {"config": asdict(cfg)}
    idx = COLS[sec]
    shape_ok = S.ndim == 2 and S.shape[1] == 4
    ctx.check(shape_ok and bool(np.all(S[:, idx] == 0.0)), "1:section coordinate of every returned state is exactly 0",
              lambda: {**base, "n": len(S), "max_abs_section_coordinate": float(np.abs(S[:, idx]).max()) if shape_ok and len(S) else None})
    if not shape_ok:
        return None
    ctx.count("1:states on section", len(S))
    if len(S) and labels is not None and all(l in COLS for l in labels) and len(labels) == 2:
        expect = S[:, [COLS[labels[0]], COLS[labels[1]]]]
        good = P.shape == expect.shape and bool(np.array_equal(P, expect))
        mech = None
        if not good and f11_classifier(sec, labels, P, S):
            mech = MECH_F11
        ctx.check(good, "1:points are the columns of states named by labels",
                  lambda: {**base, "labels": labels, "points_head": P[:3], "states_head": S[:3], "expected_points_head": expect[:3],
                           "points_equal_state_columns_q2_p2": bool(P.shape == (len(S), 2) and np.array_equal(P, S[:, [0, 1]]))}, mech)
    elif len(S):
        ctx.check(False, "1:labels name two centre-manifold coordinates", {**base, "labels": labels})
    if obs.axes is not None and len(S):
        if obs.accessor_error:
            ctx.skip("accessor raised or recomputed: " + obs.accessor_error[:60])
        else:
            expect_ax = S[:, [COLS[obs.axes[0]], COLS[obs.axes[1]]]]
            G = obs.got_axes
            good = G is not None and G.shape == expect_ax.shape and bool(np.array_equal(G, expect_ax))
            mech = None
            if not good and G is not None and f11_classifier(sec, labels, P, S):
                # the accessor takes an axis that is one of the labels from `points`: same wrong columns
                pred = np.column_stack([P[:, list(labels).index(a)] if a in labels else S[:, COLS[a]] for a in obs.axes])
                if G.shape == pred.shape and np.array_equal(G, pred):
                    mech = MECH_F11
            ctx.check(good, "1:get_states(section, axes) returns the state columns named by axes",
                      lambda: {**base, "axes": obs.axes, "returned_head": None if G is None else G[:3], "expected_head": expect_ax[:3],
                               "states_head": S[:3]}, mech)
            ctx.check(obs.got_points is not None and obs.got_points.shape == P.shape and np.array_equal(obs.got_points, P),
                      "1:get_points(section) returns the points of the computed map", lambda: {**base, "got_head": obs.got_points[:3], "points_head": P[:3]})
    # ---- returned rows are exactly the back-end successors (each once, with its time)
    enf = [enforce(r.states, sec) for r in obs.records]
    allS = np.vstack(enf) if enf else np.empty((0, 4))
    allT = np.concatenate([r.times for r in obs.records]) if obs.records else np.empty(0)
    if T is not None and len(T) == len(S) and len(allT) == len(allS):
        same = same_multiset(np.column_stack([S, T]), np.column_stack([allS, allT]))
    else:
        same = same_multiset(S, allS) and (T is None or len(T) == len(S))
    ctx.check(same, "3:returned states are exactly the successors produced by the back end (each once, with its time)",
              lambda: {**base, "returned_rows": len(S), "backend_rows": len(allS), "calls": len(obs.records),
                       "rows_per_call": [len(r.states) for r in obs.records][:40]})
    # ---- feedback chain
    by_it = {}
    for r, e in zip(obs.records, enf):
        by_it.setdefault(r.iteration, []).append((r, e))
    for r in obs.records:
        if r.iteration is None or r.iteration == 0:
            continue
        prev = by_it.get(r.iteration - 1, [])
        fed = any(e.shape == r.seeds.shape and np.array_equal(e, r.seeds) for _, e in prev)
        ctx.check(fed, "3:predecessors of iterate k>=1 are the returned states of iterate k-1 (seeds fed back, on section)",
                  lambda: {**base, "iteration": r.iteration, "seeds_head": r.seeds[:2],
                           "previous_outputs_head": [e[:2] for _, e in prev[:3]],
                           "seed_section_coordinate_max": float(np.abs(r.seeds[:, idx]).max()) if len(r.seeds) else None})
    seeds0 = [r.seeds for r in obs.records if r.iteration in (0, None)]
    if seeds0:
        s0 = np.vstack(seeds0)
        ctx.stat("seed |H - h0|", float(np.abs(env.red.energies(s0) - cfg.energy).max()) if len(s0) else 0.0)
        ctx.stat("seed |section coordinate|", float(np.abs(s0[:, idx]).max()) if len(s0) else 0.0)
    return ok, failed


def check_energy(ctx, env, obs, ok):
    cfg, sec = obs.cfg, obs.cfg.section
    worst = (0.0, None)
    n = 0
    emax = 0.0
    for (pred, raw, tl, it, r) in ok:
        tol = tol_energy(cfg.point, sec, r.method, r.order, r.dt, cfg.energy, it or 0)
        if tol is None:
            ctx.skip("energy tolerance not calibrated for this scheme/step")
            return None
        e = abs(env.red.energy(enforce(raw[None], sec)[0]) - cfg.energy)
        emax = max(emax, e)
        n += 1
        if e / tol > worst[0]:
            worst = (e / tol, {"iteration": it, "state": enforce(raw[None], sec)[0], "H_minus_h0": e, "tolerance": tol})
    if n == 0:
        return None
    ctx.count("2:states evaluated", n)
    fam = "rk" if cfg.method == "fixed" else "symplectic"
    ctx.stat(f"|H-h0|/tolerance [{fam}]", worst[0])
    ctx.stat(f"|H-h0| [{cfg.scheme()} dt={cfg.dt:g} {sec}]", emax)
    ctx.check(worst[0] <= 1.0, "2:|H_cm(state) - h0| within the calibrated integration accuracy K_E dt^p of the scheme",
              lambda: {"config": asdict(cfg), "worst": worst[1], "max_abs_error": emax})
    return emax


def _definitely_admissible(c, crossings, dt, m, t_end):
    # the crossing must be unmistakable for a trajectory that is only m-accurate: clear direction value, clear sign change
    if not (c.gmin > m and c.t > 2.0 * dt and abs(c.slope) >= 1e-2 and c.t + 2.0 * dt <= t_end and c.excursion > m):
        return False
    return not any(o is not c and abs(o.t - c.t) <= 2.0 * dt for o in crossings)


def check_pair(ctx, env, cfg, pred, raw, t_lib, r):
    """Clause 3 for one predecessor -> successor pair."""
    red, sec = env.red, cfg.section
    dt = r.dt
    xe = enforce(raw[None], sec)[0]
    T_all = r.max_steps * dt
    T1 = (t_lib if np.isfinite(t_lib) and t_lib > 0 else 2.0 * np.pi / min(red.omega)) + 2.5 * dt
    horizons = [min(T1, T_all + 2.5 * dt)]
    if horizons[0] < T_all:
        horizons.append(min(T_all + 2.5 * dt, max(2.0 * T1, 15.0)))
    match = None
    for T in horizons:
        crossings, _ = reference_crossings(red, sec, pred, T, dt)
        best = None
        for j, c in enumerate(crossings):
            tol = tol_state(cfg.point, r.method, r.order, dt, cfg.energy, c)
            if tol is None:
                ctx.skip("state tolerance not calibrated for this scheme/step")
                return
            d = float(np.abs(c.x - xe).max())
            if best is None or d / tol < best[0]:
                best = (d / tol, j, d, tol)
        if best is not None and best[0] <= 1.0:
            match = (T, crossings, best)
            break
    fam = "rk" if r.method == "fixed" else "symplectic"

    def wit(**kw):
        return {"config": asdict(cfg), "iteration": r.iteration, "predecessor": pred, "successor_raw": raw, "successor_time": t_lib,
                "reference_crossings": [{"t": c.t, "x": c.x, "slope": c.slope, "g_range": [c.gmin, c.gmax]} for c in crossings[:8]], **kw}
    ctx.check(match is not None, "3:successor coincides with a zero crossing of the section coordinate on the reduced flow from its predecessor",
              lambda: wit(best_error_over_tolerance=None if best is None else best[0], best_error=None if best is None else best[2],
                          tolerance=None if best is None else best[3]))
    if match is None:
        return
    T, crossings, (ratio, j, d, tol) = match
    c = crossings[j]
    ctx.stat(f"state error / tolerance [{fam}]", ratio)
    if r.method == "fixed":
        ctx.stat("state error / conditioning bound [rk]", d / max(c.speed * dt ** 2 * c.fpp / (8.0 * abs(c.slope)), 1e-300))
    ctx.stat(f"state error [{cfg.scheme()} dt={dt:g}]", d)
    ctx.stat(f"|t_lib - t_cross| [{fam}]", abs(t_lib - c.t))
    ctx.stat("raw section residual before enforcement", abs(raw[COLS[sec]]))
    m = direction_margin(cfg.point, r.method, r.order, dt, cfg.energy)
    status = "admissible" if c.gmin > m else ("inadmissible" if c.gmax < -m else "ambiguous")
    ctx.count(f"3:accepted crossing is {status} [{'q' if sec[0] == 'q' else 'p'}-section]")
    if getattr(ctx, "_c14_pair_samples", 0) < 3 and (j > 0 or sec[0] == "p"):
        ctx._c14_pair_samples = getattr(ctx, "_c14_pair_samples", 0) + 1
        ctx.sample({"pair": {"point": cfg.point, "section": sec, "scheme": cfg.scheme(), "dt": dt, "energy": cfg.energy, "iteration": r.iteration},
                    "predecessor": pred, "successor_returned": xe, "successor_time": t_lib,
                    "reference_crossings": [{"t": o.t, "g_range": [o.gmin, o.gmax], "slope": o.slope} for o in crossings[:6]],
                    "matched_crossing": j, "state_error": d, "tolerance": tol, "admissibility_of_match": status, "margin": m})
    ctx.check(not (c.gmax < -m), "3:accepted crossing is not definitely inadmissible in the documented direction",
              lambda: wit(accepted_index=j, g_range=[c.gmin, c.gmax], margin=m))
    earlier = [k for k, o in enumerate(crossings[:j]) if _definitely_admissible(o, crossings, dt, m, T)]
    ctx.check(not earlier, "3:no earlier crossing is definitely admissible (first return)",
              lambda: wit(accepted_index=j, earlier_admissible=earlier, margin=m))
    if earlier == [] and j > 0:
        ctx.count("3:earlier crossings skipped legitimately", j)


def check_failed_seed(ctx, env, cfg, seed, r):
    red, sec = env.red, cfg.section
    dt = r.dt
    T = r.max_steps * dt
    crossings, _ = reference_crossings(red, sec, seed, T, dt, grid=min(dt / 2.0, 5e-3))
    m = direction_margin(cfg.point, r.method, r.order, dt, cfg.energy)
    adm = [k for k, o in enumerate(crossings) if _definitely_admissible(o, crossings, dt, m, T - 2.0 * dt)]
    ctx.check(not adm, "3:a seed reported as not returning has no definitely admissible crossing within max_steps*dt",
              lambda: {"config": asdict(cfg), "seed": seed, "horizon": T, "definitely_admissible": adm[:4],
                       "crossings": [{"t": c.t, "g_range": [c.gmin, c.gmax], "slope": c.slope} for c in crossings[:10]]})


def check_map(ctx, env, obs, n_ref=8, n_failed=2):
    cfg = obs.cfg
    st = check_structure(ctx, env, obs)
    if st is None:
        return None
    ok, failed = st
    emax = check_energy(ctx, env, obs, ok)
    if ok and n_ref > 0:
        # sub-sample, preferring to cover every iterate
        order = ctx.rng.permutation(len(ok))
        seen_it, first, rest = set(), [], []
        for i in order:
            (first if ok[i][3] not in seen_it else rest).append(i)
            seen_it.add(ok[i][3])
        for i in (first + rest)[:n_ref]:
            pred, raw, tl, it, r = ok[i]
            check_pair(ctx, env, cfg, pred, raw, tl, r)
    if failed and n_failed > 0:
        for i in ctx.rng.permutation(len(failed))[:n_failed]:
            seed, it, r = failed[i]
            check_failed_seed(ctx, env, cfg, seed, r)
    return emax


# ====================================================================== workload
ENERGY_RANGE = {"L1": (0.05, 1.25), "L2": (0.05, 0.75)}
RK_SCHEMES = (("fixed", 4), ("fixed", 6), ("fixed", 8))
WORKERS = (1, 2, 3, 5, 8, 16)
THREADS = (1, 4, 16)


def sweep_configs(ctx, points, n, symp_orders, dts, dt_weights, max_iter):
    """Pseudo-random configurations that cover every section x scheme family, every strategy and every step size."""
    rng = ctx.rng
    out = []
    schemes = list(RK_SCHEMES) + [("symplectic", o) for o in symp_orders]
    for i in range(n):
        point, degree = points[i % len(points)]
        sec = SECTIONS[i % 4]
        method, order = schemes[(i // 4 + i) % len(schemes)]
        dt = float(rng.choice(dts, p=dt_weights))
        if method == "symplectic":
            dt = float(rng.choice([d for d in dts if d >= (0.01 if ctx.quick else 0.005)]))
        lo, hi = ENERGY_RANGE[point]
        h = round(float(lo + (hi - lo) * rng.random() ** 0.8), 3)
        strat = STRATEGIES[(i + i // 5) % len(STRATEGIES)]
        n_iter = int(rng.integers(3, max_iter + 1))
        if method == "symplectic" or dt < 0.01:
            n_iter = min(n_iter, 4 if ctx.quick else 8)
        explicit = bool(rng.random() < 0.85) or method != "fixed"
        out.append(Cfg(point=point, degree=degree, energy=h, section=sec, strategy=strat if explicit else "axis_aligned",
                       seed_axis=(PLANE[sec][int(rng.integers(2))] if strat == "single" else None), explicit_config=explicit,
                       method=method, order=order, dt=dt, n_iter=n_iter, n_seeds=int(rng.integers(6, 21)),
                       n_workers=int(rng.choice(WORKERS)), nthreads=int(rng.choice(THREADS)), sleep=bool(rng.random() < 0.5)))
    return out


def main_sweep(ctx, envs, rec, cfgs, n_ref):
    for i, cfg in enumerate(cfgs):
        if not ctx.mine(i):
            continue
        env = envs[(cfg.point, cfg.degree)]
        names = list(COLS)
        ax = tuple(names[j] for j in ctx.rng.choice(4, size=2, replace=False))
        obs = compute_map(env, cfg, rec, axes=ax)
        if i < 4 and obs.error is None:
            ctx.sample({"config": asdict(cfg), "labels": obs.labels, "n_states": len(obs.states), "states_head": obs.states[:2],
                        "points_head": obs.points[:2], "backend_calls": len(obs.records),
                        "threads": len({r.thread for r in obs.records}), "numba_threads_seen": sorted({r.nthreads_seen for r in obs.records})})
        check_map(ctx, env, obs, n_ref=n_ref)
        n0 = sum(len(r.seeds) for r in obs.records if r.iteration in (0, None))
        if obs.records and cfg.explicit_config and cfg.strategy in ("single", "axis_aligned", "radial") and n0 != cfg.n_seeds:
            ctx.count("observation: SeedingOptions.n_seeds not honoured (seed count differs from the option)")


def shrink_monitor(ctx, envs, rec, cases, n_ref):
    """Clause 2b: same map at dt, dt/2(, dt/4): the maximal energy error shrinks inside the conclusive window."""
    for i, (base, dts) in enumerate(cases):
        if not ctx.mine(i):
            continue
        env = envs[(base.point, base.degree)]
        errs = []
        for dt in dts:
            cfg = base.with_(dt=dt)
            obs = compute_map(env, cfg, rec)
            e = check_map(ctx, env, obs, n_ref=n_ref)
            errs.append((dt, e))
        for (d1, e1), (d2, e2) in zip(errs[:-1], errs[1:]):
            if e1 is None or e2 is None:
                ctx.skip("shrink pair without energy data")
                continue
            if e1 < SHRINK_FLOOR:
                ctx.skip("shrink pair below the conclusive window (error already at the floor)")
                continue
            good = e2 <= SHRINK * e1
            mech = None
            if not good and base.method == "symplectic":
                omega_dt = (base.c_omega * d2) ** (-float(base.order)) * d2
                if omega_dt > 2.0 * np.pi:
                    mech = MECH_SYMP_STALL
            fam = "rk" if base.method == "fixed" else "symplectic"
            ctx.stat(f"E(dt/2)/E(dt) [{fam}]", e2 / e1)
            if fam == "symplectic":
                # C14's text asks for the energy level "within integration accuracy" (the calibrated absolute bound of clause 2, which IS
                # asserted for symplectic maps). Shrinking with dt is a convergence statement: with the library's omega heuristic
                # (omega = (c*dt)^-order) the error term dt^order*omega is constant by construction, and the scheme's order is C16's
                # subject (known finding there). Recorded, not asserted.
                ctx.count("2:symplectic E(dt/2)/E(dt) recorded, not asserted (convergence of the symplectic scheme is C16's subject)")
                if not good:
                    ctx.count("2:symplectic energy error did not shrink when dt was halved (omega heuristic)")
                continue
            ctx.check(good, f"2:energy error shrinks when dt is halved [{fam}]",
                      {"config": asdict(base), "dt": [d1, d2], "max_energy_error": [e1, e2], "ratio": e2 / e1,
                       "omega_dt_at_finer_step": (base.c_omega * d2) ** (-float(base.order)) * d2 if base.method == "symplectic" else None}, mech)


# ====================================================================== clause 4: schedule independence
def _stack(obs):
    if obs.times is not None and len(obs.times) == len(obs.states):
        return np.column_stack([obs.states, obs.times])
    return obs.states


def _multiset_diff(A, B):
    A, B = _rows_sorted(A), _rows_sorted(B)
    d = {"rows": [len(A), len(B)]}
    if A.shape == B.shape and A.size:
        d["max_abs_difference_after_sorting"] = float(np.abs(A - B).max())
        bad = np.nonzero(np.any(A != B, axis=1))[0]
        d["differing_rows"] = int(len(bad))
        if len(bad):
            d["first_differing_pair"] = [A[bad[0]], B[bad[0]]]
    return d


def schedule_monitor(ctx, envs, rec, bases, schedules, stats):
    for bi, base in enumerate(bases):
        if not ctx.mine(bi):
            continue
        env = envs[(base.point, base.degree)]
        ref = compute_map(env, base.with_(n_workers=1, nthreads=1, sleep=False), rec)
        st = check_map(ctx, env, ref, n_ref=0)
        if ref.error is not None or not ref.records or len(ref.states) < 8:
            ctx.skip("schedule base configuration produced too few states")
            continue
        R = _stack(ref)
        ok_ref, _ = pairs_of(ref.records)
        Rpairs = np.array([np.concatenate([p, s]) for p, s, *_ in ok_ref])
        ref_order = hashlib.sha1(np.ascontiguousarray(ref.states).tobytes()).hexdigest()
        orders = {ref_order}
        for (nw, nt, sl) in schedules:
            cfg = base.with_(n_workers=nw, nthreads=nt, sleep=sl)
            obs = compute_map(env, cfg, rec)
            check_structure(ctx, env, obs)
            if obs.error is not None or not obs.records:
                ctx.check(False, "4:every schedule computes the map that the single-worker run computes",
                          {"config": asdict(cfg), "error": obs.error, "calls": len(obs.records)})
                continue
            O = _stack(obs)
            ctx.check(same_multiset(O, R), "4:multiset of returned states (with times) is bit-identical to the single-worker single-thread run",
                      lambda: {"config": asdict(cfg), **_multiset_diff(O, R)})
            ok_o, _ = pairs_of(obs.records)
            Opairs = np.array([np.concatenate([p, s]) for p, s, *_ in ok_o])
            ctx.check(same_multiset(Opairs, Rpairs), "4:multiset of predecessor->successor pairs is bit-identical to the single-worker single-thread run",
                      lambda: {"config": asdict(cfg), **_multiset_diff(Opairs, Rpairs)})
            oh = hashlib.sha1(np.ascontiguousarray(obs.states).tobytes()).hexdigest()
            orders.add(oh)
            if oh != ref_order:
                ctx.count("4:schedules whose returned row order differs from the single-worker run")
            stats["schedules"].add((nw, nt, sl))
            stats["max_python_threads"] = max(stats["max_python_threads"], len({r.thread for r in obs.records}))
            stats["numba_threads_seen"].update(r.nthreads_seen for r in obs.records)
            stats["chunks"].add(sum(1 for r in obs.records if r.iteration == 0))
        stats["distinct_row_orders"] = max(stats["distinct_row_orders"], len(orders))


# ---------------------------------------------------------------------- sub-process (other threading layer)
def _worker_main(spec_path, out_path):
    import logging
    logging.disable(logging.WARNING)
    with open(spec_path) as f:
        spec = json.load(f)
    import numba
    rng = np.random.default_rng(spec.get("seed", 0))
    rec = Recorder(rng)
    rec.install()
    envs, out = {}, []
    system = None
    for d in spec["configs"]:
        cfg = Cfg(**d)
        key = (cfg.point, cfg.degree)
        if key not in envs:
            envs[key] = Env(cfg.point, cfg.degree, system=system)
            system = envs[key].system
        obs = compute_map(envs[key], cfg, rec)
        out.append({"config": d, "error": obs.error, "rows": None if obs.error else int(len(obs.states)),
                    "hash": None if obs.error else multiset_hash(_stack(obs)), "calls": len(obs.records),
                    "numba_threads_seen": sorted({r.nthreads_seen for r in obs.records})})
    try:
        layer = numba.threading_layer()
    except Exception as e:
        layer = f"unknown ({e})"
    with open(out_path, "w") as f:
        json.dump({"layer": layer, "results": out}, f)


MECH_WQ = "cm-map-concurrent-kernel-launch-aborts-process-under-workqueue"


def _layer_subprocess(ctx, cfgs, layer, timeout):
    """Run the configurations in a fresh interpreter with NUMBA_THREADING_LAYER=<layer>; (status, output tail, results)."""
    import shutil
    import tempfile
    tmp = tempfile.mkdtemp(prefix="hmon_c14_", dir=os.environ.get("HITEN_SCRATCH") or None)
    spec, outp = os.path.join(tmp, "spec.json"), os.path.join(tmp, "out.json")
    with open(spec, "w") as f:
        json.dump({"seed": ctx.seed, "configs": [asdict(c) for c in cfgs]}, f)
    env = dict(os.environ)
    env["NUMBA_THREADING_LAYER"] = layer
    try:
        cp = subprocess.run([sys.executable, "-m", "hmon.monitors.c14", "--worker", spec, outp], env=env, timeout=timeout,
                            stdout=subprocess.PIPE, stderr=subprocess.STDOUT, text=True)
        res = None
        if cp.returncode == 0 and os.path.exists(outp):
            with open(outp) as f:
                res = json.load(f)
        return cp.returncode, cp.stdout or "", res
    except subprocess.TimeoutExpired:
        raise Inconclusive(f"{layer} sub-process timed out")
    finally:
        shutil.rmtree(tmp, ignore_errors=True)


def layer_monitor(ctx, envs, rec, bases, layer="workqueue", timeout=1500):
    """Clause 4 across threading layers: the same configurations in sub-processes with NUMBA_THREADING_LAYER=<layer>.

    Group A uses one worker (no concurrent kernel launches) over numba thread counts; group B uses several workers."""
    own = {}

    def own_hash(c):
        k = json.dumps(c.physics_key(), sort_keys=True)
        if k not in own:
            o = compute_map(envs[(c.point, c.degree)], c.with_(n_workers=1, nthreads=1, sleep=False), rec)
            own[k] = None if (o.error or not o.records) else (multiset_hash(_stack(o)), len(o.states))
        return own[k]

    def compare(cfgs, res, tag):
        if res["layer"] != layer:
            raise Inconclusive(f"sub-process ran threading layer {res['layer']!r}, not {layer!r}")
        ctx.count(f"W:sub-process {layer} completed")
        for c, r in zip(cfgs, res["results"]):
            mine = own_hash(c)
            if mine is None or r["error"] is not None or not r["calls"]:
                ctx.skip("layer comparison without data")
                continue
            ctx.case(f"layer:{layer}:{tag}", [asdict(c)], nontrivial=True)
            ctx.check(r["hash"] == mine[0], f"4:multiset of returned states bit-identical under the {layer} threading layer (sub-process)",
                      {"config": asdict(c), "rows": [r["rows"], mine[1]], "hash": [r["hash"], mine[0]]})

    A = [b.with_(n_workers=1, nthreads=nt, sleep=False) for b in bases for nt in THREADS]
    rc, out, res = _layer_subprocess(ctx, A, layer, timeout)
    if res is None:
        raise Inconclusive(f"{layer} sub-process (one worker) failed with status {rc}: {out[-300:]}")
    compare(A, res, "one-worker")
    B = [bases[0].with_(n_workers=nw, nthreads=nt, sleep=sl) for (nw, nt, sl) in ((2, 1, False), (3, 4, True), (16, 16, True))]
    rc, out, res = _layer_subprocess(ctx, B, layer, timeout)
    msg = [ln for ln in out.splitlines() if "oncurrent access" in ln or "terminating" in ln]
    aborted = rc in (-6, 134) and any("Concurrent access has been detected" in ln for ln in msg)
    ctx.case(f"layer:{layer}:workers>=2", [asdict(c) for c in B], nontrivial=True)
    ctx.check(res is not None, f"4:the map is computed for n_workers >= 2 under the {layer} threading layer (sub-process does not abort)",
              {"exit_status": rc, "message": msg[:3] or out[-300:], "configs": [asdict(c) for c in B],
               "one_worker_runs_completed": len(A)}, MECH_WQ if (aborted and layer == "workqueue") else None)
    if res is not None:
        compare(B, res, "workers>=2")


# ====================================================================== oracle self-checks
def oracle_selfcheck(ctx, env):
    red = env.red
    ctx.check(red.hyperbolic_terms == 0 and red.max_imag <= 1e-12,
              "O:the centre-manifold Hamiltonian is real and independent of (q1, p1) (the reduced flow is the full flow at q1=p1=0)",
              {"terms_with_q1_p1": red.hyperbolic_terms, "max_imag": red.max_imag})
    dev = red.selfcheck(ctx.rng, n=8, amp=0.6)
    ctx.stat("harness: vectorised H / J grad H vs polyutil", dev)
    if dev > 1e-11:
        raise Inconclusive(f"harness evaluation of H_cm deviates from polyutil by {dev:.2e}")
    # the crossing finder on a flow with known returns: harmonic part only
    quad = ReducedH.__new__(ReducedH)
    quad.__dict__.update(red.__dict__)
    keep = red.E.sum(axis=1) == 2
    quad.E, quad.C, quad.Em1, quad.Ef = red.E[keep], red.C[keep], red.Em1[keep], red.Ef[keep]
    w2, w3 = 2 * quad.C[np.argmax(quad.E[:, 0] == 2)], 2 * quad.C[np.argmax(quad.E[:, 2] == 2)]
    x0 = np.array([0.0, 0.3, 0.1, 0.2])
    cr, _ = reference_crossings(quad, "q2", x0, 2.2 * 2 * np.pi / w2, 0.01)
    expect = [np.pi / w2 * k for k in (1, 2, 3, 4)]
    good = len(cr) == 4 and max(abs(c.t - e) for c, e in zip(cr, expect)) < 1e-9 and all((c.gmin > 0) == (k % 2 == 1) for k, c in enumerate(cr))
    ctx.check(good, "O:crossing finder reproduces the returns of the harmonic part (times k*pi/omega, alternating direction)",
              {"found": [c.t for c in cr], "expected": expect})


# ====================================================================== entry points
def _build_envs(ctx, points):
    envs, system = {}, None
    for (p, d) in points:
        e = Env(p, d, system=system)
        system = e.system
        envs[(p, d)] = e
        ctx.note(f"build_s[{p}/{d}]", round(e.build_s, 1))
        guarded(ctx, f"oracle[{p}/{d}]", oracle_selfcheck, ctx, e)
    return envs


def replay(ctx, w):
    wt = w.get("witness") or {}
    if "config" not in wt:
        return run(ctx)
    import logging
    logging.disable(logging.WARNING)
    cfg = Cfg(**wt["config"])
    envs = _build_envs(ctx, [(cfg.point, cfg.degree)])
    rec = Recorder(ctx.rng)
    rec.install()
    try:
        if isinstance(wt.get("dt"), list) and len(wt["dt"]) >= 2:       # witness of the dt-halving clause
            guarded(ctx, "replay", shrink_monitor, ctx, envs, rec, [(cfg, tuple(float(d) for d in wt["dt"]))], 3)
        else:
            obs = compute_map(envs[(cfg.point, cfg.degree)], cfg, rec, axes=tuple(wt["axes"]) if wt.get("axes") else ("q2", "p3"))
            guarded(ctx, "replay", check_map, ctx, envs[(cfg.point, cfg.degree)], obs, 20, 4)
    finally:
        rec.uninstall()


def run(ctx):
    import numba
    ctx.note("rule", "case = one CenterManifoldMap.compute on fresh objects (point/degree, energy, section, seeding strategy, scheme, "
                     "dt, n_iter, n_workers, numba threads, sleep injection); distinct by that tuple; non-trivial = at least 4 "
                     "predecessor->successor pairs recorded at the back end")
    ctx.note("assumptions", [
        "CPython, numpy, scipy and the harness helpers (polyutil.unpack / eval_dict / ham_field) are trusted",
        "the library's packed coefficient blocks of the centre-manifold Hamiltonian are taken as the definition of H_cm (C07-C09 own their correctness)",
        "admissibility of a crossing is three valued over [t_c, t_c+dt] (the implementation tests the documented criterion at the step end); "
        "ambiguous crossings, crossings closer than 2 dt to another one or to the start, and near-tangent crossings are never flagged",
        "a refusal to compute (exception) and the number/placement of seeds are not decided by the property text",
        "verdict covers only the executions observed in this run"])
    q = ctx.quick
    points = [("L1", 6)] if q else [("L1", 6), ("L2", 6), ("L1", 4)]
    envs = _build_envs(ctx, points)
    rec = Recorder(ctx.rng)
    rec.install()
    stats = {"schedules": set(), "max_python_threads": 0, "numba_threads_seen": set(), "chunks": set(), "distinct_row_orders": 0}
    try:
        if q:
            cfgs = sweep_configs(ctx, points, 16, symp_orders=(4,), dts=[0.02, 0.01, 0.005], dt_weights=[0.5, 0.4, 0.1], max_iter=6)
            n_ref = 6
        else:
            cfgs = sweep_configs(ctx, points, 120, symp_orders=(4, 6), dts=[0.02, 0.01, 0.005], dt_weights=[0.35, 0.4, 0.25], max_iter=20)
            n_ref = 14
        guarded(ctx, "sweep", main_sweep, ctx, envs, rec, cfgs, n_ref)

        b = Cfg(point="L1", degree=6, n_iter=3)
        if q:
            shr = [(b.with_(section="q3", strategy="radial", energy=0.7, method="fixed", order=4), (0.02, 0.01, 0.005)),
                   (b.with_(section="p2", strategy="level_sets", energy=0.4, method="fixed", order=6), (0.02, 0.01)),
                   (b.with_(section="q2", strategy="axis_aligned", energy=0.5, method="symplectic", order=4, n_iter=2), (0.02, 0.01)),
                   (b.with_(section="q2", strategy="axis_aligned", energy=0.6, method="symplectic", order=6, n_iter=1), (0.01, 0.005))]
        else:
            shr = []
            for (p, d) in points[:2]:
                for sec in SECTIONS:
                    for (m, o) in RK_SCHEMES + (("symplectic", 4), ("symplectic", 6)):
                        h = {"L1": 0.7, "L2": 0.4}[p]
                        shr.append((Cfg(point=p, degree=d, section=sec, strategy=STRATEGIES[(len(shr)) % 4], energy=h, method=m, order=o,
                                        n_iter=3), (0.02, 0.01, 0.005)))
        guarded(ctx, "shrink", shrink_monitor, ctx, envs, rec, shr, 3 if q else 6)

        if q:
            bases = [b.with_(section="q3", strategy="level_sets", energy=0.8, method="fixed", order=4, dt=0.02, n_iter=4),
                     b.with_(section="p2", strategy="radial", energy=0.5, method="fixed", order=8, dt=0.02, n_iter=5)]
            schedules = [(2, 16, True), (3, 4, False), (5, 16, True), (8, 1, True), (16, 16, False), (16, 4, True), (5, 1, False), (2, 4, True)]
        else:
            bases = [Cfg(point=p, degree=d, section=sec, strategy=st, energy=h, method=m, order=o, dt=dt, n_iter=ni)
                     for (p, d, sec, st, h, m, o, dt, ni) in (
                         ("L1", 6, "q3", "level_sets", 0.8, "fixed", 4, 0.01, 6), ("L1", 6, "p2", "radial", 0.5, "fixed", 8, 0.02, 8),
                         ("L1", 6, "q2", "axis_aligned", 1.0, "fixed", 6, 0.02, 5), ("L1", 6, "p3", "single", 0.3, "symplectic", 4, 0.02, 3),
                         ("L2", 6, "q3", "radial", 0.5, "fixed", 4, 0.02, 5), ("L2", 6, "q2", "level_sets", 0.3, "symplectic", 6, 0.02, 2),
                         ("L1", 4, "p3", "axis_aligned", 0.6, "fixed", 8, 0.01, 4))]
            schedules = [(nw, nt, sl) for nw in WORKERS for nt in THREADS for sl in (False, True)]
        guarded(ctx, "schedules", schedule_monitor, ctx, envs, rec, bases, schedules, stats)
        if not q and ctx.shard == 0:
            guarded(ctx, "layer", layer_monitor, ctx, envs, rec, bases[:3])
            ctx.require("W:sub-process workqueue completed", 1)
    finally:
        rec.uninstall()
    try:
        layer = numba.threading_layer()
    except Exception:
        layer = "unknown"
    ctx.note("coverage_extra", {"schedules_seen": len(stats["schedules"]), "max_python_threads_in_one_map": stats["max_python_threads"],
                                "numba_thread_counts_seen_in_workers": sorted(stats["numba_threads_seen"]),
                                "chunk_counts_seen": sorted(stats["chunks"]), "distinct_row_orders_for_one_map": stats["distinct_row_orders"],
                                "threading_layer": layer, "NUMBA_NUM_THREADS": int(numba.config.NUMBA_NUM_THREADS)})
    one = ctx.nshards == 1
    ctx.require("back-end invocations", 20 if one else 2)
    ctx.require("1:section coordinate of every returned state is exactly 0", 12 if one else 2)
    ctx.require("1:points are the columns of states named by labels", 12 if one else 2)
    ctx.require("2:|H_cm(state) - h0| within the calibrated integration accuracy K_E dt^p of the scheme", 12 if one else 2)
    ctx.require("3:successor coincides with a zero crossing of the section coordinate on the reduced flow from its predecessor", 60 if one else 5)
    ctx.require("3:accepted crossing is admissible [q-section]", 10 if one else 1)
    if one:
        ctx.require("2:energy error shrinks when dt is halved [rk]", 2)
        ctx.require("4:multiset of returned states (with times) is bit-identical to the single-worker single-thread run", 12)
        ctx.require("4:schedules whose returned row order differs from the single-worker run", 2)


if __name__ == "__main__":
    if len(sys.argv) == 4 and sys.argv[1] == "--worker":
        _worker_main(sys.argv[2], sys.argv[3])
    else:
        print("usage: python -m hmon.monitors.c14 --worker SPEC OUT")
