"""C08 — the Lie-series normal form removes the right terms by a canonical transformation.

Events: HamiltonianPipeline(point, N).get_hamiltonian('complex_modal'|'complex_partial_normal'|'complex_full_normal'),
get_generating_functions('partial'|'full'), get_lie_expansions(inverse=...); and the routines _lie_transform (partial and full)
fed with synthetic Hamiltonians (prescribed quadratic part through a fake point exposing linear_modes, random higher-order terms).
Oracle: exact sparse polynomial algebra (refpoly) for brackets and truncated composition; independent evaluation of the series.
"""
from __future__ import annotations

import numpy as np

from ..core import guarded
from .. import polyutil as pu
from ..oracles import refpoly as rp

J6 = np.block([[np.zeros((3, 3)), np.eye(3)], [-np.eye(3), np.zeros((3, 3))]])


def to_dict(blocks):
    return pu.unpack([np.asarray(b) for b in blocks])


def series_eval(exps, z):
    return np.array([pu.eval_dict(e, z) for e in exps])


def series_jac(exps, z):
    return np.array([pu.grad_dict(e, z) for e in exps])


def resonance_denominator(k, eta):
    return (k[3] - k[0]) * eta[0] + (k[4] - k[1]) * eta[1] + (k[5] - k[2]) * eta[2]


def finest_rate(e, floor):
    """Asymptotic decay exponent from the finest pair of radii whose errors are both well above the rounding floor (coarser pairs
    are pre-asymptotic when the generating function is large, e.g. small divisors in the full normal form)."""
    rate = None
    for i in range(len(e) - 1):
        if e[i] > 1e3 * floor and e[i + 1] > 30 * floor and e[i] < 1e-2:
            rate = float(np.log2(e[i] / e[i + 1]))
    return rate


def check_transform(ctx, label, N, eta, H_old, H_new, G, elim, fw, inv, kind, rng, n_dirs, exact_composition=True):
    """All C08 clauses for one transformed Hamiltonian.  Everything is given as {exponents: coeff} dictionaries."""
    cmax = max((abs(v) for k, v in H_new.items() if sum(k) >= 2), default=1.0)

    def wit():
        return {"case": label, "N": N, "kind": kind, "eta": eta}
    # (1) structure
    worst = 0.0
    worst_k = None
    for k, v in H_new.items():
        d = sum(k)
        if d < 3 or d > N:
            continue
        if kind == "partial":
            forbidden = k[0] != k[3]
        else:
            den = abs(resonance_denominator(k, eta))
            if 1e-14 <= den < 1e-6:
                ctx.skip("near-resonant monomial: outcome not judged")
                continue
            forbidden = den >= 1e-6
        if forbidden and abs(v) > worst:
            worst, worst_k = abs(v), k
    ctx.stat(f"forbidden_coeff/max[{kind}]", worst / cmax)
    ctx.check(worst <= 1e-9 * cmax, f"1:no forbidden monomial of degree 3..N survives[{kind}]", lambda: {**wit(), "monomial": worst_k, "coeff": worst, "max_coeff": cmax})
    h2_old = {k: v for k, v in H_old.items() if sum(k) == 2}
    h2_new = {k: v for k, v in H_new.items() if sum(k) == 2}
    d2 = max((abs(h2_old.get(k, 0) - h2_new.get(k, 0)) for k in set(h2_old) | set(h2_new)), default=0.0)
    ctx.check(d2 <= 1e-12 * (1 + max(abs(v) for v in h2_old.values())), f"1:degree-2 block unchanged[{kind}]", lambda: {**wit(), "diff": d2})
    ctx.check(all(sum(k) <= N for k in H_new), f"1:result truncated at degree N[{kind}]", wit)
    # (2) homological identity {H2, G_n} + elim_n = 0
    if G is not None and elim is not None:
        for n in range(3, N + 1):
            Gn = {k: v for k, v in G.items() if sum(k) == n}
            En = {k: v for k, v in elim.items() if sum(k) == n}
            if not Gn and not En:
                continue
            br = rp.as_complex(rp.poisson(h2_old, Gn))
            res = rp.add(br, En)
            r = max((abs(complex(v)) for v in res.values()), default=0.0)
            sc = max([abs(v) for v in En.values()] + [1e-300])
            ctx.stat(f"homological_residual/scale[{kind}]", r / sc)
            ctx.check(r <= 1e-10 * sc + 1e-14, f"2:homological identity {{H2,G_n}} + elim_n == 0[{kind}]", lambda: {**wit(), "n": n, "residual": r, "scale": sc})
    # (3)-(5) on complex points
    if fw is None:
        return
    e3, e4, e5 = [], [], []
    radii = [0.2, 0.1, 0.05, 0.025, 0.0125]
    for _ in range(n_dirs):
        d = rng.normal(size=6) + 1j * rng.normal(size=6)
        d /= np.linalg.norm(d)
        a3, a4, a5 = [], [], []
        for r in radii:
            z = r * d
            w = series_eval(fw, z)
            a3.append(abs(pu.eval_dict(H_new, z) - pu.eval_dict(H_old, w)))
            if inv is not None:
                a4.append(np.abs(series_eval(inv, w) - z).max())
            D = series_jac(fw, z)
            a5.append(np.abs(D.T @ J6 @ D - J6).max())
        e3.append(a3)
        e4.append(a4)
        e5.append(a5)
    ctx.case(f"points:{kind}", [label, N, kind, int(rng.integers(1 << 30))], nontrivial=True)
    e3 = np.array(e3).max(axis=0)
    e5 = np.array(e5).max(axis=0)
    hs = sum(abs(v) * 0.2 ** sum(k) for k, v in H_old.items())
    for name, e, expo, floor in (("3:H_new == H_old o Phi_fw up to O(|z|^(N+1))", e3, N + 1, 1e-13 * (1 + hs)),
                                 ("5:Phi_fw is canonical to the same order", e5, N, 1e-12)):
        ctx.note(f"errors[{label}:{kind}:{name[:1]}]", [float(v) for v in e])
        rate = finest_rate(e, floor)
        if rate is not None:
            ctx.stat(f"order_deficit[{name[:1]}:{kind}]", expo - rate)
            ctx.check(rate >= expo - 0.6, f"{name}[{kind}]", lambda: {**wit(), "errors": e.tolist(), "radii": radii, "rate": rate, "expected": expo})
            ctx.count(f"{name[:1]}:conclusive rate")
        else:
            # below the floor everywhere: the identity holds to rounding at these radii
            ctx.check(e[0] <= 1e3 * floor * 10 or e[-1] <= 10 * floor, f"{name}[{kind}]", lambda: {**wit(), "errors": e.tolist()})
    if inv is not None:
        e4 = np.array(e4).max(axis=0)
        rate = finest_rate(e4, 1e-14)
        if rate is not None:
            ctx.stat(f"order_deficit[4:{kind}]", (N + 1) - rate)
            ctx.check(rate >= N + 1 - 0.6, f"4:Phi_inv o Phi_fw == id up to O(|z|^(N+1))[{kind}]", lambda: {**wit(), "errors": e4.tolist(), "rate": rate})
            ctx.count("4:conclusive rate")
        else:
            ctx.check(e4[-1] <= 1e-12, f"4:Phi_inv o Phi_fw == id up to O(|z|^(N+1))[{kind}]", lambda: {**wit(), "errors": e4.tolist()})
    # (6) exact truncated composition
    if exact_composition and N <= 5:
        comp = rp.as_complex(rp.compose(rp.as_complex(H_old), [rp.as_complex(e) for e in fw], max_deg=N))
        diff = rp.sub(comp, rp.as_complex(H_new))
        r = max((abs(complex(v)) for k, v in diff.items() if 2 <= sum(k) <= N), default=0.0)
        ctx.stat(f"exact_composition_residual[{kind}]", r / cmax)
        ctx.check(r <= 1e-9 * cmax, f"6:H_old o Phi_fw truncated at N == H_new coefficient-wise[{kind}]", lambda: {**wit(), "residual": r})


def pipeline_cases(ctx, specs):
    from hiten import System
    from hiten.algorithms.hamiltonian.pipeline import HamiltonianPipeline
    from hiten.algorithms.hamiltonian.center._lie import _lie_expansion
    rng = ctx.rng
    systems = {}
    for k, (name, L, N) in enumerate(specs):
        if not ctx.mine(k):
            continue

        def one():
            sysm = systems.setdefault(name, System.from_mu(float(name[3:])) if name.startswith("mu=") else System.from_bodies(*name.split("-")))
            pt = sysm.get_libration_point(L)
            lam, om1, om2 = pt.linear_modes
            eta = np.array([lam, 1j * om1, 1j * om2])
            # non-resonance of (om1, om2) to order N
            res = min(abs(a * om1 - b * om2) for a in range(0, N + 1) for b in range(0, N + 1) if 0 < a + b <= N and (a, b) != (0, 0) and a * b > 0)
            if res < 1e-4:
                ctx.skip("frequencies resonant to order N at this mass ratio")
                return
            pipe = HamiltonianPipeline(pt, N)
            label = f"{name}:L{L}:N{N}"
            ctx.case("pipeline", [name, L, N], nontrivial=True)
            H_old = to_dict(pipe.get_hamiltonian("complex_modal").poly_H)
            H_pn = to_dict(pipe.get_hamiltonian("complex_partial_normal").poly_H)
            Gp = pipe.get_generating_functions("partial")
            G, elim = to_dict(Gp.poly_G), to_dict(Gp.poly_elim)
            fw = [to_dict(e) for e in pipe.get_lie_expansions(inverse=False)]
            inv = [to_dict(e) for e in pipe.get_lie_expansions(inverse=True)]
            ctx.sample({"case": label, "lambda": lam, "omega1": om1, "omega2": om2, "n_terms_H": len(H_old), "n_terms_G": len(G)})
            check_transform(ctx, label, N, eta, H_old, H_pn, G, elim, fw, inv, "partial", rng, ctx.pick(4, 12))
            # history: the series must be repeatable — asking for the inverse must not change what a later request for the forward
            # series returns (and vice versa); order of requests so far: forward, inverse
            fw2 = [to_dict(e) for e in pipe.get_lie_expansions(inverse=False)]
            inv2 = [to_dict(e) for e in pipe.get_lie_expansions(inverse=True)]
            fw3 = [to_dict(e) for e in pipe.get_lie_expansions(inverse=False)]

            def sdiff(A, B):
                return max(max((abs(a.get(k_, 0) - b.get(k_, 0)) for k_ in set(a) | set(b)), default=0.0) for a, b in zip(A, B))
            ctx.check(sdiff(fw, fw2) <= 1e-13 and sdiff(fw, fw3) <= 1e-13 and sdiff(inv, inv2) <= 1e-13,
                      "4:coordinate series are repeatable across forward/inverse requests (no hidden state)",
                      {"case": label, "fw_vs_fw_after_inverse": sdiff(fw, fw2), "fw_vs_third_request": sdiff(fw, fw3), "inv_vs_second_inverse": sdiff(inv, inv2)})
            Gp2 = to_dict(pipe.get_generating_functions("partial").poly_G)
            ctx.check(max((abs(G.get(k_, 0) - Gp2.get(k_, 0)) for k_ in set(G) | set(Gp2)), default=0.0) <= 1e-14,
                      "4:generating functions unchanged by building coordinate series", {"case": label})
            # swapping forward and inverse must be visible (guards the oracle itself): composing with the inverse series gives O(r^3)
            z = 0.1 * (rng.normal(size=6) + 1j * rng.normal(size=6)) / 2
            wrong = abs(pu.eval_dict(H_pn, z) - pu.eval_dict(H_old, series_eval(inv, z)))
            right = abs(pu.eval_dict(H_pn, z) - pu.eval_dict(H_old, series_eval(fw, z)))
            ctx.note(f"fw_vs_inv_discrimination[{label}]", [float(right), float(wrong)])
            # full normal form
            H_fn = to_dict(pipe.get_hamiltonian("complex_full_normal").poly_H)
            Gf = pipe.get_generating_functions("full")
            Gfd, elimf = to_dict(Gf.poly_G), to_dict(Gf.poly_elim)
            fwf = [to_dict(e) for e in _lie_expansion(Gf.poly_G, Gf.degree, Gf.dynamics.psi, Gf.dynamics.clmo, 1e-16, inverse=False, sign=1, restrict=False)]
            invf = [to_dict(e) for e in _lie_expansion(Gf.poly_G, Gf.degree, Gf.dynamics.psi, Gf.dynamics.clmo, 1e-16, inverse=True, sign=-1, restrict=False)]
            check_transform(ctx, label, N, eta, H_old, H_fn, Gfd, elimf, fwf, invf, "full", rng, ctx.pick(3, 10))
        guarded(ctx, f"pipeline {name} L{L} N{N}", one)


class FakePoint:
    def __init__(self, lam, om1, om2):
        self.linear_modes = (lam, om1, om2)


def synthetic_cases(ctx, n):
    from hiten.algorithms.hamiltonian.center._lie import _lie_expansion, _lie_transform as lie_partial
    from hiten.algorithms.hamiltonian.normal._lie import _lie_transform as lie_full
    rng = ctx.rng
    for it in range(n):
        if not ctx.mine(it):
            continue

        def one():
            N = int(rng.integers(3, 6))
            kind = ["dense", "gappy", "normal-form-first"][it % 3]
            if kind != "dense" and N < 5:
                N = int(rng.integers(5, 7))
            lam = float(rng.uniform(1.5, 3.5))
            om1 = float(rng.uniform(1.2, 2.6))
            om2 = float(om1 * rng.uniform(0.55, 0.9) + 0.0137)
            res = min(abs(a * om1 - b * om2) for a in range(1, N + 1) for b in range(1, N + 1) if a + b <= N)
            if res < 5e-3:
                ctx.skip("synthetic frequencies too close to a resonance")
                return
            eta = np.array([lam, 1j * om1, 1j * om2])
            H = {(1, 0, 0, 1, 0, 0): lam, (0, 1, 0, 0, 1, 0): 1j * om1, (0, 0, 1, 0, 0, 1): 1j * om2}
            # structure of the perturbation: dense (every degree populated), gappy (some degrees — always the lowest — empty, e.g. an
            # even Hamiltonian or one that starts at degree 5), or low degrees already in normal form (only k_q1 == k_p1 terms there):
            # the degree loop of the normalisation must go on past a degree that has nothing to remove
            degs = list(range(3, N + 1))
            if kind == "gappy":
                keep = [d for d in degs[1:] if rng.random() < 0.6] or [N]
                degs = keep
            ctx.count(f"synthetic Hamiltonians of kind {kind}")
            for _ in range(int(rng.integers(6, 30))):
                d = int(degs[int(rng.integers(len(degs)))])
                k = [0] * 6
                for v in rng.integers(0, 6, size=d):
                    k[int(v)] += 1
                if kind == "normal-form-first" and d <= 4 and k[0] != k[3]:
                    m = min(k[0], k[3])          # move the surplus hyperbolic exponents to the centre variables: nothing to remove here
                    extra = k[0] + k[3] - 2 * m
                    k[0] = k[3] = m
                    k[1] += extra
                H[tuple(k)] = H.get(tuple(k), 0) + (rng.normal() + 1j * rng.normal()) * 0.5
            psi, clmo, enc = pu.tables(N)
            blocks = pu.pack(H, N)
            label = f"synthetic#{it}:N{N}"
            ctx.case("synthetic", [it, ctx.seed, N], nontrivial=True)
            if it < 2:
                ctx.sample({"case": label, "lambda": lam, "omega1": om1, "omega2": om2, "n_terms": len(H)})
            pt = FakePoint(lam, om1, om2)
            new, G, elim = lie_partial(pt, [b.copy() for b in blocks], psi, clmo, N, tol=1e-30)
            fw = [to_dict(e) for e in _lie_expansion(G, N, psi, clmo, 1e-30, inverse=False, sign=1, restrict=False)]
            inv = [to_dict(e) for e in _lie_expansion(G, N, psi, clmo, 1e-30, inverse=True, sign=-1, restrict=False)]
            check_transform(ctx, label, N, eta, H, to_dict(new), to_dict(G), to_dict(elim), fw, inv, "partial", rng, 3)
            try:
                newf, Gf, elimf = lie_full(pt, [b.copy() for b in blocks], psi, clmo, N, tol=1e-30, resonance_tol=1e-14)
            except TypeError:
                newf, Gf, elimf = lie_full(pt, [b.copy() for b in blocks], psi, clmo, N)
            fwf = [to_dict(e) for e in _lie_expansion(Gf, N, psi, clmo, 1e-30, inverse=False, sign=1, restrict=False)]
            invf = [to_dict(e) for e in _lie_expansion(Gf, N, psi, clmo, 1e-30, inverse=True, sign=-1, restrict=False)]
            check_transform(ctx, label, N, eta, H, to_dict(newf), to_dict(Gf), to_dict(elimf), fwf, invf, "full", rng, 3)
        guarded(ctx, f"synthetic {it}", one)


def run(ctx):
    ctx.note("rule", "case = one pipeline (system, point, degree) or one synthetic Hamiltonian (prescribed quadratic part, random complex higher-order terms); "
                     "point cases = sets of random complex directions at radii 0.2/0.1/0.05; all non-trivial")
    q = [("earth-moon", 1, 6), ("earth-moon", 2, 5), ("mu=0.04", 1, 4), ("sun-earth", 1, 3)]
    t = q + [("earth-moon", 1, 8), ("earth-moon", 2, 8), ("mu=0.001", 1, 6), ("mu=0.001", 2, 7), ("sun-earth", 2, 6), ("mu=0.3", 1, 5), ("earth-moon", 1, 10),
             ("mu=0.04", 2, 6), ("sun-jupiter", 1, 7), ("sun-jupiter", 2, 4), ("mu=0.2", 1, 6), ("mu=0.5", 2, 5)]
    guarded(ctx, "pipeline", pipeline_cases, ctx, q if ctx.quick else t)
    guarded(ctx, "synthetic", synthetic_cases, ctx, ctx.pick(9, 120))
    one = ctx.nshards > 1
    ctx.require("1:no forbidden monomial of degree 3..N survives[partial]", 2 if one else 5)
    ctx.require("1:no forbidden monomial of degree 3..N survives[full]", 2 if one else 5)
    ctx.require("2:homological identity {H2,G_n} + elim_n == 0[partial]", 2 if one else 5)
    ctx.require("3:conclusive rate", 1 if one else 3)
    ctx.require("6:H_old o Phi_fw truncated at N == H_new coefficient-wise[partial]", 1 if one else 3)
