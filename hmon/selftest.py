"""Import self-test of the harness (run by setup.sh)."""
import importlib, sys
for m in ("hmon.core", "hmon.gen", "hmon.oracles.cr3bp"):
    importlib.import_module(m)
try:
    import icontract  # noqa
    print("icontract available")
except Exception as e:
    print("icontract unavailable:", e)
print("selftest ok")
