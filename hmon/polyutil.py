"""Helpers to build library-layout polynomials / Hamiltonian systems from {exponent-tuple: coeff} dicts."""
from __future__ import annotations

import functools

import numpy as np


@functools.lru_cache(None)
def tables(degree: int):
    from hiten.algorithms.polynomial.base import _create_encode_dict_from_clmo, _init_index_tables
    psi, clmo = _init_index_tables(degree)
    enc = _create_encode_dict_from_clmo(clmo)
    return psi, clmo, enc


def pack(H: dict, degree: int):
    """dict {(k0..k5): coeff} -> list of per-degree complex coefficient arrays in the library's layout."""
    from hiten.algorithms.polynomial.base import _encode_multiindex, _make_poly
    psi, clmo, enc = tables(degree)
    blocks = [_make_poly(d, psi) for d in range(degree + 1)]
    for k, c in H.items():
        d = int(sum(k))
        pos = int(_encode_multiindex(np.asarray(k, dtype=np.int64), d, enc))
        if pos < 0:
            raise ValueError(f"exponent {k} not encodable")
        blocks[d][pos] += c
    return blocks


def unpack(blocks, tol=0.0):
    from hiten.algorithms.polynomial.base import _decode_multiindex
    degree = len(blocks) - 1
    psi, clmo, enc = tables(degree)
    out = {}
    for d, arr in enumerate(blocks):
        for pos in np.nonzero(np.abs(arr) > tol)[0]:
            k = tuple(int(v) for v in _decode_multiindex(int(pos), d, clmo))
            out[k] = complex(arr[pos])
    return out


def hamiltonian_system(H: dict, degree: int, n_dof: int = 3, name="hmon-H"):
    from hiten.algorithms.dynamics.hamiltonian import create_hamiltonian_system
    psi, clmo, enc = tables(degree)
    return create_hamiltonian_system(pack(H, degree), degree, psi, clmo, enc, n_dof=n_dof, name=name)


def eval_dict(H: dict, x):
    x = np.asarray(x, dtype=complex)
    s = 0.0
    for k, c in H.items():
        t = c
        for xi, ki in zip(x, k):
            if ki:
                t = t * xi ** ki
        s += t
    return s


def grad_dict(H: dict, x):
    """Gradient of the polynomial dict at x (length 6)."""
    x = np.asarray(x, dtype=complex)
    g = np.zeros(6, dtype=complex)
    for k, c in H.items():
        for j in range(6):
            if k[j] == 0:
                continue
            t = c * k[j]
            for i, (xi, ki) in enumerate(zip(x, k)):
                e = ki - 1 if i == j else ki
                if e:
                    t = t * xi ** e
            g[j] += t
    return g


def ham_field(H: dict, y):
    """J grad H in the ordering (q1,q2,q3,p1,p2,p3): (dH/dp, -dH/dq)."""
    g = grad_dict(H, y).real
    return np.concatenate([g[3:], -g[:3]])


def gen_rhs_source(H: dict, name="f_gen"):
    """Independent implementation of J grad H as numba-compilable source text: f(t, y) -> (dH/dp, -dH/dq)."""
    def mono(k, c):
        parts = [repr(float(c))]
        for i, e in enumerate(k):
            if e == 1:
                parts.append(f"y[{i}]")
            elif e > 1:
                parts.append(f"y[{i}]**{e}")
        return "*".join(parts)
    grads = []
    for j in range(6):
        terms = []
        for k, c in H.items():
            if k[j] == 0:
                continue
            kk = list(k)
            kk[j] -= 1
            terms.append(mono(kk, float(np.real(c)) * k[j]))
        grads.append(" + ".join(terms) if terms else "0.0")
    lines = [f"def {name}(t, y):", "    out = np.empty(6)"]
    for i in range(3):
        lines.append(f"    out[{i}] = {grads[3 + i]}")
        lines.append(f"    out[{3 + i}] = -({grads[i]})")
    lines.append("    return out")
    return "\n".join(lines) + "\n"


def gen_rhs(H: dict, jit=True):
    import numba
    ns = {"np": np}
    exec(gen_rhs_source(H), ns)
    f = ns["f_gen"]
    return numba.njit(cache=False)(f) if jit else f
