#!/bin/bash
# Offline set-up: contract libraries beside the repository's interpreter (no network, wheelhouse only).
set -u
HERE="$(cd "$(dirname "${BASH_SOURCE[0]}")" && pwd)"
cd "$HERE"
export PIP_NO_INDEX=1
if [ ! -d .deps/icontract ]; then
  /venv/bin/pip install --quiet --no-index --find-links /opt/veriftools/wheels --target .deps icontract deal \
    || echo "setup: icontract/deal not installable; contract-based sub-monitors fall back to plain wrappers"
fi
PYTHONPATH="$HERE:$HERE/.deps" /venv/bin/python -m hmon.selftest || exit 1
echo "setup ok"
