#!/usr/bin/env python3
"""Run the owning check of every seeded change against a scratch worktree with the patch applied.

usage: tools/seeded_run.py [--only ID ...] [--tier quick]      (never touches /repo's working tree)
Writes seeded/results.json: for each seeded id the exit code and the VIOLATION / KNOWN-FINDING lines printed.
"""
import json, os, subprocess, sys, tempfile, shutil, glob, time

HERE = os.path.dirname(os.path.dirname(os.path.abspath(__file__)))
only = None
tier = "quick"
args = sys.argv[1:]
if "--tier" in args:
    tier = args[args.index("--tier") + 1]
if "--only" in args:
    only = set(a for a in args[args.index("--only") + 1:] if not a.startswith("--"))
res_path = os.path.join(HERE, "seeded", "results.json")
results = json.load(open(res_path)) if os.path.exists(res_path) else {}
for meta_path in sorted(glob.glob(os.path.join(HERE, "seeded", "*", "meta.json"))):
    sid = os.path.basename(os.path.dirname(meta_path))
    if only and sid not in only:
        continue
    meta = json.load(open(meta_path))
    patch = os.path.join(os.path.dirname(meta_path), meta.get("patch", "patch.diff"))
    wt = tempfile.mkdtemp(prefix=f"seeded_{sid}_")
    os.rmdir(wt)
    subprocess.run(["git", "-C", "/repo", "worktree", "add", "-q", "--detach", wt, "HEAD"], check=True)
    try:
        r = subprocess.run(["git", "-C", wt, "apply", patch], capture_output=True, text=True)
        if r.returncode != 0:
            results[sid] = {"error": "patch does not apply: " + r.stderr[:300]}
            continue
        out = {}
        for prop in meta.get("checks", [meta["property"]]):
            env = dict(os.environ, HITEN_SRC=os.path.join(wt, "src"), VERIF_SEED=str(meta.get("seed", 0)))
            t0 = time.time()
            p = subprocess.run([os.path.join(HERE, "check"), prop, tier], capture_output=True, text=True, env=env, timeout=7200)
            lines = [l for l in p.stdout.splitlines() if l.startswith(("VIOLATION", "KNOWN-FINDING", "INCONCLUSIVE", "HELD")) or "violated clause" in l]
            out[prop] = {"exit": p.returncode, "lines": lines[:12], "wall_s": round(time.time() - t0, 1)}
            print(sid, prop, "exit", p.returncode, "|", "; ".join(lines[:3]))
        results[sid] = {"property": meta["property"], "tier": tier, "runs": out, "detected": any(v["exit"] == 1 for v in out.values())}
    finally:
        subprocess.run(["git", "-C", "/repo", "worktree", "remove", "--force", wt])
        shutil.rmtree(wt, ignore_errors=True)
    # several streams may run side by side: re-read under a lock, update only this entry
    import fcntl
    with open(res_path + ".lock", "w") as lk:
        fcntl.flock(lk, fcntl.LOCK_EX)
        cur = json.load(open(res_path)) if os.path.exists(res_path) else {}
        if sid in results:
            cur[sid] = results[sid]
        json.dump(cur, open(res_path, "w"), indent=1, sort_keys=True)
        results = cur
print("detected", sum(1 for v in results.values() if v.get("detected")), "of", len(results))
