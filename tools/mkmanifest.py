#!/usr/bin/env python3
"""Regenerate MANIFEST.json from the table below (kept in one place so it is always schema-valid)."""
import json, os, sys
HERE = os.path.dirname(os.path.dirname(os.path.abspath(__file__)))

BASELINE_OFF = ("cd /repo && env -u HITEN_VERIF /venv/bin/python -m pytest -ra -q -p no:cacheprovider --timeout=900 "
                "--continue-on-collection-errors --junitxml=/tmp/hiten_baseline_off.junit.xml")

# id -> (technique, level category, level text, level note, design ref)
CHECKS = {}
NOT_BUILT = {}

def add(pid, technique, text, note, category="exploration", ref=None):
    CHECKS[pid] = dict(technique=technique, category=category, text=text, note=note, ref=ref or f"DESIGN.md §4 {pid}")

exec(open(os.path.join(HERE, "tools", "manifest_table.py")).read())

props = [json.loads(l)["id"] for l in open(os.path.join(HERE, "properties.jsonl"))]
checks = []
for pid in props:
    if pid not in CHECKS:
        continue
    c = CHECKS[pid]
    checks.append({
        "property_id": pid,
        "quick_cmd": f"./check {pid} quick",
        "thorough_cmd": f"./check {pid} thorough",
        "evidence_file": f"evidence/{pid}.json",
        "replay_cmd_template": f"./check {pid} --replay {{path}}",
        "engine": "hmon",
        "level_claimed": {"category": c["category"], "text": c["text"], "design_ref": c["ref"]},
        "level_note": c["note"],
        "technique": c["technique"],
    })
na = [{"property_id": pid, "reason": NOT_BUILT.get(pid, "monitor not built yet in this session; see DESIGN.md §4 for the planned runtime monitor")}
      for pid in props if pid not in CHECKS]
m = {
    "version": 1,
    "setup_cmd": "./setup.sh",
    "hooks": {
        "guard": "HITEN_VERIF",
        "enable": "harness-side interposition only (monitors wrap live objects / pass instrumented callables); ./check exports HITEN_VERIF=1; /repo carries no source hook",
        "baseline_off_cmd": BASELINE_OFF,
        "source_commits": [],
        "add_only": True,
    },
    "engines": [{"name": "hmon", "path": "hmon/", "serves_properties": sorted(CHECKS),
                 "kind_free_text": "runtime monitors + independent oracles driving the real (numba-JIT) hiten code; three-valued verdicts; known-findings classifier by mechanism"}],
    "checks": checks,
    "not_applicable": na,
    "notes": "Runtime monitoring family. VERIF_SEED seeds every generator; exit 0 held / 1 VIOLATION / 2 INCONCLUSIVE. known_findings.json lists genuine defects (fixed or recorded) by mechanism.",
}
json.dump(m, open(os.path.join(HERE, "MANIFEST.json"), "w"), indent=1)
try:
    import jsonschema
    jsonschema.validate(m, json.load(open("/root/.vp/MANIFEST.schema.json")))
    print("MANIFEST.json valid;", len(checks), "checks,", len(na), "not claimed")
except ImportError:
    print("written (jsonschema not available for validation)")
