#!/usr/bin/env python3
"""Import a sub-agent's seeded change: confirm the demonstration (passes without / fails with the patch on a fresh worktree
of /repo HEAD), then store it under seeded/<id>/ with meta.json.   usage: tools/seeded_import.py SRC_DIR ID PROPERTY [CHECKS...]"""
import json, os, shutil, subprocess, sys, tempfile
HERE = os.path.dirname(os.path.dirname(os.path.abspath(__file__)))
src, sid, prop = sys.argv[1:4]
checks = sys.argv[4:] or [prop]
wt = tempfile.mkdtemp(prefix=f"confirm_{sid}_"); os.rmdir(wt)
subprocess.run(["git", "-C", "/repo", "worktree", "add", "-q", "--detach", wt, "HEAD"], check=True)
env = dict(os.environ, PYTHONPATH=os.path.join(wt, "src"), NUMBA_NUM_THREADS="2", OMP_WAIT_POLICY="PASSIVE", MPLBACKEND="Agg")
def demo():
    demo_src = open(os.path.join(src, "demo.py")).read()
    # demos were written against the agent's own worktree path; point them at the confirmation worktree
    import re
    demo_src = re.sub(r"/tmp/sb_C\d\d", wt, demo_src)
    dpath = os.path.join(wt, "_demo.py"); open(dpath, "w").write(demo_src)
    p = subprocess.run(["/venv/bin/python", dpath], cwd=wt, env=env, capture_output=True, text=True, timeout=3600)
    return p.returncode, (p.stdout + p.stderr)[-600:]
try:
    rc0, out0 = demo()
    ap = subprocess.run(["git", "-C", wt, "apply", os.path.join(src, "patch.diff")], capture_output=True, text=True)
    if ap.returncode != 0:
        print("PATCH DOES NOT APPLY:", ap.stderr[:400]); sys.exit(2)
    rc1, out1 = demo()
    print("demo without patch: exit", rc0, "| with patch: exit", rc1)
    ok = rc0 == 0 and rc1 != 0
    if not ok:
        print("--- without:\n", out0, "\n--- with:\n", out1)
        sys.exit(3)
    dst = os.path.join(HERE, "seeded", sid); os.makedirs(dst, exist_ok=True)
    for f in ("patch.diff", "demo.py", "notes.md"):
        if os.path.exists(os.path.join(src, f)):
            shutil.copy(os.path.join(src, f), os.path.join(dst, f))
    notes = open(os.path.join(src, "notes.md")).read() if os.path.exists(os.path.join(src, "notes.md")) else ""
    json.dump({"property": prop, "checks": checks, "kind": "independent-change-by-subagent", "patch": "patch.diff", "demonstration": "demo.py",
               "needs": notes[:1500], "confirmed": {"demo_exit_without_patch": rc0, "demo_exit_with_patch": rc1, "repo_head": subprocess.run(["git", "-C", "/repo", "rev-parse", "--short", "HEAD"], capture_output=True, text=True).stdout.strip()},
               "what_i_ran": f"tools/seeded_import.py {src} {sid} {prop}; tools/seeded_run.py --only {sid}"}, open(os.path.join(dst, "meta.json"), "w"), indent=1)
    print("stored", dst)
finally:
    subprocess.run(["git", "-C", "/repo", "worktree", "remove", "--force", wt]); shutil.rmtree(wt, ignore_errors=True)
