#!/usr/bin/env python3
"""Mutation sweep: systematic sensitivity self-test of a check.

usage: tools/mutate.py ID FILE [--func REGEX] [--max N] [--seed S] [--jobs J] [--tier quick] [--checks C..] [--list]

FILE is relative to the repository's src/hiten (e.g. algorithms/dynamics/rtbp.py).  Single-site mutants of the functions whose
name matches REGEX (default: all) are generated from the file's AST (arithmetic / comparison / boolean operator swaps, unary minus
dropped, numeric constants nudged, integer subscripts shifted), each is written into a scratch worktree of /repo HEAD under a
temporary directory and the owning check is run against it (HITEN_SRC).  /repo itself is never touched.  A mutant is
  killed        the check printed VIOLATION (exit 1)
  survived      the check exited 0          -> to be triaged: equivalent / outside the property / a gap in the monitor
  inconclusive  exit 2 (the deciding monitor was not reached, e.g. the mutant does not compile)
Results are appended to seeded/_runs/mutation/<ID>.<file>.jsonl (git-ignored) and summarised on stdout.
"""
import argparse, ast, json, os, random, re, shutil, subprocess, sys, tempfile, time
from concurrent.futures import ThreadPoolExecutor

HERE = os.path.dirname(os.path.dirname(os.path.abspath(__file__)))
BIN = {ast.Add: ("+", "-"), ast.Sub: ("-", "+"), ast.Mult: ("*", "/"), ast.Div: ("/", "*")}
CMP = {ast.Lt: ("<", "<="), ast.LtE: ("<=", "<"), ast.Gt: (">", ">="), ast.GtE: (">=", ">"), ast.Eq: ("==", "!="), ast.NotEq: ("!=", "==")}


def offsets(src):
    offs, o = [0], 0
    for line in src.splitlines(keepends=True):
        o += len(line.encode("utf-8"))
        offs.append(o)
    return offs


def mutants_of(src, func_re):
    """yield (lineno, description, byte_start, byte_end, replacement) for single-site mutants"""
    tree = ast.parse(src)
    b = src.encode("utf-8")
    offs = offsets(src)
    pos = lambda ln, col: offs[ln - 1] + col
    out = []
    skip_calls = {"ValueError", "RuntimeError", "TypeError", "NotImplementedError", "warn", "debug", "info", "warning", "error", "format"}

    def visit(node, fname, skip):
        if isinstance(node, (ast.FunctionDef, ast.AsyncFunctionDef)):
            fname = node.name
            for d in node.decorator_list:
                pass
            body = node.body
            if body and isinstance(body[0], ast.Expr) and isinstance(getattr(body[0], "value", None), ast.Constant) and isinstance(body[0].value.value, str):
                body = body[1:]
            for a in body:
                visit(a, fname, skip)
            return
        if isinstance(node, ast.Call):
            f = node.func
            nm = f.attr if isinstance(f, ast.Attribute) else getattr(f, "id", "")
            if nm in skip_calls:
                return
        if isinstance(node, (ast.Raise, ast.Assert, ast.AnnAssign)) and not isinstance(node, ast.AnnAssign):
            return
        if isinstance(node, ast.AnnAssign):
            if node.value is not None:
                visit(node.value, fname, skip)
            return
        active = fname is not None and (func_re is None or re.search(func_re, fname))
        if active:
            if isinstance(node, ast.BinOp) and type(node.op) in BIN:
                old, new = BIN[type(node.op)]
                s, e = pos(node.left.end_lineno, node.left.end_col_offset), pos(node.right.lineno, node.right.col_offset)
                seg = b[s:e].decode()
                k = seg.find(old)
                if k >= 0 and not (old == "*" and seg[k:k + 2] == "**") and not (old == "/" and seg[k:k + 2] == "//"):
                    out.append((node.lineno, f"{fname}: binop {old} -> {new}", s + k, s + k + len(old), new))
            elif isinstance(node, ast.Compare) and len(node.ops) == 1 and type(node.ops[0]) in CMP:
                old, new = CMP[type(node.ops[0])]
                s, e = pos(node.left.end_lineno, node.left.end_col_offset), pos(node.comparators[0].lineno, node.comparators[0].col_offset)
                seg = b[s:e].decode()
                k = seg.find(old)
                if k >= 0:
                    out.append((node.lineno, f"{fname}: compare {old} -> {new}", s + k, s + k + len(old), new))
            elif isinstance(node, ast.BoolOp):
                old, new = ("and", "or") if isinstance(node.op, ast.And) else ("or", "and")
                s, e = pos(node.values[0].end_lineno, node.values[0].end_col_offset), pos(node.values[1].lineno, node.values[1].col_offset)
                seg = b[s:e].decode()
                m = re.search(rf"\b{old}\b", seg)
                if m:
                    out.append((node.lineno, f"{fname}: bool {old} -> {new}", s + m.start(), s + m.end(), new))
            elif isinstance(node, ast.UnaryOp) and isinstance(node.op, ast.USub) and not isinstance(node.operand, ast.Constant):
                s = pos(node.lineno, node.col_offset)
                if b[s:s + 1] == b"-":
                    out.append((node.lineno, f"{fname}: drop unary minus", s, s + 1, ""))
            elif isinstance(node, ast.UnaryOp) and isinstance(node.op, ast.Not):
                s = pos(node.lineno, node.col_offset)
                if b[s:s + 4] == b"not ":
                    out.append((node.lineno, f"{fname}: drop not", s, s + 4, ""))
            elif isinstance(node, ast.Constant) and isinstance(node.value, (int, float)) and not isinstance(node.value, bool):
                s, e = pos(node.lineno, node.col_offset), pos(node.end_lineno, node.end_col_offset)
                txt = b[s:e].decode()
                v = node.value
                if isinstance(v, int):
                    out.append((node.lineno, f"{fname}: int {txt} -> {v + 1}", s, e, str(v + 1)))
                    if v >= 1:
                        out.append((node.lineno, f"{fname}: int {txt} -> {v - 1}", s, e, str(v - 1)))
                elif v == 0.0:
                    out.append((node.lineno, f"{fname}: float {txt} -> 0.5", s, e, "0.5"))
                else:
                    out.append((node.lineno, f"{fname}: float {txt} -> *(1+1e-6)", s, e, f"({txt}*(1+1e-6))"))
                    out.append((node.lineno, f"{fname}: float {txt} -> *2", s, e, f"({txt}*2.0)"))
        for c in ast.iter_child_nodes(node):
            visit(c, fname, skip)

    for n in tree.body:
        if isinstance(n, ast.ClassDef):
            for m in n.body:
                visit(m, None, False)
        else:
            visit(n, None, False)
    # de-duplicate by (start, end, replacement)
    seen, res = set(), []
    for m in out:
        k = (m[2], m[3], m[4])
        if k not in seen:
            seen.add(k)
            res.append(m)
    return res


def main():
    ap = argparse.ArgumentParser()
    ap.add_argument("prop")
    ap.add_argument("file")
    ap.add_argument("--func", default=None)
    ap.add_argument("--max", type=int, default=40)
    ap.add_argument("--seed", type=int, default=0)
    ap.add_argument("--jobs", type=int, default=3)
    ap.add_argument("--tier", default="quick")
    ap.add_argument("--checks", nargs="*", default=None)
    ap.add_argument("--lines", default=None, help="a-b: only mutants on these source lines")
    ap.add_argument("--list", action="store_true")
    a = ap.parse_args()
    rel = os.path.join("src", "hiten", a.file)
    src = open(os.path.join("/repo", rel)).read()
    muts = mutants_of(src, a.func)
    if a.lines:
        lo, hi = map(int, a.lines.split("-"))
        muts = [m for m in muts if lo <= m[0] <= hi]
    random.Random(a.seed).shuffle(muts)
    muts = sorted(muts[:a.max])
    print(f"{len(muts)} mutants selected in {a.file} (func={a.func})")
    if a.list:
        for m in muts:
            print(m[0], m[1])
        return
    checks = a.checks or [a.prop]
    outdir = os.path.join(HERE, "seeded", "_runs", "mutation")
    os.makedirs(outdir, exist_ok=True)
    outfile = os.path.join(outdir, f"{a.prop}.{a.file.replace('/', '_')}.jsonl")
    root = tempfile.mkdtemp(prefix="hmut_")
    wts = []
    for j in range(a.jobs):
        wt = os.path.join(root, f"wt{j}")
        subprocess.run(["git", "-C", "/repo", "worktree", "add", "-q", "--detach", wt, "HEAD"], check=True)
        wts.append(wt)
    free = list(wts)
    bsrc = src.encode("utf-8")
    results = []

    def job(m):
        wt = free.pop()
        try:
            ln, desc, s, e, new = m
            msrc = bsrc[:s] + new.encode() + bsrc[e:]
            try:
                ast.parse(msrc.decode())
            except SyntaxError:
                return None
            with open(os.path.join(wt, rel), "wb") as f:
                f.write(msrc)
            rec = {"prop": a.prop, "file": a.file, "line": ln, "mutant": desc, "source_line": src.splitlines()[ln - 1].strip()[:160], "runs": {}}
            for c in checks:
                env = dict(os.environ, HITEN_SRC=os.path.join(wt, "src"), HITEN_EVIDENCE_DIR=os.path.join(wt, "_ev"), HITEN_REPLAY_DIR=os.path.join(wt, "_rp"),
                           NUMBA_NUM_THREADS=os.environ.get("NUMBA_NUM_THREADS", "2"))
                os.makedirs(env["HITEN_EVIDENCE_DIR"], exist_ok=True); os.makedirs(env["HITEN_REPLAY_DIR"], exist_ok=True)
                t0 = time.time()
                try:
                    p = subprocess.run([os.path.join(HERE, "check"), c, a.tier], capture_output=True, text=True, env=env, timeout=3000)
                    rc, so = p.returncode, p.stdout
                except subprocess.TimeoutExpired:
                    rc, so = 2, "timeout"
                clauses = [l.strip()[:150] for l in so.splitlines() if "violated clause" in l][:3]
                inc = [l.strip()[:200] for l in so.splitlines() if l.startswith("INCONCLUSIVE")][:1]
                rec["runs"][c] = {"exit": rc, "clauses": clauses, "inconclusive": inc, "wall_s": round(time.time() - t0)}
                if rc == 1:
                    break
            rec["status"] = "killed" if any(r["exit"] == 1 for r in rec["runs"].values()) else ("survived" if all(r["exit"] == 0 for r in rec["runs"].values()) else "inconclusive")
            with open(outfile, "a") as f:
                f.write(json.dumps(rec) + "\n")
            print(f"[{rec['status']:12s}] L{ln} {desc} | {rec['source_line'][:90]} | " + "; ".join(f"{c}:{r['exit']}" for c, r in rec["runs"].items()), flush=True)
            return rec
        finally:
            with open(os.path.join(wt, rel), "wb") as f:
                f.write(bsrc)
            shutil.rmtree(os.path.join(wt, "_ev"), ignore_errors=True); shutil.rmtree(os.path.join(wt, "_rp"), ignore_errors=True)
            free.append(wt)

    try:
        with ThreadPoolExecutor(a.jobs) as ex:
            results = [r for r in ex.map(job, muts) if r]
    finally:
        for wt in wts:
            subprocess.run(["git", "-C", "/repo", "worktree", "remove", "--force", wt], capture_output=True)
        shutil.rmtree(root, ignore_errors=True)
    n = len(results)
    k = sum(r["status"] == "killed" for r in results)
    s = [r for r in results if r["status"] == "survived"]
    print(f"SUMMARY {a.prop} {a.file}: {k} killed, {len(s)} survived, {n - k - len(s)} inconclusive of {n}")
    for r in s:
        print("  SURVIVED", r["line"], r["mutant"], "|", r["source_line"])


if __name__ == "__main__":
    main()
