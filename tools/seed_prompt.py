#!/usr/bin/env python3
"""Create a scratch worktree of /repo HEAD and a prompt file for one independent "seeded change" engineer.

usage: tools/seed_prompt.py ROUND ID "steering text"
The engineer sees only the property text (from properties.jsonl) and its own worktree under /tmp — nothing from /verif.
"""
import json, os, subprocess, sys

rnd, pid, steering = sys.argv[1], sys.argv[2], sys.argv[3]
here = os.path.dirname(os.path.dirname(os.path.abspath(__file__)))
prop = next(json.loads(l) for l in open(os.path.join(here, "properties.jsonl")) if json.loads(l)["id"] == pid)
wt, out = f"/tmp/sb{rnd}_{pid}", f"/tmp/sb{rnd}_out/{pid}"
os.makedirs(out, exist_ok=True)
if not os.path.isdir(wt):
    subprocess.run(["git", "-C", "/repo", "worktree", "add", "--detach", wt, "HEAD"], check=True, stdout=subprocess.DEVNULL)
files = prop["anchors"]["files"]
mechs = "; ".join(f"{m['name']} @ {m['where']}" for m in prop["anchors"].get("mechanism", []))
text = f"""You are a careful adversarial engineer. Work ONLY inside your own scratch git worktree of the Python/numba library "hiten" at {wt} (a checkout of the repository; the package source is under {wt}/src/hiten; run Python with `PYTHONPATH={wt}/src /venv/bin/python` so that your worktree's code is imported instead of the installed copy — verify with `python -c "import hiten; print(hiten.__file__)"`). Do not read or write anything under /verif or /repo. Set NUMBA_NUM_THREADS=2 for everything you run (the machine is shared).

Below is a semantic property of the library. Your job: produce ONE realistic change to the library source (the kind of slip a maintainer could make in a refactor or "optimisation") that BREAKS this property while the code still imports/compiles and the existing test suite still passes. Prefer a change that needs something specific to manifest — a particular input region, an unusual but legitimate configuration, a multi-step sequence of operations, a particular schedule/thread count, or two cooperating sites that each look fine alone — NOT something ordinary use would expose at once, and NOT a change to tests. Keep the diff small (a few lines).

Deliver, in {out}:
1. `patch.diff` — `git diff` of your change against the worktree HEAD (source files only).
2. `demo.py` — a small standalone program (run as `PYTHONPATH={wt}/src /venv/bin/python demo.py`) that exits 0 and prints PASS on the unmodified code and exits 1 and prints FAIL with your change applied; it must check the property through the library's observable behaviour with an independent expected value (closed form, SciPy, brute force…), not by grepping the source.
3. `notes.md` — which clause of the property is broken, what is needed for the break to manifest (input region / configuration / sequence), why ordinary use and the existing tests do not expose it, and exactly what you ran.
Verify yourself: (a) demo passes without and fails with the change (use `git diff > {out}/patch.diff; git apply -R {out}/patch.diff` and `git apply {out}/patch.diff`; NEVER use `git stash` — the stash is shared between all worktrees of the repository and other engineers are working in sibling worktrees); (b) with the change applied, the test modules most related to the touched files pass: find them under {wt}/src/hiten/**/_tests/ and run e.g. `cd {wt} && NUMBA_NUM_THREADS=2 PYTHONPATH={wt}/src /venv/bin/python -m pytest -q -p no:cacheprovider --timeout=900 <modules>` (run the related modules, not the whole 20-minute suite; say which ones you ran and their result). Leave the change APPLIED in the worktree when you finish. Report briefly what you did.

PROPERTY:
{prop['id']}: {prop['title']}

STATEMENT: {prop['statement']}

QUANTIFIED OVER: {prop['quantifier']['text'] if isinstance(prop['quantifier'], dict) else prop['quantifier']}

WHY THE EXISTING TESTS CANNOT SETTLE IT: {prop['why_tests_cant']}

CODE ANCHORS (files): {', '.join(files)}
MECHANISMS: {mechs}

STEERING: {steering}
"""
open(os.path.join(out, "prompt.txt"), "w").write(text)
print(os.path.join(out, "prompt.txt"))
