#!/usr/bin/env python3
"""Print a Python source file without docstrings: tools/nodoc.py FILE [start_marker]"""
import ast, sys
src = open(sys.argv[1]).read()
class S(ast.NodeTransformer):
    def visit(self, node):
        self.generic_visit(node)
        if isinstance(node, (ast.FunctionDef, ast.AsyncFunctionDef, ast.ClassDef, ast.Module)) and node.body and isinstance(node.body[0], ast.Expr) \
                and isinstance(getattr(node.body[0], "value", None), ast.Constant) and isinstance(node.body[0].value.value, str):
            node.body = node.body[1:] or [ast.Pass()]
        return node
out = ast.unparse(S().visit(ast.parse(src)))
if len(sys.argv) > 2:
    i = out.find(sys.argv[2])
    out = out[i:] if i >= 0 else out
    if len(sys.argv) > 3:
        j = out.find(sys.argv[3], 1)
        out = out[:j] if j > 0 else out
print(out)
