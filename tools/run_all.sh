#!/bin/bash
# tools/run_all.sh [quick|thorough] [IDs...]  — run registered checks one after another on /repo's current tree; summary at the end
cd "$(dirname "$0")/.."
tier="${1:-quick}"; shift || true
ids="$@"
[ -z "$ids" ] && ids=$(python3 -c "import json;print(' '.join(c['property_id'] for c in json.load(open('MANIFEST.json'))['checks']))")
mkdir -p seeded/_runs/logs
for id in $ids; do
  t0=$(date +%s)
  ./check "$id" "$tier" > "seeded/_runs/logs/$id.$tier.log" 2>&1
  rc=$?
  echo "$id $tier exit=$rc wall=$(( $(date +%s) - t0 ))s $(grep -E '^(HELD|VIOLATION|INCONCLUSIVE|KNOWN-FINDING)' seeded/_runs/logs/$id.$tier.log | head -3 | tr '\n' '|' | cut -c1-220)"
done
