add("C01", "runtime oracle comparison (sympy-derived CR3BP field/Jacobian/energy) on generated states + trajectory energy-drift monitor",
    "held on the observed executions: thousands of (mu, state) samples incl. all catalogue mass ratios, random 42-D variational states, "
    "directional derivative of the library's own energy along its own field, and energy drift along trajectories of every RK method/order",
    "trusts sympy/numpy and the reference derivation from the effective potential; states >= 1e-2 from the primaries; finite samples only")
