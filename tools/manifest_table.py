add("C01", "runtime oracle comparison (sympy-derived CR3BP field/Jacobian/energy) on generated states + trajectory energy-drift monitor",
    "held on the observed executions: thousands of (mu, state) samples incl. all catalogue mass ratios, random 42-D variational states, "
    "directional derivative of the library's own energy along its own field, and energy drift along trajectories of every RK method/order",
    "trusts sympy/numpy and the reference derivation from the effective potential; states >= 1e-2 from the primaries; finite samples only")
add("C04", "runtime oracle comparison on live libration-point objects (mpmath roots and Taylor coefficients, sympy Jacobian spectrum, symplecticity/diagonalisation invariants) over generated mass ratios",
    "held on the observed systems: every catalogue pair, an edge set around mu_Routh/0.5/2e-9 and log-uniform mu in [2e-9,0.5]; all five points, gamma, c_2..c_12, modes and the normal-form matrix checked against independent references",
    "trusts mpmath/sympy/numpy; mode tolerance 1e-6 relative (position error amplified by 1/gamma); above mu_Routh a raised error for L4/L5 modes is accepted")
add("C15", "reference-model monitor: per-segment sign-change model on the same samples + exact analytic crossings (brentq); convergence-rate monitor under grid refinement",
    "held on the observed detection calls: thousands of sampled curves (random normals, planted exact zeros, flat runs, zero-length segments, first/last-sample zeros), "
    "all directions, refinement 0..10, dedup on/off, max-hits; accuracy and refinement ratios on analytic curves for linear and cubic interpolation",
    "where the statement is silent (tangencies, on-surface samples with a direction filter, last sample) either outcome is accepted; convergence judged by geometric-mean error ratios in a conclusive window")
add("C19", "brute-force reference monitor: mutual-nearest-neighbour and radius search by enumeration, exact segment-segment distance by candidate enumeration, bitwise delta-v recomputation on every reported connection",
    "held on the observed backend runs: thousands of cloud pairs (random, clustered, gridded with exact ties, collinear, duplicated, crossing curves, empty) over 9 decades of tolerances and "
    "tens of thousands of segment pairs in 9 geometric classes incl. exactly and nearly parallel, collinear and zero-length",
    "ties accepted in either consistent way; labels within 4 ulp of the ballistic threshold accept either; completeness asserted only for strictly mutual pairs clearly inside the thresholds")
add("C03", "runtime oracle comparison: reference 42-D variational flow (sympy field + SciPy DOP853 1e-13), finite differences of the library's own flow, symplectic invariants in canonical coordinates, on live _compute_stm / orbit objects",
    "held on the observed executions: STM computations over several mass ratios, start classes (near L1/L2/L3, generic), durations up to 3, both directions, adaptive 5/8 and fixed 4/6/8; "
    "every sampled PHI row checked; corrected halo/Lyapunov orbits: monodromy, M f = f, reported indices and eigenvalues",
    "paths kept >= 0.05 from the primaries and |Phi| <= 1e4; tolerance 1e-6 |Phi|^2 plus a term proportional to the scheme's own state error")
add("C12", "boundary observation of Manifold.compute results against a reference Floquet analysis (reference monodromy, STM transport, reference flow and Jacobi constant)",
    "held on the observed manifolds: corrected halo/Lyapunov orbits at L1/L2 (Earth-Moon, Sun-Earth), 4 branches each, 8-40 phases, displacements 1e-7..1e-4, adaptive/fixed; each retained trajectory checked for base point, displacement norm, angle to the true direction, side, time direction, flow and Jacobi constant",
    "seed-to-phase association by nearest reference base point; side convention = pivot-positive eigenvector transported continuously (as documented by the library)")
add("C05", "contract-style monitor on the real Newton backend (iterates recorded through its own on_iteration hook, residual re-evaluated by the monitor) over generated residual maps + independent reference propagation of every corrected orbit",
    "held on the observed executions: hundreds to tens of thousands of generated solver problems (regular, rootless, singular start, raising and NaN residuals, rectangular; both steppers; tolerances 1e-14..1e-3; caps) and "
    "corrected halo/Lyapunov/vertical orbits at L1/L2 for several mass ratios: closure under an independent integrator, half-period residual, period = 2 x first crossing, untouched non-control components; failures must raise and leave the orbit unchanged",
    "reference flow at 1e-13; closure bound scales with the reference monodromy norm; any exception counts as 'raises an error'; non-finite updates (NaN residual) are not judged against the step cap")
add("C10", "runtime oracle comparison at signed times (SciPy DOP853 1e-13 on independent right-hand sides) for every system family x integrator x direction x grid kind; outcome classifier reject-or-correct for descending grids",
    "held on the observed executions: user autonomous and time-dependent rhs, CR3BP, polynomial Hamiltonian systems (and the 42-D variational system in the thorough tier) x fixed 4/6/8, adaptive 5/8, symplectic 2/4 x forward/backward, "
    "selective flip, ascending/non-uniform/offset/descending grids; time stamps, first sample, intermediate samples and round trips checked",
    "benign non-chaotic problems so 2e-6 absolute is far above integration error; the extended symplectic scheme is judged at 1e-3 here (its order is C16's subject); round trip not judged for time-dependent rhs (API restarts the clock)")
add("C13", "fault enumeration: every accept/reject/raise outcome sequence up to length L of a scripted corrector against the real predictor-corrector backend, compared clause-wise with an executable model of the property; plus end-to-end families under an independent reference flow",
    "all outcome sequences up to L=9 (quick) / 14 (thorough) for a pairwise-covering configuration set (steppers, step vectors, targets, member/retry limits, clamps, shrink policies); icontract post-conditions on _clamp_step/on_reject; "
    "generated halo/Lyapunov families: every member closes with its own period, periods differ, parameter monotone",
    "model written from the property text (contmodel); where the text is silent either outcome is accepted; assumes an accepted correction leaves the step unchanged",
    category="fault_enumeration")
add("C16", "invariant monitor on the real one-step map (finite-difference Jacobian against the extended canonical form, S_-h o S_h = id) + convergence-rate and long-run energy monitors against an independent exact flow (SciPy DOP853 on J grad H from the coefficient dictionary)",
    "held on the observed executions: random polynomial Hamiltonians of degree <= 6 in 3 dof (separable, non-separable, q.p cross terms), orders 2/4/6/8, steps +-[1e-3,0.2], omega in [0.5,50]; asymptotic rates from the finest conclusive pair; 20k-60k step energy records",
    "rates judged only inside the conclusive error window [2e-12,1e-3]; omega held fixed for the order clause as the property states; energy clause on bounded small-amplitude motions only")
add("C17", "twin-execution monitor (translation-validation style): every program variant run on the polynomial Hamiltonian system and on an independently generated generic vector field J grad H, results compared; plus independent gradient oracle for rhs/dH_dQ/dH_dP and the centre-manifold stepping copy",
    "held on the observed twin executions: random polynomial Hamiltonians (degree <= 5 quick, <= 8 thorough) x fixed 4/6/8, RK45, DOP853 in locked-step and free mode x grids/tolerances x three event functions (affine, mixed, time dependent) x directions; trajectories, derivatives, hit decision, event time/state",
    "free-mode adaptive comparisons allow 200 x tolerance because a last-bit difference may flip an accept/reject decision; hit/no-hit within 1e-6 of the span end not judged",
    category="translation_validation")
add("C18", "runtime enumeration of the live conversion registry + round-trip identity and independent-evaluation oracles (dictionary evaluation of packed polynomials at transformed points) on pipeline Hamiltonians and random polynomials",
    "held on the observed executions: every registered edge executed at L1/L2(/L3) for several mass ratios and degrees; all five inverse pairs round-tripped on pipeline Hamiltonians and on random (non-Hamiltonian) polynomials; polynomial-vs-coordinate agreement at random complex points; all point maps inverted at L1..L5",
    "tolerances scale with cond(C)^degree for the physical<->modal change; forms that the library itself declines to build for a point are skipped and counted")
