add("C01", "runtime oracle comparison (sympy-derived CR3BP field/Jacobian/energy) on generated states + trajectory energy-drift monitor",
    "held on the observed executions: thousands of (mu, state) samples incl. all catalogue mass ratios, random 42-D variational states, "
    "directional derivative of the library's own energy along its own field, and energy drift along trajectories of every RK method/order",
    "trusts sympy/numpy and the reference derivation from the effective potential; states >= 1e-2 from the primaries; finite samples only")
add("C04", "runtime oracle comparison on live libration-point objects (mpmath roots and Taylor coefficients, sympy Jacobian spectrum, symplecticity/diagonalisation invariants) over generated mass ratios",
    "held on the observed systems: every catalogue pair, an edge set around mu_Routh/0.5/2e-9 and log-uniform mu in [2e-9,0.5]; all five points, gamma, c_2..c_12, modes and the normal-form matrix checked against independent references",
    "trusts mpmath/sympy/numpy; mode tolerance 1e-6 relative (position error amplified by 1/gamma); above mu_Routh a raised error for L4/L5 modes is accepted")
add("C15", "reference-model monitor: per-segment sign-change model on the same samples + exact analytic crossings (brentq); convergence-rate monitor under grid refinement",
    "held on the observed detection calls: thousands of sampled curves (random normals, planted exact zeros, flat runs, zero-length segments, first/last-sample zeros), "
    "all directions, refinement 0..10, dedup on/off, max-hits; accuracy and refinement ratios on analytic curves for linear and cubic interpolation",
    "where the statement is silent (tangencies, on-surface samples with a direction filter, last sample) either outcome is accepted; convergence judged by geometric-mean error ratios in a conclusive window")
add("C19", "brute-force reference monitor: mutual-nearest-neighbour and radius search by enumeration, exact segment-segment distance by candidate enumeration, bitwise delta-v recomputation on every reported connection",
    "held on the observed backend runs: thousands of cloud pairs (random, clustered, gridded with exact ties, collinear, duplicated, crossing curves, empty) over 9 decades of tolerances and "
    "tens of thousands of segment pairs in 9 geometric classes incl. exactly and nearly parallel, collinear and zero-length",
    "ties accepted in either consistent way; labels within 4 ulp of the ballistic threshold accept either; completeness asserted only for strictly mutual pairs clearly inside the thresholds")
